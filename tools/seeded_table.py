#!/usr/bin/env python3
"""tools/seeded_table.py [dir]: markdown table of the seeded changes (seeded/<id>/meta.json) for DESIGN.md R5"""
import glob
import json
import os
import re
import sys

root = sys.argv[1] if len(sys.argv) > 1 else os.path.join(os.path.dirname(os.path.dirname(os.path.abspath(__file__))), "seeded")
rows = []
for p in sorted(glob.glob(os.path.join(root, "*", "meta.json"))):
    m = json.load(open(p))
    sid = os.path.basename(os.path.dirname(p))
    lines = m.get("check_lines", [])
    ded = [l for l in lines if "refuted obligation" in l]
    bnd = [l for l in lines if "bounded stand-in failure" in l]
    nf = next((l for l in lines if "no-failing-input-found" in l), "")
    caught = []
    if ded:
        ob = re.sub(r"\s*\(line.*", "", ded[0].split("refuted obligation:")[1]).strip()
        caught.append("obligation `" + ob[:110] + "`" + (f" (+{len(ded) - 1} more)" if len(ded) > 1 else ""))
    if bnd:
        case = bnd[0].split("bounded stand-in failure:")[1].strip().split(": ")[0]
        caught.append("stand-in `" + case[:90] + "`")
    conf = m.get("confirmed", {})
    ok = str(conf.get("tests_with_patch", "")).startswith("325 passed") and conf.get("demo_with_patch_exit") == 1 and conf.get("demo_without_patch_exit") == 0
    what = (m.get("what") or m.get("summary") or "").replace("|", "/").replace("\n", " ")
    rows.append((sid, m.get("property"), what[:150] + ("..." if len(what) > 150 else ""), "yes" if ok else "NO", m.get("check_exit"), "; ".join(caught) or "-"))
print("| id | property | change (abridged) | confirmed | check exit | caught by |")
print("|---|---|---|---|---|---|")
for r in rows:
    print("| " + " | ".join(str(x) for x in r) + " |")
print()
print(f"{len(rows)} changes, {sum(1 for r in rows if r[4] == 1)} reported as a violation of the intended property, "
      f"{sum(1 for r in rows if r[4] == 0)} missed, {sum(1 for r in rows if r[4] not in (0, 1))} other exit codes.")
