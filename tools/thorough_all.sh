#!/bin/bash
# runs every thorough command once (self-test of the thorough tier); prints one line per property
VROOT=$(cd "$(dirname "$0")/.." && pwd)
cd $VROOT
for p in C03 C04 C05 C06 C07 C08 C09 C10 C11 C12 C13 C14 C15 C16 C17 C18 C19 C20 C02 C01; do
  OUT=$(timeout 10000 ./check $p --tier thorough --jobs ${JOBS:-8} 2>&1); RC=$?
  echo "$p exit=$RC $(echo "$OUT" | grep "^$p:" | cut -c1-230)"
  echo "$OUT" | grep -E "refuted obligation|bounded stand-in failure|CHECKER-FAULT|UNDECIDED" | head -5 | cut -c1-300
done
echo THOROUGH-DONE
