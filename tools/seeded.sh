#!/bin/bash
# tools/seeded.sh <worktree> <seed-id>
#  1. confirm in the scratch worktree: with the patch the test-suite passes and demo.py exits 1; without it demo.py exits 0
#  2. copy patch.diff / demo.py / meta.json to /verif/seeded/<seed-id>/
#  3. apply the patch to /repo, run the property's check (quick), undo the patch straight afterwards
VROOT=$(cd "$(dirname "$0")/.." && pwd)
WT=$1; ID=$2
OUT=${SEEDED_OUT:-$VROOT/seeded}   # where <id>/{patch.diff,demo.py,meta.json} end up (outside a run snapshot: it is deleted with the run)
SRC=$WT/seeded/$ID
PROP=$(python3 -c "import json;print(json.load(open('$SRC/meta.json'))['property'])")
cd $WT || exit 9
git checkout -q -- hexital
git apply $SRC/patch.diff || { echo "$ID: patch does not apply in worktree"; exit 9; }
T=$(timeout 900 /venv/bin/python -m pytest -q -p no:cacheprovider 2>&1 | tail -1)
PYTHONPATH=$WT timeout 300 /venv/bin/python seeded/$ID/demo.py >/dev/null 2>&1; D1=$?
if [ "$SEEDED_MODE" = worktree ]; then
  # second stream (while another campaign owns /repo): the check reads the patched scratch worktree through HEXITAL_REPO
  CHK=$(cd $VROOT && HEXITAL_REPO=$WT timeout 3000 ./check $PROP 2>&1); RC=$?
fi
git checkout -q -- hexital
PYTHONPATH=$WT timeout 300 /venv/bin/python seeded/$ID/demo.py >/dev/null 2>&1; D0=$?
echo "$ID [$PROP] tests: $T | demo with patch exit=$D1 | demo without patch exit=$D0"
mkdir -p $OUT/$ID
cp $SRC/patch.diff $SRC/demo.py $SRC/meta.json $OUT/$ID/
cd $VROOT
if [ "$SEEDED_MODE" != worktree ]; then
git -C /repo apply $OUT/$ID/patch.diff || { echo "$ID: patch does not apply to /repo"; exit 9; }
CHK=$(timeout 3000 ./check $PROP 2>&1); RC=$?
git -C /repo checkout -q -- .
fi
echo "$CHK" | grep -E "refuted obligation|bounded stand-in|VIOLATION|^$PROP:" | cut -c1-170 | head -3
echo "$CHK" | grep -E "refuted obligation|bounded stand-in|model-replay|^$PROP:" | head -8 > $OUT/$ID/check.txt
echo "$CHK" | grep -c "no-failing-input-found" | sed 's/^/VIOLATION lines ending no-failing-input-found: /' >> $OUT/$ID/check.txt
echo "$ID => check $PROP exit=$RC"
python3 - <<PY
import json
p='$OUT/$ID/meta.json'
m=json.load(open(p))
m['confirmed']={'tests_with_patch':'''$T''','demo_with_patch_exit':$D1,'demo_without_patch_exit':$D0,'ran':'tools/seeded.sh: pytest + demo.py in a scratch worktree, then ./check $PROP on ${SEEDED_MODE:-/repo} with the patch applied'}
m['check_exit']=$RC
m['check_lines']=[l.rstrip()[:300] for l in open('$OUT/$ID/check.txt')]
json.dump(m,open(p,'w'),indent=1)
PY
