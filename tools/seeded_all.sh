#!/bin/bash
# runs every seeded change found in the scratch worktrees through tools/seeded.sh (sequentially)
VROOT=$(cd "$(dirname "$0")/.." && pwd)
cd $VROOT
for wt in /tmp/wt_m5 /tmp/wt_m4 /tmp/wt_m1 /tmp/wt_m6 /tmp/wt_m2; do
  for d in $wt/seeded/*/; do
    id=$(basename $d)
    [ -f $d/meta.json ] || continue
    [ -f $VROOT/seeded/$id/meta.json ] && grep -q check_exit $VROOT/seeded/$id/meta.json && continue
    ./tools/seeded.sh $wt $id 2>&1 | grep -v conda
  done
done
echo ALL-DONE
