#!/bin/bash
# runs every seeded change found in the scratch worktrees through tools/seeded.sh (sequentially)
VROOT=$(cd "$(dirname "$0")/.." && pwd)
cd $VROOT
OUT=${SEEDED_OUT:-$VROOT/seeded}
for wt in ${SEEDED_WTS:-/tmp/wt_p1 /tmp/wt_p2 /tmp/wt_p3}; do
  for d in $wt/seeded/*/; do
    id=$(basename $d)
    [ -f $d/meta.json ] || continue
    [ -f $OUT/$id/meta.json ] && grep -q check_exit $OUT/$id/meta.json && continue
    ./tools/seeded.sh $wt $id 2>&1 | grep -v conda
  done
done
echo ALL-DONE
