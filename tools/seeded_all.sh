#!/bin/bash
# runs every seeded change found in the scratch worktrees through tools/seeded.sh (sequentially)
VROOT=$(cd "$(dirname "$0")/.." && pwd)
cd $VROOT
OUT=${SEEDED_OUT:-$VROOT/seeded}
for wt in /tmp/wt_m1 /tmp/wt_m2 /tmp/wt_m3 /tmp/wt_m4 /tmp/wt_m5 /tmp/wt_m6 /tmp/wt_n1 /tmp/wt_n2 /tmp/wt_n3 /tmp/wt_n4 /tmp/wt_n5; do
  for d in $wt/seeded/*/; do
    id=$(basename $d)
    [ -f $d/meta.json ] || continue
    [ -f $OUT/$id/meta.json ] && grep -q check_exit $OUT/$id/meta.json && continue
    ./tools/seeded.sh $wt $id 2>&1 | grep -v conda
  done
done
echo ALL-DONE
