#!/usr/bin/env python3
"""tools/design_table.py: replace the R5 table of DESIGN.md by the output of tools/seeded_table.py"""
import os
import subprocess
import sys

root = os.path.dirname(os.path.dirname(os.path.abspath(__file__)))
tab = subprocess.run([sys.executable, os.path.join(root, "tools", "seeded_table.py")], capture_output=True, text=True).stdout.rstrip("\n").split("\n")
lines = open(os.path.join(root, "DESIGN.md")).read().split("\n")
a = next(i for i, l in enumerate(lines) if l.startswith("| id | property |"))
b = next(i for i, l in enumerate(lines) if i > a and "reported as a violation of the intended property" in l and l[:1].isdigit())
lines[a:b + 1] = tab
open(os.path.join(root, "DESIGN.md"), "w").write("\n".join(lines))
print("table:", len(tab), "lines")
