"""C11 bounded oracle: Heikin-Ashi conversion follows its recurrence under every append schedule.

Real code: Indicator(candlestick_type="HA"), Hexital(candlestick_type="HA") (member on the default manager and member with its
own timeframe = derived manager). After construction and after EVERY append:
  1. candles seen by the indicator == ref_store.heikin_ashi(raw) or heikin_ashi(ref_store.resample(raw, tf)) [timestamps and
     volume exactly; OHLC within 1e-9 relative - the statement fixes the formulas, not the float association order];
  2. every candle is tagged converted and converted once (tag == "Heikin-Ashi"; a second conversion would show as an HA-of-HA value
     in 1. and as converted values inside clean_values in 3.);
  3. raw values recoverable: candle.clean_values holds the raw (collapsed) OHLCV;
  4. readings == readings of the same indicator run over plain candles that already hold the reference HA values.
"""
from __future__ import annotations

import random
from datetime import timedelta

from oracles import gen
from oracles import ref_store as R

PROP = "C11"
FN_CONV = "hexital.core.candlestick_type.CandlestickType._find_conv_index"
FN_HEX = "hexital.core.hexital.Hexital._validate_indicators"  # derived manager is built from deep copies of already converted candles
FN_HEX_APPEND = "hexital.core.hexital.Hexital.append"  # ... and later receives the Candle objects the default manager already converted
HA_TAG = "Heikin-Ashi"


def _members():
    from hexital.indicators import ATR, EMA, Supertrend

    return [
        ("EMA", lambda **kw: EMA(period=3, **kw)),
        ("ATR", lambda **kw: ATR(period=3, **kw)),
        ("Supertrend", lambda **kw: Supertrend(period=3, **kw)),
    ]


class Subject:
    """route in {indicator, hexital, hexital-derived}"""

    def __init__(self, route, make, candles, tf):
        from hexital import Hexital

        self.route = route
        self.fill = route == "indicator+fill"
        if route in ("indicator", "indicator+fill"):
            kw = {"timeframe": tf} if tf else {}
            if self.fill:
                kw["timeframe_fill"] = True
            self.ind = make(candles=candles, candlestick_type="HA", **kw)
            self.ind.calculate()
            self.top = self.ind
        elif route == "hexital":
            self.ind = make()
            kw = {"timeframe": tf} if tf else {}
            self.top = Hexital("oracle", candles, [self.ind], candlestick_type="HA", **kw)
            self.top.calculate()
        elif route == "hexital-derived":
            self.ind = make(timeframe=tf)
            self.top = Hexital("oracle", candles, [self.ind], candlestick_type="HA")
            self.top.calculate()
        else:
            raise ValueError(route)

    def append(self, candles):
        self.top.append(candles)

    def candles(self):
        return self.ind.candles


def start_class(sched_label):
    if sched_label.startswith("ctor-all"):
        return "ha-batch-conversion"
    if sched_label.startswith("empty"):
        return "ha-empty-start"
    if sched_label.startswith("one"):
        return "ha-one-candle-start"
    return "ha-resume-after-preload"


def check(subject, make, raw_rows, tf, name_for_twin):
    """-> None or (symptom, detail, index, function-hint)"""
    cands = subject.candles()
    base = R.resample(raw_rows, R.tf_seconds(tf)) if tf else R.rows(raw_rows)
    if getattr(subject, "fill", False) and tf:
        base = R.fill(base, R.tf_seconds(tf))  # gaps are filled from the RAW closes, conversion comes after
    want = R.heikin_ashi(base)
    got = R.rows(cands)
    if len(got) != len(want):
        return "candle-count", f"{len(got)} candles, reference has {len(want)}", min(len(got), len(want)), None
    for i, (g, w, b, c) in enumerate(zip(got, want, base, cands)):
        if g[0] != w[0]:
            return "timestamp", f"candle {i} timestamp {g[0]} reference {w[0]}", i, None
        if c.tag != HA_TAG:
            raw_same = g[1:5] == b[1:5]
            tagged = [j for j, x in enumerate(cands) if x.tag == HA_TAG]
            hint = "; only candle 0 carries the tag, so the resume index search (which never looks at index 0) skips every later candle" if tagged == [0] else f"; tagged candles: {tagged[:8]}"
            return "unconverted-candle", f"candle {i} of {len(got)} tag={c.tag!r}; OHLC {'equal the raw values' if raw_same else R.short(g[1:5])}, reference HA {R.short(w[1:5], 90)}{hint}", i, None
        if not R.close_rows([g], [w]):
            twice = R.close_rows([g], [R.heikin_ashi(want)[i]])
            return "wrong-ha-values", f"candle {i} of {len(got)} OHLCV {R.short(g[1:], 100)} reference HA {R.short(w[1:], 100)}" + (" (= HA applied twice)" if twice else ""), i, None
        cv = c.clean_values
        rawv = tuple(cv.get(k) for k in ("open", "high", "low", "close", "volume"))
        if rawv != tuple(b[1:6]):
            return "raw-not-recoverable", f"candle {i} clean_values {R.short(rawv, 100)} raw {R.short(tuple(b[1:6]), 100)}", i, None
    # readings computed on converted values: twin over plain pre-converted candles, same reading names
    exact = all(g == w for g, w in zip(got, want))
    twin = make(candles=R.to_candles(want if exact else got), fullname_override=name_for_twin)
    twin.calculate()
    a = [(c.indicators, c.sub_indicators) for c in cands]
    b = [(c.indicators, c.sub_indicators) for c in twin.candles]
    for i, (x, y) in enumerate(zip(a, b)):
        if x != y:
            d = R.snap_diff((0,) * 6 + x, (0,) * 6 + y)
            return "readings-not-on-converted-values", f"candle {i} {d[0]}: HA run={R.short(d[1])} plain run over pre-converted candles={R.short(d[2])}", i, None
    return None


def schedules(n, rnd, per_bucket, thorough):
    """(label, candles given at construction, chunk sizes)"""
    out = [("ctor-all", n, [])]
    out.append(("empty/ones", 0, [1] * n))
    out.append(("empty/1+rnd", 0, [1] + R.random_chunks(n - 1, rnd, 6)))
    out.append(("empty/rnd>=2", 0, [2 * per_bucket + 1] + R.random_chunks(n - 2 * per_bucket - 1, rnd, 6)))
    out.append(("empty/all", 0, [n]))
    out.append(("one/ones", 1, [1] * (n - 1)))
    out.append(("one/rnd", 1, R.random_chunks(n - 1, rnd, 6)))
    k = 2 * per_bucket + 2
    out.append(("pre/rnd", k, R.random_chunks(n - k, rnd, 6)))
    if thorough:
        out.append(("empty/bucket+rnd", 0, [per_bucket] + R.random_chunks(n - per_bucket, rnd, 6)))
        out.append(("one/all", 1, [n - 1]))
        out.append(("pre/ones", k, [1] * (n - k)))
        out.append(("pre-half/rnd", n // 2, R.random_chunks(n - n // 2, rnd, 6)))
    return out


def run(tier, seed, focus=None):
    R.force_utc()
    rep = R.Report(PROP, seed, focus)
    rnd = random.Random(seed)
    thorough = tier == "thorough"
    kinds = ["random", "gappy", "dup", "sawtooth", "flat"] if thorough else ["random", "gappy", "dup"]
    tfs = [None, "T5", "S30", "H1", "T7", "D1"] if thorough else [None, "T5", "S30"]
    members = _members()
    n_streams = 8 if thorough else 2
    for mname, make in members:
        for route in ("indicator", "hexital", "hexital-derived", "indicator+fill"):
            for tf in tfs:
                if route in ("hexital-derived", "indicator+fill") and tf is None:
                    continue
                for kind in kinds:
                    for si in range(n_streams):
                        sseed = rnd.randrange(1 << 16)
                        if tf:
                            per_bucket = 3
                            step = timedelta(seconds=max(1, R.tf_seconds(tf) // 3))
                            stream = gen.stream(kind, 14 * 3, sseed, step=step)
                        else:
                            per_bucket = 1
                            stream = gen.stream(kind, 24, sseed)
                        raw = R.rows(stream)
                        n = len(raw)
                        rep.distinct += 1
                        srnd = random.Random(sseed)
                        for label, pre_n, parts in schedules(n, srnd, per_bucket, thorough):
                            did = f"{route}/{mname}/tf={tf}/{kind}/{label}/s{si}"
                            if not rep.wants([did]):
                                continue
                            rep.checked += 1
                            group = "ha-hexital-derived-timeframe" if route == "hexital-derived" else start_class(label)
                            fn = FN_HEX if route == "hexital-derived" else FN_CONV
                            inp = {
                                "route": route,
                                "indicator": f"{mname}(period=3)",
                                "candlestick_type": "HA",
                                "timeframe": tf,
                                "stream": {"generator": "oracles.gen.stream", "kind": kind, "n": n, "seed": sseed, "step_seconds": (R.tf_seconds(tf) // 3) if tf else 60},
                                "candles_at_construction": pre_n,
                                "chunks": parts[:40],
                            }
                            fed = pre_n
                            try:
                                subj = Subject(route, make, gen.clone(stream[:pre_n]), tf)
                                name = subj.ind.name
                                problem = check(subj, make, raw[:fed], tf, name) if fed else None
                                for k in parts:
                                    if problem:
                                        break
                                    fed += k
                                    subj.append(gen.clone(stream[fed - k : fed]))
                                    problem = check(subj, make, raw[:fed], tf, name)
                            except Exception as e:  # noqa
                                problem = ("raises-" + type(e).__name__.lower(), f"{type(e).__name__}: {str(e)[:160]}", None, None)
                            if problem:
                                if route == "hexital-derived" and fed > pre_n:
                                    fn = FN_HEX_APPEND
                                inp["after_feeding"] = fed
                                inp["first_bad_candle"] = problem[2]
                                rep.fail(group, f"{did}/{problem[0]}", fn, f"after {fed} of {n} candles: {problem[1]}", inp, route + "/" + mname, dedupe=(tf, label))
                            else:
                                rep.sample(did, 6)
    bound = (
        f"TZ=UTC; candlestick_type='HA' on {[m[0] for m in members]} (period 3) via standalone Indicator, Hexital (default manager) and a "
        f"Hexital member with its own timeframe (derived manager); timeframes {tfs}; stream kinds {kinds} x {n_streams} (24 candles, or 42 "
        "raw candles = 14 buckets for collapsing timeframes); schedules: construction over the whole list, from EMPTY (one-by-one, "
        "1+random chunks, first chunk >= 2 buckets, all at once"
        + (", one bucket + chunks" if thorough else "")
        + "), from ONE candle (one-by-one, random chunks"
        + (", all at once" if thorough else "")
        + "), from a few pre-loaded candles; candles vs ref_store.heikin_ashi, tag, clean_values and readings vs a plain run over "
        "pre-converted candles are checked after construction and after EVERY append."
    )
    return rep.result(bound)
