"""C01 bounded oracle: any append schedule gives exactly the batch result.

For every class in hexital.indicators.INDICATOR_MAP (+ Amorph wrappers of every movement/pattern function), several
streams, timeframe in {None, T5, S30, H1} x timeframe_fill in {False, True}: the indicator is fed through many append
compositions (gen.chunkings: all-at-once, one-by-one, random chunks) starting from an empty indicator or from one
constructed with a prefix; the final candles and ALL readings (`indicators` and `sub_indicators`, compared with ==)
must equal those of the batch run (constructed over the whole stream, calculate() once).
Scenarios in which batch and incremental runs raise the same exception type are not C01's business (C09) and are skipped.
"""
from __future__ import annotations

import random
from datetime import timedelta

from oracles import gen
from oracles import ref_store as R

PROP = "C01"
FN_COLLAPSE = "hexital.core.candle_manager.CandleManager.collapse_candles"
CONFIGS = [(None, False), ("T5", False), ("T5", True), ("S30", False), ("S30", True), ("H1", False), ("H1", True)]


def cfg_kwargs(tf, fill):
    if tf is None:
        return {}
    return {"timeframe": tf, "timeframe_fill": fill}


def stream_for(kind, tf, n_out, seed):
    """n_out candles on the indicator's timeframe: about three raw candles per bucket for collapsing timeframes"""
    if tf is None:
        return (R.pattern_stream(n_out, seed) if kind == "patterns" else gen.stream(kind, n_out, seed)), 1
    tf_s = R.tf_seconds(tf)
    step = max(1, tf_s // 3)
    if kind == "patterns":
        return R.pattern_stream(n_out * 3, seed, step=timedelta(seconds=step)), 3
    if kind == "gappy" and tf == "S30":
        step = 60  # raw candles coarser than the timeframe: every bucket holds one candle, fill interleaves
        return gen.stream(kind, n_out, seed, step=timedelta(seconds=step)), 1
    return gen.stream(kind, n_out * 3, seed, step=timedelta(seconds=step)), 3


def head_len(spec):
    nums = [v for k, v in spec.kwargs.items() if isinstance(v, int) and not isinstance(v, bool)]
    return max(2, sum(nums) + 2)


WRAP_FUNCS = ("highestbar", "lowestbar", "cross", "crossover", "crossunder")


def classify(spec, d, head):
    """group slug naming the defect class, from the indicator and the first difference (index, key, incremental, batch)"""
    idx, key = d[0], d[1]
    if key in R._FIELDS or key == "length":
        return f"{spec.slug}-candles-differ", FN_COLLAPSE
    if spec.key.startswith("Amorph/") and spec.kwargs.get("lookback") is not None:
        # pattern functions scan range(len(candles) - lookback, len(candles)) instead of index - lookback .. index
        return f"{spec.slug}-lookback-uses-list-length", spec.qualname()
    where = "head" if idx < head else "tail"
    if where == "head":
        if spec.key == "ADX":
            return "adx-wraparound-index0", spec.qualname()  # reading("high", index - 1) at index 0 reads the newest candle
        if spec.key.startswith("Amorph/") and spec.key.split("/")[1] in WRAP_FUNCS:
            return f"{spec.slug}-wraparound-below-index0", spec.qualname()
    return f"{spec.slug}-schedule-dependent-{where}", spec.qualname()


def raise_group(spec, side, exc):
    if spec.key.startswith("Amorph/") and spec.key.split("/")[1] in WRAP_FUNCS and isinstance(exc, TypeError):
        # look-back below index 0: wraps while the list is long enough, yields None (-> TypeError) while it is short
        return f"{spec.slug}-wraparound-below-index0"
    return f"{spec.slug}-raises-{side}-only"


def batch_run(spec, cfg, stream):
    try:
        ind = spec.build(gen.clone(stream), **cfg)
        ind.calculate()
        return R.snapshot(ind.candles), None
    except Exception as e:  # noqa
        return None, e


def incremental_run(spec, cfg, stream, pre_n, parts, calc_pre=True):
    """-> (snapshot, exception, number of stream candles the indicator had been given when it finished/raised)"""
    fed = pre_n
    try:
        ind = spec.build(gen.clone(stream[:pre_n]), **cfg)
        if pre_n and calc_pre:
            ind.calculate()
        for k in parts:
            fed += k
            ind.append(gen.clone(stream[fed - k : fed]))
        return R.snapshot(ind.candles), None, fed
    except Exception as e:  # noqa
        return None, e, fed


def schedules(n, rnd, thorough, per_bucket):
    """(label, preloaded, calc_pre, parts)"""
    out = []
    ch = gen.chunkings(n, rnd, 2 if thorough else 1)
    labels = ["all", "ones"] + [f"rnd{i}" for i in range(len(ch) - 2)]
    for lab, parts in zip(labels, ch):
        out.append((f"empty/{lab}", 0, True, parts))
    pres = [1, 2 * per_bucket + 1, n // 2] if thorough else [1, n // 2]
    for j, p in enumerate(pres):
        p = min(p, n - 1)
        rest = gen.chunkings(n - p, rnd, 1)
        out.append((f"pre{j}/all", p, True, rest[0]))
        out.append((f"pre{j}/rnd", p, True, rest[2]))
        if thorough and j == 0:
            out.append((f"pre{j}/ones", p, True, rest[1]))
        if thorough and j == 1:
            out.append((f"pre{j}-nocalc/rnd", p, False, rest[2]))
    return out


def run(tier, seed, focus=None):
    R.force_utc()
    rep = R.Report(PROP, seed, focus)
    rnd = random.Random(seed)
    thorough = tier == "thorough"
    specs, notes = R.indicator_specs(thorough)
    rep.notes.extend(notes)
    only = rep.focus_group()
    kinds = ["random", "gappy", "dup", "sawtooth", "volatile_then_flat", "patterns"] if thorough else ["random", "gappy", "patterns", "dup"]
    n_out = 40
    both_raise = 0
    prefix_raise = 0
    for spec in specs:
        if only and not only.startswith(spec.slug + "-"):
            continue
        head = head_len(spec)
        for tf, fill in CONFIGS:
            cfg = cfg_kwargs(tf, fill)
            for kind in kinds:
                if kind == "patterns" and (tf is not None) and (not thorough or not spec.key.startswith("Amorph/")):
                    continue  # hand-shaped candles: base timeframe (thorough: pattern/movement wrappers on every timeframe)
                if not thorough and kind == "dup" and (tf is not None or spec.key.split("/")[0] not in ("EMA", "OBV", "MACD", "ATR", "VWAP")):
                    continue  # quick tier: repeated timestamps on the base timeframe, a few indicator classes
                if not thorough and (tf is not None) and (kind == "gappy") != fill:
                    continue  # quick tier: gaps with fill, dense stream without
                sseed = R.sub_seed(seed, spec.label, tf, fill, kind)
                stream, per_bucket = stream_for(kind, tf, n_out, sseed)
                n = len(stream)
                want, bexc = batch_run(spec, cfg, stream)
                warm = want is not None and len(want) >= head and any(v is not None for v in _flat(want[-1][6]))
                if warm:
                    rep.distinct += 1
                srnd = random.Random(sseed)
                for label, pre_n, calc_pre, parts in schedules(n, srnd, thorough, per_bucket):
                    did = f"{spec.label}/tf={tf}/fill={int(fill)}/{kind}/{label}"
                    if not rep.wants([did]):
                        continue
                    rep.checked += 1
                    got, iexc, fed = incremental_run(spec, cfg, stream, pre_n, parts, calc_pre)
                    inp = dict(spec.repro())
                    inp.update(
                        {
                            "timeframe": tf,
                            "timeframe_fill": fill,
                            "stream": {"generator": "oracles.c01.stream_for", "kind": kind, "n_out": n_out, "n": n, "seed": sseed},
                            "preloaded": pre_n,
                            "calculate_before_appends": calc_pre,
                            "chunks": parts[:40],
                        }
                    )
                    if bexc is not None or iexc is not None:
                        if bexc is not None and iexc is not None and type(bexc) is type(iexc):
                            both_raise += 1
                            continue
                        if iexc is not None and fed < n:
                            # the crash happened on an intermediate state: if a batch run over exactly that prefix crashes the
                            # same way, the defect is the crash itself (robustness, C09/C16), not schedule dependence
                            _, pexc = batch_run(spec, cfg, stream[:fed])
                            if pexc is not None and type(pexc) is type(iexc):
                                prefix_raise += 1
                                continue
                        side = "incremental" if iexc is not None else "batch"
                        exc = iexc if iexc is not None else bexc
                        inp["raised_after_feeding"] = fed
                        rep.fail(
                            raise_group(spec, side, exc),
                            did,
                            spec.qualname(),
                            f"{side} run raised {type(exc).__name__}: {str(exc)[:120]}"
                            + (f" after {fed} of {n} candles" if side == "incremental" else "")
                            + "; the other run "
                            + ("raised " + type(bexc).__name__ if (bexc is not None and iexc is not None) else "completed"),
                            inp,
                            spec.slug,
                        )
                        continue
                    d = R.first_snap_diff(got, want)
                    if d:
                        group, fn = classify(spec, d, head)
                        inp["first_diff"] = {"candle": d[0], "key": d[1]}
                        rep.fail(group, did, fn, f"candle {d[0]} of {len(want)} {d[1]}: incremental={R.short(d[2])} batch={R.short(d[3])}", inp, spec.slug)
                    elif warm:
                        rep.sample(did, 6)
    bound = (
        f"TZ=UTC; {len(specs)} indicator configurations (all {len({s.key for s in specs if not s.key.startswith('Amorph/')})} "
        f"INDICATOR_MAP classes with small parameters + Amorph wrappers of every MOVEMENT_MAP/PATTERN_MAP function) x "
        f"(timeframe, fill) in {CONFIGS} x stream kinds {kinds} (~{n_out} candles on the indicator's timeframe, 3 raw candles per "
        "bucket for collapsing timeframes) x schedules {all-at-once, one-by-one, random chunks} into an empty indicator and "
        "{all, random" + (", one-by-one, no calculate() before appending" if thorough else "") + "} into indicators pre-loaded with "
        + ("1, 2 buckets+1 and n/2" if thorough else "1 and n/2")
        + f" candles; final candles and every reading in `indicators` and `sub_indicators` compared with == against the batch "
        f"run. Skipped as robustness (C09/C16) rather than schedule defects: {both_raise} scenarios where batch and incremental "
        f"raised the same exception type, {prefix_raise} where the incremental run raised on a prefix over which a batch run raises "
        "the same exception type."
    )
    return rep.result(bound)


def _flat(d):
    for v in d.values():
        if isinstance(v, dict):
            yield from v.values()
        else:
            yield v
