"""C10 stand-in: structural invariants of the stored readings, checked on every candle.

For every shipped indicator (several parameter sets and round_value settings), on every stream kind
and on gappy streams collapsed with timeframe T5 (with and without fill), the readings stored on
the indicator's own candle list must satisfy the relations listed in C10's statement:
  * RSI, STOCH stoch/k/d, AROON up/down, ADX.ADX in [0,100]; TSI in [-100,100]
  * TR >= high-low >= 0, ATR >= 0, STDEV >= 0 (and +DI/-DI >= 0)
  * lower <= middle <= upper for BBANDS, KC, Donchian; Donchian encloses the candle's high and low
  * AROONOSC = up - down, DCM = (DCU+DCL)/2, MACD histogram = MACD - signal
  * Supertrend direction is +1/-1, exactly one of long/short is set and equals trend
  * averages (SMA, EMA, RMA, WMA, VWMA, ATR, HLA; VWAP reported under its own slug) lie within the
    range of the inputs they average (HMA excluded: it may overshoot)
  * OBV moves by 0 or the candle's volume; Counter is a non-negative integer, +1 or reset to 0
  * every float reading (indicator and its real sub-indicators) equals itself rounded to the owning
    indicator's round_value decimals.
Slack: relations between separately rounded fields 1.5*10^-round_value; bounds 1e-9 plus the rounding
the value went through (one rounding u = 0.5*10^-rv for directly computed values; incremental SMA
sub-indicators drift by one u4 = 0.5e-4 per step; contractions by u/alpha).
Exceptions raised by hexital are C09's subject: they are noted, and the readings stored before the
exception are still checked.
"""
from __future__ import annotations

import math
import random

from oracles import ref_indicators as R

PROP = "C10"
TOP = 1e-9


def _get(reading, field):
    if field is None:
        return None if isinstance(reading, dict) else reading
    return reading.get(field) if isinstance(reading, dict) else None


def _num(v):
    return v is not None and not isinstance(v, bool) and isinstance(v, (int, float))


class Ctx:
    def __init__(self, key, ind, kw, stream):
        self.key, self.ind, self.kw, self.stream = key, ind, kw, stream
        self.cs = ind.candles
        self.name = ind.name
        self.rv = kw.get("round_value", 4)
        self.u = R.unit(self.rv)
        self.readings = [c.indicators.get(self.name) for c in self.cs]

    def series(self, field=None):
        return [_get(r, field) for r in self.readings]

    def sub(self, name):
        return [c.sub_indicators.get(name) for c in self.cs]

    def first(self, field=None):
        return R.first_defined(self.series(field))


def _range(ctx, field, lo, hi, slack, group):
    first = ctx.first(field)
    for i, v in enumerate(ctx.series(field)):
        if not _num(v):
            continue
        s = slack(i - first) if callable(slack) else slack
        if v < lo - s - TOP or v > hi + s + TOP:
            yield group, i, f"{'field ' + field + ': ' if field else ''}{v!r} outside [{lo}, {hi}] (slack {s + TOP:.3g})"
            return


def _order(ctx, lo, mid, hi, group):
    t = 3 * ctx.u + TOP
    for i, r in enumerate(ctx.readings):
        a, b, c = _get(r, lo), _get(r, mid), _get(r, hi)
        if _num(a) and _num(b) and _num(c):
            rel = 1e-12 * max(abs(a), abs(c))
            if a > b + t + rel or b > c + t + rel:
                yield group, i, f"{lo}={a!r} <= {mid}={b!r} <= {hi}={c!r} violated"
                return


def _identity(ctx, target, fn, fields, group):
    t = 3 * ctx.u + TOP
    for i, r in enumerate(ctx.readings):
        vals = [_get(r, f) for f in fields]
        g = _get(r, target)
        if _num(g) and all(_num(v) for v in vals):
            w = fn(*vals)
            if abs(g - w) > t + 1e-12 * abs(w):
                yield group, i, f"{target}={g!r} but {fields} = {vals!r} give {w!r}"
                return


def _avg_in_range(ctx, inputs, window, slack, group="average-out-of-input-range"):
    """inputs: per-candle input values (None where missing). window: int or None (all so far)"""
    first = ctx.first()
    for i, v in enumerate(ctx.series()):
        if not _num(v):
            continue
        a = max(0, i - window + 1) if window else 0
        w = [x for x in inputs[a: i + 1] if _num(x)]
        if not w:
            continue
        s = slack(i - first) + TOP + 1e-9 * max(abs(min(w)), abs(max(w)))
        if v < min(w) - s or v > max(w) + s:
            yield group, i, f"reading {v!r} outside the range [{min(w)!r}, {max(w)!r}] of the inputs it averages"
            return


def _input_series(ctx):
    name = ctx.kw.get("input_value", "close")
    from hexital.utils.candles import reading_by_candle

    return [reading_by_candle(c, name) for c in ctx.cs]


# ---- per indicator checks ---------------------------------------------------------------------------

def _checks(ctx):
    k, kw, u, cs = ctx.key, ctx.kw, ctx.u, ctx.cs
    p = kw.get("period")
    if k == "RSI":
        yield from _range(ctx, None, 0, 100, u, "rsi-out-of-range")
    elif k == "STOCH":
        yield from _range(ctx, "stoch", 0, 100, u, "stoch-out-of-range")
        yield from _range(ctx, "k", 0, 100, lambda st: R.U4 * (1 + st) + u, "stoch-out-of-range")
        yield from _range(ctx, "d", 0, 100, lambda st: 2 * R.U4 * (1 + st + kw.get("slow_period", 3)) + u, "stoch-out-of-range")
    elif k == "aroon":
        yield from _range(ctx, "AROONU", 0, 100, u, "aroon-out-of-range")
        yield from _range(ctx, "AROOND", 0, 100, u, "aroon-out-of-range")
        yield from _identity(ctx, "AROONOSC", lambda a, b: a - b, ["AROONU", "AROOND"], "aroon-osc-identity")
    elif k == "ADX":
        ps = kw.get("period_signal") or p or 14
        # ADX is a Wilder average (default-rounded managed RMA) of DX values that are in [0,100] by
        # construction, so a value outside can only come from the smoothing itself (rma.py seed)
        yield from _range(ctx, "ADX", 0, 100, R.U4 * ps + u, "rma-seed-late-input")
        yield from _range(ctx, "DM_Plus", 0, math.inf, u, "adx-negative-di")
        yield from _range(ctx, "DM_Neg", 0, math.inf, u, "adx-negative-di")
    elif k == "TSI":
        pp = p or 25
        sp = kw.get("smooth_period") or (int(pp / 2) + (pp % 2 > 0))
        e2 = R.U4 * (pp + 1) / 2.0 + R.U4 * (sp + 1) / 2.0
        den = ctx.sub(f"{ctx.name}_abs_second")
        for i, v in enumerate(ctx.series()):
            if not _num(v) or not _num(den[i]) or abs(den[i]) <= 3 * e2:
                continue
            s = 100.0 * 2 * e2 / (abs(den[i]) - e2) + u + TOP
            if abs(v) > 100 + s:
                yield "tsi-out-of-range", i, f"{v!r} outside [-100, 100] (slack {s:.3g}, smoothed |momentum| {den[i]!r})"
                break
    elif k == "TR":
        for i, v in enumerate(ctx.series()):
            if _num(v):
                hl = cs[i].high - cs[i].low
                if hl < 0 or v < hl - u - TOP - 1e-12 * abs(cs[i].high):
                    yield "tr-below-high-low", i, f"TR {v!r} < high-low {hl!r}"
                    break
    elif k == "ATR":
        yield from _range(ctx, None, 0, math.inf, 0.0, "negative-volatility")
        yield from _avg_in_range(ctx, ctx.sub("TR"), None, lambda st: R.U4 + u * min(1 + st, p or 14))
    elif k == "STDEV":
        yield from _range(ctx, None, 0, math.inf, 0.0, "negative-volatility")
    elif k == "BBANDS":
        yield from _order(ctx, "BBL", "BBM", "BBU", "band-order")
    elif k == "KC":
        yield from _order(ctx, "lower", "band", "upper", "band-order")
    elif k == "donchian":
        yield from _order(ctx, "DCL", "DCM", "DCU", "band-order")
        yield from _identity(ctx, "DCM", lambda a, b: (a + b) / 2.0, ["DCU", "DCL"], "donchian-mid-identity")
        for i, r in enumerate(ctx.readings):
            up, dn = _get(r, "DCU"), _get(r, "DCL")
            s = u + TOP + 1e-12 * abs(cs[i].high)
            if _num(up) and up < cs[i].high - s:
                yield "donchian-not-enclosing", i, f"DCU {up!r} below the candle's high {cs[i].high!r}"
                break
            if _num(dn) and dn > cs[i].low + s:
                yield "donchian-not-enclosing", i, f"DCL {dn!r} above the candle's low {cs[i].low!r}"
                break
    elif k == "MACD":
        yield from _identity(ctx, "histogram", lambda a, b: a - b, ["MACD", "signal"], "macd-histogram-identity")
    elif k == "Supertrend":
        for i, r in enumerate(ctx.readings):
            if not isinstance(r, dict):
                continue
            d, tr, lg, sh = r.get("direction"), r.get("trend"), r.get("long"), r.get("short")
            if d is not None and d not in (1, -1):
                yield "supertrend-shape", i, f"direction {d!r} is not +1/-1"
                break
            if tr is not None:
                if (lg is None) == (sh is None):
                    yield "supertrend-shape", i, f"long={lg!r}, short={sh!r}: exactly one must be set"
                    break
                side = lg if lg is not None else sh
                if abs(side - tr) > 3 * u + TOP or (d == 1) != (lg is not None):
                    yield "supertrend-shape", i, f"trend={tr!r} direction={d!r} long={lg!r} short={sh!r} inconsistent"
                    break
            elif lg is not None or sh is not None:
                yield "supertrend-shape", i, f"long/short set without trend: {r!r}"
                break
    elif k in ("SMA", "EMA", "RMA", "WMA"):
        x = _input_series(ctx)
        late = (R.first_defined(x) or 0) > 0
        if k == "SMA":
            sl, win = (lambda st: u * (1 + st)), p
        elif k == "WMA":
            sl, win = (lambda st: u), p
        elif k == "EMA":
            a = kw.get("smoothing", 2.0) / (p + 1.0)
            sl, win = (lambda st: u * min(1 + st, 1 / a)), None
        else:
            sl, win = (lambda st: u * min(1 + st, p)), None
        group = "rma-seed-late-input" if (k == "RMA" and late) else "average-out-of-input-range"
        yield from _avg_in_range(ctx, x, win, sl, group)
    elif k == "VWMA":
        yield from _avg_in_range(ctx, [c.close for c in cs], p or 10, lambda st: u)
    elif k == "HLA":
        for i, v in enumerate(ctx.series()):
            if _num(v) and not (cs[i].low - u - TOP <= v <= cs[i].high + u + TOP):
                yield "average-out-of-input-range", i, f"HLA {v!r} outside [low, high] = [{cs[i].low!r}, {cs[i].high!r}]"
                break
    elif k == "VWAP":
        tp = [(c.high + c.low + c.close) / 3.0 for c in cs]
        # reported separately: with no volume so far the average is undefined and hexital stores 0.0
        # with no volume so far the volume-weighted average is undefined (hexital stores 0.0 by design):
        # "averages lie within the range of their inputs" is only demanded once there is volume
        # (DESIGN.md, corrected false alarms)
        vol = 0
        first = None
        for i_, c_ in enumerate(cs):
            vol += c_.volume
            if vol > 0:
                first = i_
                break
        if first is not None:
            masked = [None if i_ < first else t for i_, t in enumerate(tp)]  # zero-volume prefix carries no weight
            yield from _avg_in_range(ctx, masked, None, lambda st: u, "vwap-out-of-input-range")
    elif k == "OBV":
        prev = None
        for i, v in enumerate(ctx.series()):
            if _num(v) and prev is not None:
                d = abs(v - prev)
                if d > 2 * u + TOP and abs(d - cs[i].volume) > 2 * u + TOP:
                    yield "obv-step", i, f"OBV moved by {d!r}, candle volume is {cs[i].volume!r}"
                    break
            prev = v if _num(v) else None
    elif k == "Counter":
        prev = None
        for i, v in enumerate(ctx.series()):
            if v is None:
                prev = None
                continue
            if isinstance(v, bool) or not isinstance(v, (int, float)) or v != int(v) or v < 0:
                yield "counter-step", i, f"Counter reading {v!r} is not a non-negative integer"
                break
            if prev is not None and v not in (prev + 1, 0):
                yield "counter-step", i, f"Counter went {prev!r} -> {v!r} (neither +1 nor reset)"
                break
            if prev is None and i == 0 and v not in (0, 1):
                yield "counter-step", i, f"Counter starts at {v!r}"
                break
            prev = v


def _rounded(ctx):
    """every float reading equals itself rounded to its owning indicator's round_value"""
    from hexital.core.indicator import Managed

    owners = {}

    def walk(ind):
        for sub in list(ind.sub_indicators.values()) + list(ind.managed_indicators.values()):
            if not isinstance(sub, Managed):
                owners[sub.name] = sub.round_value
            walk(sub)

    walk(ctx.ind)
    for i, c in enumerate(ctx.cs):
        items = [(ctx.name, c.indicators.get(ctx.name), ctx.rv)]
        items += [(n, c.sub_indicators.get(n), rv) for n, rv in owners.items()]
        for n, r, rv in items:
            vals = r.items() if isinstance(r, dict) else [(None, r)]
            for f, v in vals:
                if isinstance(v, float) and math.isfinite(v) and round(v, rv) != v:
                    yield "not-rounded", i, f"{n}{'.' + f if f else ''} = {v!r} is not rounded to {rv} decimals"
                    return


def _configs(key, thorough):
    ps = [2, 3, 5, 14] + ([7, 9, 21] if thorough else [])
    if key == "Amorph":
        return []
    if key == "Counter":
        return [{"input_value": "positive", "count_value": True}, {"input_value": "volume", "count_value": 0}]
    if key == "MACD":
        return [{"fast_period": f, "slow_period": s, "signal_period": g} for f, s, g in [(12, 26, 9), (2, 3, 2), (3, 7, 4)]]
    if key == "STOCH":
        return [{"period": p, "slow_period": sl, "smoothing_k": sk} for p, sl, sk in [(14, 3, 3), (2, 2, 2), (5, 3, 2)]]
    if key in ("TR", "HLA", "OBV"):
        return [{}]
    if key in ("KC", "Supertrend", "STDEVTHRES"):
        return [{"period": p, "multiplier": m} for p in ps[:3] for m in (2.0, 3.0)] + [{}]
    if key == "ADX":
        return [{"period": p, "period_signal": q} for p, q in [(2, 2), (3, 2), (5, 5), (14, 14), (7, 3)]]
    if key == "TSI":
        return [{"period": p, "smooth_period": q} for p, q in [(2, 2), (3, 2), (5, 3), (25, 13)]]
    if key == "EMA":
        return [{"period": p} for p in ps] + [{"period": 5, "smoothing": 1.0}]
    return [{"period": p} for p in ps]


def _evaluate(col, key, cls, kw, stream, tf_kw, chain=None):
    full = dict(kw)
    full.update(tf_kw)
    detail = f"{R.kw_str(full)};{stream.key()}" + (f";after-{chain}" if chain else "")
    if not col.want(key, detail):
        return
    inp = {"indicator": key, "class": f"{cls.__module__}.{cls.__qualname__}", "kwargs": full, "stream": stream.desc(), "mode": "batch"}
    candles = stream.candles()
    ind = None
    try:
        if chain:  # a late-starting indicator computed first on the same candles (no timeframe)
            import hexital.indicators as I

            inner = {"SMA_5": lambda: I.SMA(candles=candles, period=5), "ATR_3": lambda: I.ATR(candles=candles, period=3)}[chain]()
            inner.calculate()
            inp["after"] = chain
        ind = cls(candles=candles, **full)
        ind.calculate()
    except Exception as e:
        fn, line, idx = R.hexital_frame(e)
        col.note(f"not judged past the exception (C09): {key} raised {type(e).__name__}")
        if ind is None:
            col.evaluated(key, detail, False)
            return
    ctx = Ctx(key, ind, full, stream)
    col.evaluated(key, detail, any(r is not None for r in ctx.readings))
    fn_default = f"{cls.__module__}.{cls.__qualname__}._calculate_reading"
    seen = set()
    for gen in (_checks(ctx), _rounded(ctx)):
        try:
            for group, i, msg in gen:
                if group in seen:
                    continue
                seen.add(group)
                c = ctx.cs[i]
                one = dict(inp)
                one["first_failing_index"] = i
                one["candles_near"] = [[round(x, 6) for x in (q.open, q.high, q.low, q.close)] + [q.volume] for q in ctx.cs[max(0, i - 2): i + 1]]
                fn = "hexital.utils.indexing.round_values" if group == "not-rounded" else fn_default
                col.fail(group, key, detail, fn, f"index {i}: {msg}", one)
        except Exception as e:  # a checker tripping over an unexpected reading shape is itself a finding
            col.fail("unexpected-reading-shape", key, detail, fn_default, f"checker raised {R.short_exc(e)}", dict(inp))


def run(tier, seed, focus=None):
    from hexital.indicators import INDICATOR_MAP

    col = R.Collector(PROP, seed, focus)
    rnd = random.Random(seed)
    thorough = tier == "thorough"
    base = seed * 1000
    lengths = [50, 160] if thorough else [70]
    nseeds = 2 if thorough else 1
    rvs = [4, 2, 8, 0] if thorough else [4, 2, 8]
    plain, framed = [], []
    for n in lengths:
        for k in range(nseeds):
            for kind in R.STREAM_KINDS:
                plain.append(R.Stream(kind, n, base + k))
            for kind in (["random", "flat", "rising", "zerovol", "spiky"] if thorough else ["random", "flat", "rising"]):
                framed.append(R.Stream(kind, 4 * n, base + k, gappy=True))
            framed.append(R.Stream("gen:gappy", 4 * n, base + k))
            framed.append(R.Stream("gen:dup", 4 * n, base + k))
            plain.append(R.Stream("gen:random", n, base + k))
    for key, cls in INDICATOR_MAP.items():
        for kw0 in _configs(key, thorough):
            for j, rv in enumerate(rvs):
                kw = dict(kw0, round_value=rv)
                for st in plain:
                    if j > 0 and st.kind not in ("random", "rising", "small", "big", "spiky", "eqvol", "plateau"):
                        continue
                    _evaluate(col, key, cls, kw, st, {})
                if j == 0:
                    for st in framed:
                        _evaluate(col, key, cls, kw, st, {"timeframe": "T5", "timeframe_fill": True})
                        _evaluate(col, key, cls, kw, st, {"timeframe": "T5"})
        if key in ("SMA", "EMA", "RMA", "WMA"):
            # averages over an input that is another indicator starting late
            for chain in ("SMA_5", "ATR_3"):
                for p in (2, 3, 7):
                    for st in plain[:: max(1, len(plain) // 6)]:
                        _evaluate(col, key, cls, {"period": p, "input_value": chain, "round_value": 4,
                                                  **({"name_suffix": "outer"} if (key, p) == ("SMA", 5) else {})}, st, {}, chain=chain)
    # seed dependent extra draws
    keys = [k for k in INDICATOR_MAP if k not in ("Amorph", "Counter", "MACD", "STOCH", "TR", "HLA", "OBV", "ADX", "TSI")]
    for _ in range(150 if thorough else 40):
        key = rnd.choice(keys)
        kw = {"period": rnd.randint(2, 30), "round_value": rnd.choice([1, 3, 5, 6])}
        st = R.Stream(rnd.choice(R.STREAM_KINDS), rnd.randint(40, 200), base + rnd.randint(0, 999))
        _evaluate(col, key, INDICATOR_MAP[key], kw, st, {})
    bound = (f"tier={tier}: every class of INDICATOR_MAP except Amorph; parameter sets: periods {[2, 3, 5, 14] + ([7, 9, 21] if thorough else [])} "
             f"(+random up to 30), multipliers 2/3, MACD/STOCH/ADX/TSI triples, round_value {rvs} (+1,3,5,6); {len(R.STREAM_KINDS)} stream kinds, "
             f"lengths {lengths} (+random 40..200), {nseeds} seed(s); gappy/duplicate-timestamp streams with timeframe=T5 with and without fill; "
             f"SMA/EMA/RMA/WMA additionally over late-starting SMA_5/ATR_3; batch calculate()")
    return col.result(bound)
