"""C02 bounded oracle: closed candles are final (no look-ahead, no repainting).

Part A (live): a deep snapshot (timestamp, OHLCV, indicators, sub_indicators per candle) is taken after every append; every
  candle of snapshot(t) - except the last one when the timeframe collapses (the still-forming bucket) - must be identical in
  snapshot(t+1) (hence, by induction, in all later snapshots) and in the final snapshot.
Part B (batch): for several prefixes p of the stream, the closed candles of a batch run over stream[:p] must equal the same
  candles of the batch run over the whole (longer) stream.
Observed through Indicator.candles and, for a rotating subset, Hexital.get_candles().
Crashes are robustness (C09/C16): a live run that raises on a prefix over which the batch run raises too is skipped.
"""
from __future__ import annotations

import random

from oracles import c01, gen
from oracles import ref_store as R

PROP = "C02"


def classify(spec, idx, key, head, part):
    if key in R._FIELDS or key == "length":
        return f"{spec.slug}-closed-candle-changed", c01.FN_COLLAPSE
    if spec.key.startswith("Amorph/") and spec.kwargs.get("lookback") is not None:
        return f"{spec.slug}-lookback-uses-list-length", spec.qualname()
    if idx < head:
        if spec.key == "ADX":
            return "adx-wraparound-index0", spec.qualname()
        if spec.key.startswith("Amorph/") and spec.key.split("/")[1] in c01.WRAP_FUNCS:
            return f"{spec.slug}-wraparound-below-index0", spec.qualname()
    return f"{spec.slug}-{'repaint' if part == 'live' else 'lookahead'}-{'head' if idx < head else 'tail'}", spec.qualname()


class Live:
    def __init__(self, spec, cfg, via, candles):
        self.via = via
        if via == "hexital":
            from hexital import Hexital

            ind = spec.build([])  # timeframe/fill are given to Hexital: the member indicator uses the default manager
            self.obj = Hexital("oracle", candles, [ind], **cfg)
            self.obj.calculate()
            self.view = lambda: self.obj.get_candles()["default"]
        else:
            self.obj = spec.build(candles, **cfg)
            self.obj.calculate()
            self.view = lambda: self.obj.candles

    def append(self, candles):
        self.obj.append(candles)


def live_run(rep, spec, cfg, collapsing, stream, pre_n, parts, via, did, inp, head):
    """returns 'ok' | 'fail' | 'raise-skipped'"""
    fed = pre_n
    prev = None
    try:
        live = Live(spec, cfg, via, gen.clone(stream[:pre_n]))
        prev = R.snapshot(live.view())
        for k in parts:
            fed += k
            live.append(gen.clone(stream[fed - k : fed]))
            cur = R.snapshot(live.view())
            closed = prev[:-1] if collapsing else prev
            d = R.first_snap_diff(closed, cur[: len(closed)])
            if d is None and len(cur) < len(closed):
                d = (len(cur), "length", len(closed), len(cur))
            if d:
                group, fn = classify(spec, d[0], d[1], head, "live")
                inp["after_feeding"] = fed
                inp["first_diff"] = {"candle": d[0], "key": d[1]}
                rep.fail(
                    group,
                    did,
                    fn,
                    f"closed candle {d[0]} {d[1]} changed when candles {fed - k}..{fed - 1} were appended: before={R.short(d[2])} after={R.short(d[3])}",
                    inp,
                    spec.slug,
                )
                return "fail"
            prev = cur
        return "ok"
    except Exception as e:  # noqa
        _, pexc = c01.batch_run(spec, cfg, stream[:fed])
        if pexc is not None and type(pexc) is type(e):
            return "raise-skipped"
        inp["raised_after_feeding"] = fed
        rep.fail(f"{spec.slug}-raises-live-only", did, spec.qualname(), f"live run raised {type(e).__name__}: {str(e)[:120]} after {fed} candles; batch over that prefix does not", inp, spec.slug)
        return "fail"


def run(tier, seed, focus=None):
    R.force_utc()
    rep = R.Report(PROP, seed, focus)
    rnd = random.Random(seed)
    thorough = tier == "thorough"
    specs, notes = R.indicator_specs(thorough)
    rep.notes.extend(notes)
    only = rep.focus_group()
    kinds = ["random", "gappy", "dup", "sawtooth", "patterns"] if thorough else ["random", "gappy", "patterns", "dup"]
    n_out = 40 if thorough else 36
    skipped = 0
    for si, spec in enumerate(specs):
        if only and not only.startswith(spec.slug + "-"):
            continue
        head = c01.head_len(spec)
        for ci, (tf, fill) in enumerate(c01.CONFIGS):
            cfg = c01.cfg_kwargs(tf, fill)
            for ki, kind in enumerate(kinds):
                if kind == "patterns" and (tf is not None) and (not thorough or not spec.key.startswith("Amorph/")):
                    continue
                if not thorough and kind == "dup" and (tf is not None or spec.key.split("/")[0] not in ("EMA", "OBV", "MACD", "ATR", "VWAP")):
                    continue  # quick tier: repeated timestamps on the base timeframe, a few indicator classes
                if not thorough and (tf is not None) and (kind == "gappy") != fill:
                    continue
                sseed = R.sub_seed(seed, spec.label, tf, fill, kind)
                stream, per_bucket = c01.stream_for(kind, tf, n_out, sseed)
                n = len(stream)
                srnd = random.Random(sseed)
                base_inp = dict(spec.repro())
                base_inp.update({"timeframe": tf, "timeframe_fill": fill, "stream": {"generator": "oracles.c01.stream_for", "kind": kind, "n_out": n_out, "n": n, "seed": sseed}})
                full, fexc = c01.batch_run(spec, cfg, stream)
                if full is not None and len(full) > head:
                    rep.distinct += 1
                # ---------------- part A: live snapshots
                scheds = [("live/empty/ones", 0, [1] * n), ("live/empty/rnd", 0, R.random_chunks(n, srnd, 6))]
                half = n // 2
                scheds.append(("live/pre-half/rnd", half, R.random_chunks(n - half, srnd, 6)))
                if thorough:
                    scheds.append(("live/pre1/ones", 1, [1] * (n - 1)))
                else:
                    scheds = [scheds[(si + ci + ki) % 2], scheds[2]]
                for j, (label, pre_n, parts) in enumerate(scheds):
                    via = "hexital" if (si + ci + ki + j) % 4 == 0 else "indicator"
                    did = f"{spec.label}/tf={tf}/fill={int(fill)}/{kind}/{label}/{via}"
                    if not rep.wants([did]):
                        continue
                    rep.checked += 1
                    inp = dict(base_inp)
                    inp.update({"via": via, "preloaded": pre_n, "chunks": parts[:40]})
                    st = live_run(rep, spec, cfg, tf is not None, stream, pre_n, parts, via, did, inp, head)
                    if st == "raise-skipped":
                        skipped += 1
                    elif st == "ok":
                        rep.sample(did, 5)
                # ---------------- part B: batch over prefix vs batch over the longer list
                if full is None:
                    skipped += 1
                    continue
                prefixes = sorted({1 * per_bucket, 2 * per_bucket + 1, head * per_bucket, n // 2, n - 2 * per_bucket, n - 1})
                if not thorough:
                    prefixes = [prefixes[0], prefixes[len(prefixes) // 2], prefixes[-1]]
                for p in prefixes:
                    if p < 1 or p >= n:
                        continue
                    did = f"{spec.label}/tf={tf}/fill={int(fill)}/{kind}/batch-prefix/p{prefixes.index(p)}"
                    if not rep.wants([did]):
                        continue
                    rep.checked += 1
                    part, pexc = c01.batch_run(spec, cfg, stream[:p])
                    if part is None:
                        skipped += 1
                        continue
                    closed = part[:-1] if tf is not None else part
                    d = R.first_snap_diff(closed, full[: len(closed)])
                    if d is None and len(full) < len(closed):
                        d = (len(full), "length", len(closed), len(full))
                    if d:
                        group, fn = classify(spec, d[0], d[1], head, "batch")
                        inp = dict(base_inp)
                        inp.update({"prefix_length": p, "first_diff": {"candle": d[0], "key": d[1]}})
                        rep.fail(
                            group,
                            did,
                            fn,
                            f"closed candle {d[0]} {d[1]}: batch over first {p} candles={R.short(d[2])} batch over all {n} candles={R.short(d[3])}",
                            inp,
                            spec.slug,
                        )
    bound = (
        f"TZ=UTC; {len(specs)} indicator configurations (every INDICATOR_MAP class + Amorph wrappers of every movement/pattern function) "
        f"x (timeframe, fill) in {c01.CONFIGS} x stream kinds {kinds} (~{n_out} candles on the indicator's timeframe). Part A: deep "
        "snapshot after EVERY append of one-by-one / random-chunk schedules from an empty"
        + (", 1-candle" if thorough else "")
        + " or half pre-loaded indicator (1 in 4 through Hexital.get_candles()); closed candles (all but the forming bucket of a "
        "collapsing timeframe; all on the base timeframe) must be unchanged in the next snapshot. Part B: batch over "
        + ("6" if thorough else "3")
        + f" prefixes vs batch over the whole stream, closed candles compared with ==. {skipped} runs skipped because they raise "
        "the same exception in batch (robustness, not finality)."
    )
    return rep.result(bound)
