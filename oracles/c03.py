"""C03 bounded oracle: timeframe collapsing == right-closed, right-labelled OHLCV resampling (ref_store.resample).

Real code exercised: hexital.core.candle_manager.CandleManager (construction, append in chunks, repeated collapse).
Timestamp-less candles are outside C03 and are not generated.
"""
from __future__ import annotations

import random

from hexital.core.candle_manager import CandleManager

from oracles import ref_store as R

PROP = "C03"
TF_QUICK = ["S1", "S5", "S45", "T1", "T5", "T7", "H1", "H6", "D1"]
TF_THOROUGH = ["S1", "S5", "S10", "S30", "S45", "S90", "T1", "T3", "T5", "T7", "T15", "T45", "T90", "H1", "H2", "H4", "H6", "H12", "D1", "D2", "D7"]
MODES = ["mixed", "dense", "gaps", "dups"]
FN_COLLAPSE = "hexital.core.candle_manager.CandleManager.collapse_candles"


def schedules(n, rnd, count):
    """(label, first-chunk-at-construction?, parts, recollapse?)"""
    out = [("ctor-all", True, [n], False), ("ctor-all+recollapse", True, [n], True), ("append-ones", False, [1] * n, False)]
    for i in range(count):
        out.append((f"append-rnd{i}", False, R.random_chunks(n, rnd), i % 2 == 1))
        out.append((f"ctor-prefix-rnd{i}", True, R.random_chunks(n, rnd, 11), i % 2 == 0))
    return out


VIAS = ("manager", "indicator", "hexital", "hexital-derived")


class Driver:
    """one real hexital object holding collapsed candles, observed through the route named by `via`"""

    def __init__(self, via, candles, tf, fill):
        self.via = via
        if via == "manager":
            self.obj = CandleManager(candles, timeframe=tf, timeframe_fill=fill)
            self.manager = self.obj
        elif via == "indicator":
            from hexital.indicators import EMA

            self.obj = EMA(candles=candles, period=3, timeframe=tf, timeframe_fill=fill)
            self.manager = self.obj.candle_manager
        elif via == "hexital":
            from hexital import EMA, Hexital

            self.obj = Hexital("oracle", candles, [EMA(period=3)], timeframe=tf, timeframe_fill=fill)
            self.manager = self.obj._candles["default"]
        elif via == "hexital-derived":
            from hexital import EMA, Hexital

            self.obj = Hexital("oracle", candles, [EMA(period=3, timeframe=tf)], timeframe_fill=fill)
            self.manager = self.obj._candles[tf.upper()]
        else:
            raise ValueError(via)

    def append(self, candles):
        self.obj.append(candles)

    def recollapse(self):
        self.manager.collapse_candles()

    def candles(self):
        return self.manager.candles


def run_schedule(stream_rows, tf, fill, sched, rnd, via="manager", after_append=None):
    """drive real hexital code; returns final rows. after_append(driver, n_fed) is called after every feeding step"""
    _, ctor_first, parts, recollapse = sched
    chunks = R.split(stream_rows, parts)
    if ctor_first:
        m = Driver(via, R.to_candles(chunks[0]), tf, fill)
        rest = chunks[1:]
        fed = len(chunks[0])
    else:
        m = Driver(via, [], tf, fill)
        rest = chunks
        fed = 0
    if recollapse:
        m.recollapse()
        m.append([])
    if after_append and fed:
        after_append(m, fed)
    for ch in rest:
        m.append(R.to_candles(ch))
        fed += len(ch)
        if recollapse and rnd.random() < 0.5:
            for _ in range(rnd.randint(1, 3)):
                m.recollapse()
            m.append([])
        if after_append:
            after_append(m, fed)
    if recollapse:
        m.recollapse()
        m.recollapse()
    return R.rows(m.candles())


def classify(diff, exc, fill=False):
    pre = "fill" if fill else "collapse"
    if exc is not None:
        return f"{pre}-raises-" + type(exc).__name__.lower()
    key = diff[1]
    if key == "length":
        return f"{pre}-candle-count"
    if key == "timestamp":
        return f"{pre}-label"
    return f"{pre}-" + key


def explore(rep, rnd, thorough, tfs, fill, reference, fn, extra_check=None):
    """shared by C03 (fill=False) and C12 (fill=True)"""
    n_streams = (16 if fill else 24) if thorough else 8
    n_sched = 3 if thorough else 1
    lengths = ((1, 2, 3, 9, 17, 30, 50, 75) if fill else (1, 2, 3, 9, 17, 40, 75, 120)) if thorough else (2, 3, 9, 40)
    for tf in tfs:
        tf_s = R.tf_seconds(tf)
        for mode in MODES:
            for on_b in (True, False):
                for si in range(n_streams):
                    n = lengths[si % len(lengths)]
                    srnd = random.Random(rnd.randrange(1 << 30))
                    sseed = srnd.randrange(1 << 30)
                    stream = R.ts_stream(random.Random(sseed), n, tf_s, on_b, mode)
                    plain = R.resample(stream, tf_s)
                    want = reference(stream, tf_s)
                    merges = len(plain) < len(stream)
                    gaps = any((b[0] - a[0]).total_seconds() > tf_s for a, b in zip(plain, plain[1:]))
                    if (gaps if fill else merges and (gaps or mode in ("dense", "dups"))):
                        rep.distinct += 1
                    scheds = schedules(n, srnd, n_sched)
                    for k, sched in enumerate(scheds):
                        # every schedule through the bare manager; the other observation routes on a rotating subset
                        vias = ["manager"]
                        if k in (0, 3) or thorough:
                            vias.append(VIAS[1 + (si + k) % 3])
                        for via in vias:
                            did = f"{tf}/{mode}/{'on' if on_b else 'off'}-boundary/n{n}/{sched[0]}/{via}/s{si}"
                            if not rep.wants([did]):
                                continue
                            rep.checked += 1
                            rep.sample(did)
                            inp = {
                                "timeframe": tf,
                                "timeframe_fill": fill,
                                "via": via,
                                "stream": {"generator": "oracles.ref_store.ts_stream", "seed": sseed, "n": n, "tf_seconds": tf_s, "on_boundary": on_b, "mode": mode},
                                "schedule": sched[0],
                                "chunks": sched[2][:30],
                                "recollapse": sched[3],
                            }
                            try:
                                got = run_schedule(stream, tf, fill, sched, random.Random(sseed ^ 5), via)
                            except Exception as e:  # noqa
                                rep.fail(classify(None, e, fill), did, fn, f"{type(e).__name__}: {e}"[:300], inp, tf[0])
                                continue
                            d = R.first_row_diff(got, want)
                            if d:
                                inp["first_diff"] = {"bucket": d[0], "key": d[1]}
                                rep.fail(
                                    classify(d, None, fill),
                                    did,
                                    fn,
                                    f"candle {d[0]} {d[1]}: hexital={R.short(d[2])} reference={R.short(d[3])} ({len(got)} vs {len(want)} candles)",
                                    inp,
                                    tf[0],
                                )
                                continue
                            if extra_check:
                                extra_check(rep, did, inp, stream, got, tf, tf_s)
    return n_streams, n_sched, lengths


def _derived(rep, did, inp, stream, got, tf, tf_s):
    # derived obligations of the statement (cheap, independent of the reference)
    if sum(r[5] for r in got) != sum(r[5] for r in stream):
        rep.fail("collapse-volume-not-conserved", did, FN_COLLAPSE, "sum(volume) differs from the raw stream", inp, tf[0])
    if any(b[0] <= a[0] for a, b in zip(got, got[1:])):
        rep.fail("collapse-timestamps-not-increasing", did, FN_COLLAPSE, "timestamps not strictly increasing", inp, tf[0])


def run(tier, seed, focus=None):
    R.force_utc()
    rep = R.Report(PROP, seed, focus)
    rnd = random.Random(seed)
    thorough = tier == "thorough"
    tfs = TF_THOROUGH if thorough else TF_QUICK
    n_streams, n_sched, lengths = explore(rep, rnd, thorough, tfs, False, R.resample, FN_COLLAPSE, _derived)
    # the timeframe NAME -> length mapping, enumerated: every unit, every multiplier up to 1500 (three and four digit ones included)
    from datetime import timedelta as _td

    from hexital.utils.timeframe import timeframe_to_timedelta, validate_timeframe

    unit_kw = {"S": "seconds", "T": "minutes", "H": "hours", "D": "days"}
    for unit, kwname in unit_kw.items():
        for k in range(1, 1501 if thorough else 400):
            rep.checked += 1
            name = f"{unit}{k}"
            try:
                got = timeframe_to_timedelta(name)
                # what an Indicator / Hexital makes of the name: validate first (any re-spelling must keep the length)
                via = timeframe_to_timedelta(validate_timeframe(name))
                if via != got:
                    got = f"{via} after validate_timeframe ({validate_timeframe(name)!r})"
            except Exception as e:  # noqa
                got = f"raised {type(e).__name__}: {e}"
            want = _td(**{kwname: k})
            if got != want:
                rep.fail("timeframe-length", f"parse/{unit}/{name}", "hexital.utils.timeframe.timeframe_to_timedelta",
                         f"timeframe_to_timedelta({name!r}) = {got}, the timeframe {name} is {want}", {"timeframe": name}, unit, dedupe=unit)
    bound = (
        f"TZ=UTC; {len(tfs)} timeframes {tfs} x 4 timestamp modes (mixed/dense/gaps/dups; second resolution, duplicates, "
        f"multi-bucket gaps) x first candle on/off a boundary x {n_streams} random streams (lengths {lengths}) x "
        f"{3 + 2 * n_sched} schedules (construction, one-by-one, random chunks, construction-prefix + chunks, each optionally with "
        "repeated collapse_candles()/append([]) passes) through CandleManager and, on a rotating subset, Indicator(timeframe=), "
        "Hexital(timeframe=) and a Hexital member indicator with its own timeframe; candles (timestamp, OHLCV) compared exactly "
        "with ref_store.resample, plus volume conservation and strictly increasing labels. Timestamp-less candles excluded. "
        "Timeframe names: every unit S/T/H/D with every multiplier 1..399 (thorough: 1..1500) against timedelta."
    )
    return rep.result(bound)
