"""C08 bounded stand-in: indicators inside a Hexital behave exactly like the same indicators standalone.

  A  Hexitals with 1-4 members (INDICATOR_MAP classes with small parameters, mutually unrelated names) on mixed
     timeframes, each given as Indicator object, as config dict ({"indicator": key, ...}) or as the dict returned by
     `indicator.settings`; Hexital-level timeframe / timeframe_fill / candles_lifespan / candlestick_type; candles given
     at construction and/or appended in chunks.  Every member must end with the candles (timestamp, OHLCV) and
     readings of a standalone indicator with the same effective configuration fed the same stream in the same
     chunks; without Hexital-level timeframe/candlestick type the base candles must keep the stream's OHLCV.
  B  Hexital(...)._build_indicator(ind.settings) round-trips (no error, same class, name, settings, readings) for
     every class in INDICATOR_MAP, before and after use, with timeframe / name overrides.
"""
import inspect
import json
import random
import signal
from copy import deepcopy
from datetime import timedelta

from hexital import Hexital
from hexital.analysis import MOVEMENT_MAP, PATTERN_MAP, movement
from hexital.indicators import INDICATOR_MAP

from oracles import gen

PROP = "C08"
WATCHDOG_S = 0.6
HANGS = {"seen": 0, "skipped": 0}


class Col:
    def __init__(self, prop, seed, focus):
        self.prop, self.seed, self.focus = prop, seed, focus
        self.checked = 0
        self.scen = set()
        self.cases = []
        self.f = {}
        self.cnt = {}
        self.shorts = {}
        self.tags = {}

    def tick(self, n=1):
        self.checked += n

    def scenario(self, key):
        self.scen.add(key)

    def note(self, text):
        if len(self.cases) < 12 and text not in self.cases:
            self.cases.append(text)

    def fail(self, group, short, function, detail, inp, tag=None):
        case = f"{self.prop}:{group}:{short}"
        if self.focus and not case.startswith(self.focus):
            return
        key = (group, function)
        if tag:
            self.tags.setdefault(key, set()).add(tag)
        self.cnt[key] = self.cnt.get(key, 0) + 1
        self.shorts.setdefault(key, {}).setdefault(short, 0)
        self.shorts[key][short] += 1
        size = len(json.dumps(inp, default=str))
        cur = self.f.get(case)
        if cur is None:
            if sum(1 for e in self.f.values() if e["_key"] == key) >= 3:
                return
        elif size >= cur["_size"]:
            return
        self.f[case] = {"case": case, "function": function, "seed": self.seed, "detail": str(detail)[:400],
                        "input": inp, "_key": key, "_size": size}

    def result(self, bound):
        fails = []
        for e in sorted(self.f.values(), key=lambda e: e["case"]):
            n = self.cnt[e["_key"]]
            e0 = e
            e = {k: v for k, v in e.items() if not k.startswith("_")}
            e["detail"] += f" [{n} failing evaluations in this (group, function)"
            if self.tags.get(e0["_key"]):
                e["detail"] += "; affected: " + ", ".join(sorted(self.tags[e0["_key"]]))
            kept = {x["case"].split(":", 2)[2] for x in self.f.values() if x["_key"] == e0["_key"]}
            rest = [f"{s}({c})" for s, c in sorted(self.shorts[e0["_key"]].items()) if s not in kept]
            e["detail"] += (f"; cases not listed separately: {', '.join(rest[:14])}" + ("..." if len(rest) > 14 else "") if rest else "") + "]"
            fails.append(e)
        return {"status": "ok", "checked": self.checked, "distinct": len(self.scen), "bound": bound,
                "failures": fails, "cases": self.cases}


def stream(kind, n, seed=0, **kw):
    """gen.stream (deterministic per seed); kept as a named entry point because reproducers refer to it"""
    return gen.stream(kind, n, seed=seed, **kw)


SMALL = {"period": 5, "fast_period": 3, "slow_period": 6, "signal_period": 3}
BASE_PARAMS = ("candles", "fullname_override", "name_suffix", "round_value", "timeframe", "timeframe_fill",
               "candles_lifespan", "candlestick_type", "kwargs")


def small_config(cls):
    kw = {}
    for p in inspect.signature(cls).parameters.values():
        if p.name in BASE_PARAMS:
            continue
        if p.name == "analysis":
            kw["analysis"] = movement.rising
            kw["args"] = {"indicator": "close", "length": 3}
        elif p.name == "input_value" and p.default is inspect.Parameter.empty:
            kw["input_value"] = "positive" if cls.__name__ == "Counter" else "close"
        elif p.default is inspect.Parameter.empty:
            return None
        elif "period" in p.name and isinstance(p.default, int):
            kw[p.name] = min(p.default, SMALL.get(p.name, 4))
    return kw


def build(key, **extra):
    return INDICATOR_MAP[key](**deepcopy(small_config(INDICATOR_MAP[key])), **extra)


def config_dict(key, tf):
    """the documented dict form"""
    kw = deepcopy(small_config(INDICATOR_MAP[key]))
    if "analysis" in kw:
        names = {fn: nm for nm, fn in {**PATTERN_MAP, **MOVEMENT_MAP}.items()}
        d = {"analysis": names[kw.pop("analysis")], **kw}
    else:
        d = {"indicator": key, **kw}
    if tf:
        d["timeframe"] = tf
    return d


class Hang(BaseException):
    """raised by the watchdog; a BaseException so that the `except Exception` wrappers do not swallow it"""


class watchdog:
    """the library can loop forever (CandleManager.fill_missing_candles inserts candles without bound when timestamps
    are not ascending multiples of the timeframe); bound every scenario"""

    def __init__(self, seconds):
        self.seconds = seconds
        self.armed = False

    def _fire(self, signum, frame):
        raise Hang()

    def __enter__(self):
        try:
            self.old = signal.signal(signal.SIGALRM, self._fire)
            signal.setitimer(signal.ITIMER_REAL, self.seconds)
            self.armed = True
        except ValueError:  # not in the main thread: run unguarded
            self.armed = False
        return self

    def __exit__(self, *exc):
        if self.armed:
            signal.setitimer(signal.ITIMER_REAL, 0)
            signal.signal(signal.SIGALRM, self.old)
        return False


def call(fn, *a, **k):
    try:
        return fn(*a, **k), None
    except Exception as e:  # noqa: BLE001
        return None, e


def ohlcv(candles):
    return [(c.timestamp, c.open, c.high, c.low, c.close, c.volume) for c in candles]


def first_diff(a, b):
    if len(a) != len(b):
        return f"{len(a)} vs {len(b)} entries"
    for i, (x, y) in enumerate(zip(a, b)):
        if x != y:
            return f"entry {i}: {x!r} vs {y!r}"
    return "equal"


def norm(d):
    """settings dicts may hold a CandlestickType instance (Amorph): compare those by class"""
    return {k: (type(v).__name__ if hasattr(v, "minimal_name") else v) for k, v in d.items()}


def show(v):
    return getattr(v, "__name__", None) or (str(v) if isinstance(v, timedelta) else v)


# ------------------------------------------------------------------------------------------------ A
class Pool:
    def __init__(self, keys, candles):
        self.info = {}
        for key in keys:
            def go(key=key):
                ind = build(key, candles=gen.clone(candles))
                ind.calculate()
                ks = set()
                for c in ind.candles:
                    ks |= set(c.indicators) | set(c.sub_indicators)
                return {"name": ind.name, "keys": ks}
            res, exc = call(go)
            if exc is None:
                self.info[key] = res

    def compatible(self, a, b):
        return a != b and not (self.info[a]["keys"] & self.info[b]["keys"])


def feed_plan(rnd, n):
    first = rnd.choice([0, 0, n, n // 2, 1])
    chunks = []
    left = n - first
    mode = rnd.choice(["ones", "random", "all"])
    while left > 0:
        k = 1 if mode == "ones" else left if mode == "all" else rnd.randint(1, 9)
        k = min(k, left)
        chunks.append(k)
        left -= k
    return first, chunks


def scenario(rnd, pool):
    keys = sorted(pool.info)
    hexcfg = {}
    r = rnd.random()
    if r < 0.25:
        hexcfg["timeframe"] = "T5"
    if rnd.random() < 0.3:
        hexcfg["timeframe_fill"] = True
    if rnd.random() < 0.3:
        hexcfg["candles_lifespan"] = timedelta(minutes=rnd.choice([20, 45, 90]))
    if rnd.random() < 0.25:
        hexcfg["candlestick_type"] = "HA"
    members = []
    for _ in range(rnd.randint(1, 4)):
        key = rnd.choice(keys)
        tf = rnd.choice([None, None, "T5", "T10", "T15"])
        eff = tf or hexcfg.get("timeframe")
        if any(m["key"] == key and (m["tf"] or hexcfg.get("timeframe")) == eff for m in members):
            continue
        if any((m["tf"] or hexcfg.get("timeframe")) == eff and not pool.compatible(key, m["key"]) for m in members):
            continue
        members.append({"key": key, "tf": tf, "form": rnd.choice(["object", "dict", "settings"])})
    return hexcfg, members


def member_input(m):
    if m["form"] == "object":
        ind = build(m["key"], **({"timeframe": m["tf"]} if m["tf"] else {}))
        import zlib
        if zlib.crc32(f"{m['key']}|{m['tf']}".encode()) % 3 == 0:
            # an Indicator object that was already used on its own (helper series exist and are bound to its old candle list)
            # before it is handed to the Hexital: it must move over completely
            _, exc = call(lambda: (ind.append(gen.clone(stream("random", 12, seed=5))), ind.calculate()))
            m["used_before"] = exc is None
        return ind
    if m["form"] == "dict":
        return config_dict(m["key"], m["tf"])
    return build(m["key"], **({"timeframe": m["tf"]} if m["tf"] else {})).settings


def classify(hexcfg, m):
    own_tf = m["tf"] is not None and m["tf"] != hexcfg.get("timeframe")
    if hexcfg.get("candles_lifespan") and m["tf"] is not None:
        # a member with a timeframe gets its own manager, seeded from the already trimmed base candles
        return "lifespan-derived-timeframe"
    if hexcfg.get("candlestick_type") and own_tf:
        return "ha-derived-timeframe"
    if hexcfg.get("candles_lifespan") and own_tf:
        return "lifespan-derived-timeframe"
    if hexcfg.get("timeframe") and own_tf:
        return "nested-timeframe"
    if hexcfg.get("timeframe_fill") and own_tf:
        return "fill-derived-timeframe"
    if own_tf:
        return "derived-timeframe"
    return "member-differs-from-standalone"


def check_scenario(col, rnd, pool, kind, n, sseed):
    candles = stream(kind, n, seed=sseed)
    hexcfg, members = scenario(rnd, pool)
    if not members:
        return
    first, chunks = feed_plan(rnd, n)
    hang_prone = bool(hexcfg.get("timeframe_fill") and hexcfg.get("candlestick_type")
                      and any(m["tf"] and m["tf"] != hexcfg.get("timeframe") for m in members))
    if hang_prone and HANGS["seen"] >= 4:
        HANGS["skipped"] += 1  # each such scenario costs a full watchdog period; four reproducers are enough
        return
    spec = {"hexital": {k: show(v) for k, v in hexcfg.items()},
            "members": [f"{m['key']}@{m['tf'] or '-'}/{m['form']}" for m in members],
            "stream": f"oracles.c08.stream({kind!r},{n},seed={sseed})", "at_construction": first, "chunks": chunks[:10]}
    col.scenario((tuple(sorted(spec["hexital"].items())), tuple(spec["members"]), first, len(chunks)))
    # standalone twins first: a member whose standalone run fails is someone else's subject
    twins = []
    usable = []
    for m in members:
        eff_tf = m["tf"] or hexcfg.get("timeframe")
        def run_twin(m=m, eff_tf=eff_tf):
            extra = {k: deepcopy(v) for k, v in hexcfg.items() if k != "timeframe"}
            if eff_tf:
                extra["timeframe"] = eff_tf
            ind = build(m["key"], candles=gen.clone(candles[:first]), **extra)
            pos = first
            for k in chunks:
                ind.append(gen.clone(candles[pos: pos + k]))
                pos += k
            ind.calculate()
            return ind
        try:
            with watchdog(WATCHDOG_S):
                twin, exc = call(run_twin)
        except Hang:
            continue  # the standalone indicator itself never returns: not a Hexital-vs-standalone matter
        if exc is None:
            twins.append(twin)
            usable.append(m)
    if not usable:
        return
    members = usable
    spec["members"] = [f"{m['key']}@{m['tf'] or '-'}/{m['form']}" for m in members]
    # the Hexital
    inputs, exc = call(lambda: [member_input(m) for m in members])
    if exc is not None:
        return  # .settings itself raising is covered by the round-trip section
    # some scenarios register the last member later, through add_indicator after the first chunk (it must join the
    # manager of its timeframe if one is already registered, and see every candle that manager holds)
    late = (len(members) >= 2 and not hexcfg.get("candles_lifespan") and len(chunks) >= 2
            and random.Random(sseed * 31 + n + len(members)).random() < 0.35)
    spec["added_later"] = spec["members"][-1] if late else None
    def run_hex():
        h = Hexital("c08", gen.clone(candles[:first]), inputs[:-1] if late else inputs, **deepcopy(hexcfg))
        pos = first
        for ci, k in enumerate(chunks):
            h.append(gen.clone(candles[pos: pos + k]))
            pos += k
            if late and ci == 0:
                h.add_indicator(inputs[-1])
        h.calculate()
        return h
    col.tick()
    try:
        try:
            with watchdog(WATCHDOG_S):
                hexi, exc = call(run_hex)
        except Hang:  # confirm with a much longer limit before calling it a hang (a loaded machine is not a defect)
            with watchdog(WATCHDOG_S * 4):
                hexi, exc = call(run_hex)
    except Hang:
        HANGS["seen"] += 1
        groups = [classify(hexcfg, m) for m in members]
        derived = [g for g in groups if g != "member-differs-from-standalone"]
        col.fail((derived[0] if derived else "hexital") + "-hangs", f"{'construction' if first else 'append-only'}/never-returns",
                 "hexital.core.candle_manager.CandleManager.fill_missing_candles",
                 f"every member runs standalone in milliseconds; the Hexital did not return within {WATCHDOG_S * 4} s "
                 f"(unbounded loop inserting fill candles)", spec)
        return
    if exc is not None:
        settings_form = [m for m in members if m["form"] == "settings"]
        if type(exc).__name__ in ("InvalidIndicator", "InvalidAnalysis") and settings_form:
            col.fail("settings-roundtrip-map-key", "hexital-from-settings/raises", "hexital.core.indicator.Indicator.settings",
                     f"Hexital built from indicator.settings raised {type(exc).__name__}: {exc}", spec)
        elif isinstance(exc, TypeError) and any(m["key"] == "Amorph" and m["form"] == "settings" for m in members):
            col.fail("amorph-settings-drop-args", "hexital-from-settings/raises", "hexital.indicators.amorph.Amorph.settings",
                     f"Hexital built from Amorph(...).settings raised {type(exc).__name__}: {exc}", spec)
        else:
            groups = [classify(hexcfg, m) for m in members]
            derived = [g for g in groups if g != "member-differs-from-standalone"]
            col.fail(derived[0] if derived else "hexital-raises-standalone-does-not",
                     f"{'construction' if first else 'append-only'}/raises", "hexital.core.hexital.Hexital.append",
                     f"every member runs standalone, the Hexital raised {type(exc).__name__}: {exc}", spec)
        return
    # members vs twins
    registered = list(hexi.indicators.values())
    if len(registered) != len(members):
        col.fail("member-lost", "registration/count", "hexital.core.hexital.Hexital._validate_indicators",
                 f"{len(members)} members with distinct names given, {len(registered)} registered: {list(hexi.indicators)}", spec)
        return
    for m, twin, member in zip(members, twins, registered):
        col.tick()
        # a member without own timeframe keeps its un-suffixed name under a Hexital-level timeframe: compare by position
        name = member.name
        group = classify(hexcfg, m)
        fn = "hexital.core.hexital.Hexital._validate_indicators" if first else "hexital.core.hexital.Hexital.append"
        a, b = ohlcv(twin.candles), ohlcv(member.candles)
        if a != b:
            col.fail(group, f"{'construction' if first else 'append-only'}/candles", fn,
                     f"{name} ({m['form']} form): candles differ from the standalone twin: {first_diff(a, b)} (standalone vs member)",
                     dict(spec, member=name), tag=m["key"])
            continue
        ra, rb = list(twin.as_list()), list(member.as_list())
        if ra != rb or rb != hexi.reading_as_list(name):
            col.fail(group, f"{'construction' if first else 'append-only'}/readings", fn,
                     f"{name} ({m['form']} form): readings differ from the standalone twin: {first_diff(ra, rb)} (standalone vs member)",
                     dict(spec, member=name), tag=m["key"])
    # base candles
    if not hexcfg.get("timeframe") and not hexcfg.get("candlestick_type"):
        col.tick()
        base = ohlcv(hexi.candles())
        want = ohlcv(candles)
        ok = len(base) <= len(want) and base == want[len(want) - len(base):] and (
            hexcfg.get("candles_lifespan") is not None or len(base) == len(want))
        if not ok:
            col.fail("base-candles-altered", "base/ohlcv", "hexital.core.hexital.Hexital.append",
                     f"base candles are not the stream's OHLCV: {first_diff(want[len(want) - len(base):], base)}", spec)


# ------------------------------------------------------------------------------------------------ B round trip
def check_roundtrip(col, candles, stream_text):
    variants = [("plain", {}), ("timeframe", {"timeframe": "T5"}), ("renamed", {"fullname_override": "custom", "name_suffix": "x"}),
                ("falsy-fields", {"round_value": 0}),
                ("fill+lifespan+HA", {"timeframe": "T10", "timeframe_fill": True, "candles_lifespan": timedelta(hours=2),
                                      "candlestick_type": "HA"})]
    extra_amorph = [("Amorph[doji]", lambda **e: INDICATOR_MAP["Amorph"](analysis=PATTERN_MAP["doji"], **e)),
                    ("Amorph[inv_hammer]", lambda **e: INDICATOR_MAP["Amorph"](analysis=PATTERN_MAP["inv_hammer"], **e)),
                    ("Amorph[positive]", lambda **e: INDICATOR_MAP["Amorph"](analysis=MOVEMENT_MAP["positive"], **e)),
                    ("Amorph[highest]", lambda **e: INDICATOR_MAP["Amorph"](analysis=MOVEMENT_MAP["highest"], indicator="close", length=3, **e))]
    makers = [(key, (lambda key=key, **e: build(key, **e))) for key, cls in INDICATOR_MAP.items() if small_config(cls) is not None]
    for key, mk in makers + extra_amorph:
        for vname, extra in variants:
            for used in (False, True):
                col.tick()
                col.scenario(("roundtrip", key, vname, used))
                ind, exc = call(lambda: mk(**deepcopy(extra)))
                if exc is not None:
                    continue
                if used:
                    _, exc = call(lambda: ind.append(gen.clone(candles)))
                    if exc is not None:
                        continue
                inp = {"indicator": key, "variant": vname, "after_use": used}
                settings, exc = call(lambda: ind.settings)
                if exc is not None:
                    col.fail("settings-raises", f"{key}/settings", "hexital.core.indicator.Indicator.settings",
                             f"settings raised {type(exc).__name__}: {exc}", inp, tag=key)
                    continue
                inp["settings"] = {k: show(v) for k, v in settings.items()}
                amorph = isinstance(ind, INDICATOR_MAP["Amorph"])
                sfn = "hexital.indicators.amorph.Amorph.settings" if amorph else "hexital.core.indicator.Indicator.settings"
                before = deepcopy(settings)
                rebuilt, exc = call(lambda: Hexital("rt", [])._build_indicator(settings))
                if exc is not None:
                    if type(exc).__name__ in ("InvalidIndicator", "InvalidAnalysis"):
                        col.fail("settings-roundtrip-map-key", f"{key.split('[')[0]}/build-raises", sfn,
                                 f"_build_indicator({type(ind).__name__}.settings) raised {type(exc).__name__}: {exc}", inp, tag=key)
                    else:
                        col.fail("settings-roundtrip-raises", f"{key.split('[')[0]}/build-raises", sfn,
                                 f"_build_indicator({type(ind).__name__}.settings) raised {type(exc).__name__}: {exc}", inp, tag=key)
                    continue
                if norm(settings) != norm(before):
                    col.fail("build-indicator-mutates-settings", f"{key}/dict-changed", "hexital.core.hexital.Hexital._build_indicator",
                             "the settings dict passed to _build_indicator was altered", inp, tag=key)
                problems = []
                if type(rebuilt) is not type(ind):
                    problems.append(f"class {type(rebuilt).__name__} != {type(ind).__name__}")
                if rebuilt.name != ind.name:
                    problems.append(f"name {rebuilt.name!r} != {ind.name!r}")
                s2, exc = call(lambda: rebuilt.settings)
                if exc is None and norm(s2) != norm(before):
                    b1, b2 = norm(before), norm(s2)
                    problems.append(f"settings differ: {({k: (b1.get(k), b2.get(k)) for k in set(b1) | set(b2) if b1.get(k) != b2.get(k)})}")
                # same behaviour on a stream
                def column(x):
                    y = mk(**deepcopy(extra)) if x is None else x
                    y.append(gen.clone(candles))
                    return list(y.as_list()), ohlcv(y.candles)
                want, exc1 = call(column, None)
                got, exc2 = call(column, rebuilt)
                if exc1 is None and exc2 is not None:
                    problems.append(f"rebuilt indicator raises {type(exc2).__name__}: {exc2}")
                elif exc1 is None and want != got:
                    problems.append(f"readings/candles differ ({first_diff(want[0], got[0])})")
                if problems:
                    group = "amorph-settings-drop-args" if amorph else "settings-roundtrip-differs"
                    col.fail(group, f"{key.split('[')[0]}/rebuilt-differs", sfn,
                             f"_build_indicator(settings) is not the same indicator: {'; '.join(problems)}", inp, tag=key)


def run(tier, seed, focus=None):
    rnd = random.Random(seed)
    col = Col(PROP, seed, focus)
    HANGS.update(seen=0, skipped=0)
    thorough = tier == "thorough"
    keys = [k for k, c in INDICATOR_MAP.items() if small_config(c) is not None]
    pool = Pool(keys, stream("random", 40, seed=seed))
    n_scen = 8000 if thorough else 900
    kinds = ["random", "gappy", "random", "sawtooth", "rising"]
    for s in range(n_scen):
        check_scenario(col, rnd, pool, kinds[s % len(kinds)], rnd.choice([1, 12, 37, 64, 95]), seed * 1000 + s)
    col.note(f"{n_scen} Hexitals: 1-4 members of {len(pool.info)} classes, forms object/dict/settings, member timeframes -/T5/T10/T15, "
             f"Hexital timeframe -/T5, fill, lifespan 20/45/90 min, HA; construction with 0/1/half/all candles then chunks "
             f"(ones / random 1-9 / all at once); each member vs standalone twin fed identically")
    if HANGS["seen"]:
        col.note(f"{HANGS['seen']} scenarios (HA + timeframe_fill + member timeframe) never returned and were cut by the "
                 f"{WATCHDOG_S} s watchdog; {HANGS['skipped']} further scenarios of that shape were skipped")
    # a member FINER than the Hexital's own timeframe (the base candles are already collapsed when the member's manager is built)
    for hex_tf, mem_tf in (("T10", "T5"), ("T15", "T5")):
        col.tick()
        cs = stream("random", 60, seed=seed + 3)
        spec = {"hexital": {"timeframe": hex_tf}, "members": [f"SMA@{mem_tf}/object"], "stream": f"oracles.c08.stream('random',60,seed={seed + 3})",
                "at_construction": 60, "chunks": []}
        def go(hex_tf=hex_tf, mem_tf=mem_tf):
            ind = build("SMA", timeframe=mem_tf)
            h = Hexital("c08", gen.clone(cs), [ind], timeframe=hex_tf)
            h.calculate()
            twin = build("SMA", candles=gen.clone(cs), timeframe=mem_tf)
            twin.calculate()
            return ohlcv(ind.candles), ohlcv(twin.candles)
        res, exc = call(go)
        if exc is None and res[0] != res[1]:
            col.fail("finer-member-timeframe", f"{mem_tf}-member-in-{hex_tf}-hexital/candles", "hexital.core.hexital.Hexital._validate_indicators",
                     f"SMA_5_{mem_tf} in a Hexital(timeframe={hex_tf}): {len(res[0])} candles, the standalone twin has {len(res[1])}: "
                     f"the member's manager is built from the already collapsed {hex_tf} candles", spec)
    check_roundtrip(col, stream("random", 45, seed=seed), f"oracles.c08.stream('random',45,seed={seed})")
    col.note("settings round trip: every INDICATOR_MAP class (+ Amorph over doji / inv_hammer / positive) x variants plain, "
             "timeframe, renamed, fill+lifespan+HA x fresh / after use")
    bound = (f"{n_scen} random multi-timeframe Hexitals over {len(pool.info)} INDICATOR_MAP classes (small parameters, members on one "
             f"timeframe restricted to indicators without shared entries) on streams random/gappy/sawtooth/rising of 1..95 "
             f"one-minute candles (TZ as given, run under UTC); round trip of .settings for {len(keys) + 3} configurations x 4 "
             f"variants x 2 states; seed {seed}")
    return col.result(bound)
