"""C04 stand-in: moving averages (SMA, EMA, RMA, WMA, VWMA, HMA) against independent references.

For every (indicator, period, round_value, input, stream) the REAL indicator is built in batch on
fresh candles and every reading is compared with oracles.ref_indicators.  Checked per evaluation:
  * value: |real - reference| <= rounding error the configured round_value can introduce
      SMA  (incremental, one rounding per step)        u*(1+steps)
      EMA  (contraction 1-a, one rounding per step)    u*min(1+steps, 1/a)
      RMA                                              u*min(1+steps, period)
      WMA, VWMA (window formula, one rounding)         u
      HMA  (two default-rounded WMA subs -> raw -> default-rounded WMA -> own rounding)  4*u4 + u
    with u = 0.5*10^-round_value, u4 = 0.5e-4, plus 1e-9*|value| float slack;
  * warm-up (pinned by the statement): first reading exactly at s+period-1 where s is the index
    of the first input (HMA: s+period-1+floor(sqrt(period))-1, the definitional minimum);
  * range: reading within [min, max] of the inputs it averages (not HMA);
  * position independence: the same input values injected at different start offsets s, and
    inputs that are other indicators starting late (SMA_5, TR, ATR_3, ROC), must still match.
The input series x is what the candles actually hold (for chained inputs: the stored readings of
the inner indicator), so only the averaging step is judged here.
"""
from __future__ import annotations

import random

from oracles import ref_indicators as R

PROP = "C04"
MA_NAMES = ["SMA", "EMA", "RMA", "WMA", "VWMA", "HMA"]


def _cls(name):
    import hexital.indicators as I

    return getattr(I, name)


def _prepare_input(spec, stream, candles):
    """returns (input_value name, list of input values as stored on the candles) or raises"""
    import hexital.indicators as I

    kind = spec[0]
    if kind == "price":
        return spec[1], list(getattr(stream, {"open": "O", "high": "H", "low": "L", "close": "C"}[spec[1]]))
    if kind == "inj":
        xs = R.injected_series(spec[1], stream.n, spec[2], stream.seed)
        for c, v in zip(candles, xs):
            if v is not None:
                c.indicators["X"] = v
        return "X", xs
    if kind == "chain":
        inner = {
            "SMA_5": lambda: I.SMA(candles=candles, period=5),
            "TR": lambda: I.TR(candles=candles),
            "ATR_3": lambda: I.ATR(candles=candles, period=3),
            "ROC": lambda: I.ROC(candles=candles, period=4),
            "EMA_4": lambda: I.EMA(candles=candles, period=4),
        }[spec[1]]()
        inner.calculate()
        return inner.name, inner.as_list()
    raise ValueError(spec)


def _in_str(spec):
    if spec[0] == "price":
        return spec[1]
    if spec[0] == "inj":
        return f"inj-{spec[1]}@{spec[2]}"
    return f"chain-{spec[1]}"


def _reference(name, kw, x, stream):
    p = kw["period"]
    if name == "SMA":
        return R.sma(x, p)
    if name == "EMA":
        return R.ema(x, p, kw.get("smoothing", 2.0))
    if name == "RMA":
        return R.rma(x, p)
    if name == "WMA":
        return R.wma(x, p)
    if name == "HMA":
        return R.hma(x, p)
    if name == "VWMA":
        return R.vwma(stream.C, stream.V, p)
    raise ValueError(name)


def _tolerance(name, kw, first):
    u = R.unit(kw.get("round_value", 4))
    p = kw["period"]

    def steps(i):
        return max(0, i - (first if first is not None else i))

    if name == "SMA":
        return lambda i: u * (1 + steps(i)) + 1e-12
    if name == "EMA":
        a = kw.get("smoothing", 2.0) / (p + 1.0)
        return lambda i: u * min(1 + steps(i), 1.0 / a) + 1e-12
    if name == "RMA":
        return lambda i: u * min(1 + steps(i), float(p)) + 1e-12
    if name == "HMA":
        return lambda i: 4 * R.U4 + u + 1e-12
    return lambda i: u + 1e-12


def _seed_only(real, x, p, u):
    """True when the real series obeys r[t] = a*x[t] + (1-a)*r[t-1] (a = 1/p) after its first value,
    i.e. a disagreement with the reference can only come from the seed"""
    a = 1.0 / p
    f = R.first_defined(real)
    if f is None:
        return False
    for t in range(f + 1, len(real)):
        if real[t] is None or x[t] is None or real[t - 1] is None:
            return False
        want = a * x[t] + (1 - a) * real[t - 1]
        if abs(real[t] - want) > 2 * u + 1e-9 * abs(want):
            return False
    return True


def _group(name, mkind, s, x, real=None, kw=None, at_seed=False):
    """defect-class slug; specific slugs were assigned after reading the hexital code"""
    if name == "RMA" and s is not None and s > 0:
        # rma.py: seed divisor uses absolute candle indices and the window is period+1 wide when
        # index == period -> wrong seed (s >= 2) or TypeError on a None input (s == 1)
        if mkind.startswith("exception") and at_seed:
            return "rma-seed-late-input"
        if mkind == "value" and real is not None and _seed_only(real, x, kw["period"], R.unit(kw.get("round_value", 4))):
            return "rma-seed-late-input"
    if name == "HMA" and mkind in ("never", "gap", "late"):
        # hma.py: `if self.reading(WMA)` treats a 0.0 average as missing
        return "truthiness-zero-reading"
    if mkind.startswith("exception"):
        return mkind
    return {"value": "value-mismatch", "early": "warmup-early", "late": "warmup-late", "gap": "gap-after-warmup",
            "never": "no-reading", "nonfinite": "non-finite-reading", "range": "out-of-input-range"}.get(mkind, mkind)


def _evaluate(col, name, kw, spec, stream):
    in_s = "close+volume" if name == "VWMA" else _in_str(spec)
    detail = f"{R.kw_str(kw)};in={in_s};{stream.key()}"
    if not col.want(name, detail):
        return
    candles = stream.candles()
    try:
        in_name, x = _prepare_input(spec, stream, candles)
    except Exception as e:  # inner indicator of a chain failed: not this property's subject
        col.note(f"skipped: inner input {in_s} raised {type(e).__name__}")
        return
    s = R.first_defined(x)
    ref = _reference(name, kw, x, stream)
    first = R.first_defined(ref)
    col.evaluated(name, detail, first is not None)
    full_kw = dict(kw)
    if name != "VWMA":
        full_kw["input_value"] = in_name
    if spec[0] == "chain" and f"{name}_{kw['period']}" == in_name:
        # the outer indicator would get the inner one's default name and read itself
        full_kw["name_suffix"] = "outer"
    inp = {"indicator": name, "kwargs": full_kw, "input": in_s, "stream": stream.desc(), "mode": "batch"}
    fn_default = f"hexital.indicators.{name.lower()}.{name}._calculate_reading"
    try:
        ind = _cls(name)(candles=candles, **full_kw)
        ind.calculate()
        real = ind.as_list()
    except Exception as e:
        fn, line, idx = R.hexital_frame(e)
        w = ref[idx] if idx is not None and idx < len(ref) else None
        if idx is not None and (w is None or R.is_nan(w)) and name == "VWMA":
            # 0/0 window: the textbook formula is undefined there, C09 (totality) owns this
            col.note("not judged: exception where the reference is undefined (VWMA zero-volume window)")
            return
        inp["first_failing_index"] = idx
        inp["candles_near"] = stream.sample(idx if idx is not None else 0)
        col.fail(_group(name, "exception-" + type(e).__name__, s, x, at_seed=(idx is not None and idx == first)), name, detail, fn or fn_default,
                 f"{R.short_exc(e)} at candle index {idx} (line {line})", inp)
        return
    mm, late = R.compare(real, ref, _tolerance(name, kw, first), pinned=True)
    if mm is not None:
        inp["first_failing_index"] = mm.index
        inp["input_first_index"] = s
        inp["input_near"] = x[max(0, mm.index - 3): mm.index + 1]
        col.fail(_group(name, mm.kind, s, x, real=real, kw=kw), name, detail, fn_default, mm.text(), inp)
        return
    if name == "HMA":
        return
    # range check: reading between the smallest and largest input it averages
    tol = _tolerance(name, kw, first)
    p = kw["period"]
    src = stream.C if name == "VWMA" else x
    for i, g in enumerate(real):
        if g is None:
            continue
        lo_i = i - p + 1 if name in ("SMA", "WMA", "VWMA") else (s or 0)
        w = [v for v in src[max(0, lo_i): i + 1] if v is not None]
        if not w:
            continue
        slack = tol(i) + 1e-9 * max(abs(min(w)), abs(max(w)))
        if g < min(w) - slack or g > max(w) + slack:
            inp["first_failing_index"] = i
            col.fail(_group(name, "range", s, x), name, detail, fn_default,
                     f"index {i}: reading {g} outside [{min(w)}, {max(w)}] of the inputs it averages", inp)
            return


def run(tier, seed, focus=None):
    col = R.Collector(PROP, seed, focus)
    rnd = random.Random(seed)
    thorough = tier == "thorough"
    if thorough:
        periods = [2, 3, 4, 5, 6, 7, 8, 9, 10, 12, 14, 16, 20, 25, 30, 50]
        lengths = [30, 90, 260]
        rvs = [0, 4, 10]
        starts = [0, 1, 2, 3, 5, 8, 13]
        kinds = R.STREAM_KINDS + ["gen:random", "gen:zerovol"]
        nseeds = 2
    else:
        periods = [2, 3, 5, 9, 14]
        lengths = [40, 110]
        rvs = [4, 10]
        starts = [0, 1, 2, 5]
        kinds = ["random", "rising", "falling", "flat", "volatile_then_flat", "small", "big", "plateau", "zerovol", "gapping", "gen:random"]
        nseeds = 2
    base = seed * 1000

    specs_price = [("price", "close"), ("price", "high")] + ([("price", "low"), ("price", "open")] if thorough else [])
    specs_inj = [("inj", "walk", s) for s in starts]
    specs_inj += [("inj", "zero_cross", 0), ("inj", "zero_cross", 3), ("inj", "zeros", 2), ("inj", "const", 4), ("inj", "grid", 1)]
    specs_chain = [("chain", "SMA_5"), ("chain", "TR"), ("chain", "ATR_3"), ("chain", "ROC")] + ([("chain", "EMA_4")] if thorough else [])

    for name in MA_NAMES:
        for p in periods:
            for rv in rvs:
                kws = [{"period": p, "round_value": rv}]
                if name == "EMA" and p >= 3 and rv == rvs[-1]:
                    kws.append({"period": p, "round_value": rv, "smoothing": 1.0})
                    if p >= 5:
                        kws.append({"period": p, "round_value": rv, "smoothing": 3.0})
                for kw in kws:
                    if name == "VWMA":
                        for kind in kinds:
                            for n in lengths:
                                for k in range(nseeds):
                                    _evaluate(col, name, kw, ("price", "close"), R.Stream(kind, n, base + k))
                        continue
                    # price inputs over every stream kind
                    for spec in specs_price:
                        for kind in kinds:
                            for k in range(nseeds):
                                n = lengths[(p + k + len(kind)) % len(lengths)]
                                _evaluate(col, name, kw, spec, R.Stream(kind, n, base + k))
                    # injected inputs: the candle stream is irrelevant, vary only length/seed
                    for spec in specs_inj:
                        for k in range(nseeds):
                            n = lengths[(p + k) % len(lengths)]
                            _evaluate(col, name, kw, spec, R.Stream("random", n, base + 10 + k))
                    # chained late-starting indicators on a few stream kinds (flat: TR == 0.0)
                    for spec in specs_chain:
                        for kind in ("random", "flat", "volatile_then_flat") + (("rising", "gapflat") if thorough else ()):
                            n = lengths[-1] if kind != "flat" else lengths[0]
                            _evaluate(col, name, kw, spec, R.Stream(kind, n, base + 20))
    # a few randomly drawn configurations on top of the grid (seed dependent)
    for _ in range(60 if thorough else 15):
        name = rnd.choice([m for m in MA_NAMES if m != "VWMA"])
        kw = {"period": rnd.randint(2, 40 if thorough else 20), "round_value": rnd.choice([3, 5, 8])}
        spec = ("inj", rnd.choice(["walk", "zero_cross", "grid"]), rnd.randint(0, 12))
        _evaluate(col, name, kw, spec, R.Stream("random", rnd.randint(30, 200), base + rnd.randint(0, 999)))

    bound = (f"tier={tier}: indicators {MA_NAMES}; periods {periods} (+random up to {40 if thorough else 20}); round_value {rvs} (+3,5,8); "
             f"stream kinds {kinds}; lengths {lengths}; inputs: close/high{'/low/open' if thorough else ''}, injected series "
             f"(walk, zero-crossing, all-zero, constant, grid) starting at index {starts}..12, chained SMA_5/TR/ATR_3/ROC; batch calculate()")
    return col.result(bound)
