"""C06 stand-in: RSI, MACD, ROC, STOCH, TSI, AROON, ADX, OBV, VWAP against independent references
(oracles.ref_indicators), real indicator built in batch (and, for a subset, by appending one
candle at a time).

Tolerances (u = 0.5*10^-round_value of the indicator, u4 = 0.5e-4 for sub-indicators, which hexital
always builds with round_value=4; every bound is the worst case of the roundings on the path):
  RSI, ROC, AROON, OBV, VWAP, STOCH.stoch   u   (smoothed gain/loss etc. are kept unrounded)
  MACD   line: u4*(f+1)/2 + u4*(s+1)/2 + u ; signal: that + u + u4*(sg+1)/2 ; histogram: sum of both
  STOCH  k: u4*(1+steps) + u (incremental SMA) ; d: k's bound + u4*(1+steps) + u
  TSI    100*2*e2/|denominator| + u, e2 = u4*(p+1)/2 + u4*(sp+1)/2 ; skipped where the
         denominator is within 4*e2 of zero
  ADX    DI: 100*(u4*p + u4*(1+p))/(ATR - u4*(1+p)) + u ; DX: 300*e_DI/(+DI + -DI) ; ADX: Wilder
         average of the DX bounds + u4*ps + u ; skipped where a denominator is within rounding of 0
Open conventions are tried as variants and a stream passes when ONE variant matches throughout:
RSI/ADX Wilder seed (plain mean = textbook, or decay-weighted = C04's RMA), ADX directional
movement starting at index 1 or as 0 at index 0, OBV starting at volume[0] or 0.
Entries where the definition is 0/0 (flat Stochastic window, TSI/ADX on flat candles, VWAP before
any volume) are not judged here; C09 owns exceptions/gaps there.  RSI is different: the statement
defines it as 100 when there are no losses.
"""
from __future__ import annotations

import random

from oracles import ref_indicators as R
from oracles.ref_indicators import FieldRef, const_tol

PROP = "C06"


def _I():
    import hexital.indicators as I

    return I


# ---- variant builders: f(kw, stream) -> variants_fn(extra) ------------------------------------------

def _v_rsi(kw, st):
    u, p = R.unit(kw.get("round_value", 4)), kw["period"]
    x = {"close": st.C, "high": st.H, "low": st.L}[kw.get("input_value", "close")]
    return lambda extra: [(f"seed={seed}", {None: FieldRef(R.rsi(x, p, seed), const_tol(u + 1e-9))}) for seed in ("mean", "decay")]


def _v_macd(kw, st):
    u, f, s, sg = R.unit(kw.get("round_value", 4)), kw["fast_period"], kw["slow_period"], kw["signal_period"]

    def fn(extra):
        ref = R.macd(st.C, f, s, sg)
        e_line = R.U4 * (f + 1) / 2.0 + R.U4 * (s + 1) / 2.0
        # the signal EMA is seeded from the MACD fields already stored (rounded with the indicator's
        # own round_value) on earlier candles, hence the extra u
        e_sig = e_line + u + R.U4 * (sg + 1) / 2.0
        return [("macd", {"MACD": FieldRef(ref["MACD"], const_tol(e_line + u + 1e-12)),
                          "signal": FieldRef(ref["signal"], const_tol(e_sig + u + 1e-12)),
                          "histogram": FieldRef(ref["histogram"], const_tol(e_line + e_sig + u + 1e-12))})]

    return fn


def _v_roc(kw, st):
    u, p = R.unit(kw.get("round_value", 4)), kw["period"]
    return lambda extra: [("roc", {None: FieldRef(R.roc(st.C, p), const_tol(u + 1e-9))})]


def _v_stoch(kw, st):
    u, p, sk, sl = R.unit(kw.get("round_value", 4)), kw["period"], kw["smoothing_k"], kw["slow_period"]

    def fn(extra):
        ref = R.stoch(st.H, st.L, st.C, p, sk, sl)
        fk, fd = p - 1 + sk - 1, p - 1 + sk - 1 + sl - 1
        e_k = lambda i: R.U4 * (1 + max(0, i - fk)) + u + 1e-9
        e_d = lambda i: e_k(i) + R.U4 * (1 + max(0, i - fd)) + u
        return [("stoch", {"stoch": FieldRef(ref["stoch"], const_tol(u + 1e-9)),
                           "k": FieldRef(ref["k"], e_k), "d": FieldRef(ref["d"], e_d)})]

    return fn


def _v_tsi(kw, st):
    u, p, sp = R.unit(kw.get("round_value", 4)), kw["period"], kw["smooth_period"]

    def fn(extra):
        ref, den = R.tsi(st.C, p, sp)
        e2 = R.U4 * (p + 1) / 2.0 + R.U4 * (sp + 1) / 2.0
        ref = list(ref)
        tols = [0.0] * len(ref)
        for i, d in enumerate(den):
            if not R.defined(ref[i]):
                continue
            if abs(d) <= 4 * e2:
                ref[i] = R.NAN
            else:
                tols[i] = 100.0 * 2 * e2 / (abs(d) - e2) + u + 1e-9
        return [("tsi", {None: FieldRef(ref, lambda i: tols[i])})]

    return fn


def _v_aroon(kw, st):
    u, p = R.unit(kw.get("round_value", 4)), kw["period"]

    def fn(extra):
        ref = R.aroon(st.H, st.L, p)
        return [("aroon", {k: FieldRef(ref[k], const_tol(u + 1e-9)) for k in ("AROONU", "AROOND", "AROONOSC")})]

    return fn


def _adx_bounds(ref, p, ps, u):
    """per index tolerances for DI and ADX; entries too close to a zero denominator become NaN"""
    n = len(ref["ADX"])
    e_atr = R.U4 * (1 + p)
    e_pos = R.U4 * p
    dip, din, adx, dx, rng = (list(ref[k]) for k in ("DM_Plus", "DM_Neg", "ADX", "_dx", "_atr"))
    t_di, e_dx = [0.0] * n, [None] * n
    for i in range(n):
        if not R.defined(dip[i]):
            continue
        if rng[i] <= 4 * e_atr:
            dip[i] = din[i] = R.NAN
            e_dx[i] = R.NAN
            continue
        t_di[i] = 100.0 * (e_pos + e_atr) / (rng[i] - e_atr) + u + 1e-9
        tot = dip[i] + din[i]
        if not R.defined(dx[i]) or tot <= 4 * t_di[i]:
            e_dx[i] = R.NAN
        else:
            e_dx[i] = 300.0 * t_di[i] / tot
    # Wilder average of the DX bounds (the smoothing forgets old errors at the same rate)
    a = 1.0 / ps
    t_adx = [0.0] * n
    run = None
    for i in range(n):
        if e_dx[i] is None:
            continue
        if R.is_nan(e_dx[i]) or (run is not None and R.is_nan(run)):
            run = R.NAN
        elif run is None:
            w = [v for v in e_dx[max(0, i - ps + 1): i + 1] if v is not None]
            run = max(w) if len(w) >= 1 else e_dx[i]
        else:
            run = (1 - a) * run + a * e_dx[i]
        if R.defined(adx[i]):
            if R.is_nan(run):
                adx[i] = R.NAN
            else:
                # until ps bounds exist `run` tracks the max seen so far
                t_adx[i] = run + R.U4 * ps + u + 1e-9
    return dip, din, adx, t_di, t_adx


def _v_adx(kw, st):
    u, p, ps = R.unit(kw.get("round_value", 4)), kw["period"], kw["period_signal"]

    def fn(extra):
        out = []
        for dm0 in (False, True):
            for seed in ("decay", "mean"):
                ref = R.adx(st.H, st.L, st.C, p, ps, dm_at_0=dm0, seed=seed)
                dip, din, adx, t_di, t_adx = _adx_bounds(ref, p, ps, u)
                # seed window of ADX: be generous, use the max DX bound seen so far
                mx, t_adx2 = 0.0, []
                for i in range(len(t_adx)):
                    mx = max(mx, t_adx[i])
                    t_adx2.append(mx)
                out.append((f"DM from index {0 if dm0 else 1}, Wilder seed={seed}", {
                    "DM_Plus": FieldRef(dip, lambda i, t=t_di: t[i]),
                    "DM_Neg": FieldRef(din, lambda i, t=t_di: t[i]),
                    "ADX": FieldRef(adx, lambda i, t=t_adx2: t[i])}))
        return out

    return fn


def _v_obv(kw, st):
    u = R.unit(kw.get("round_value", 4))
    return lambda extra: [(f"start={'volume[0]' if b else '0'}", {None: FieldRef(R.obv(st.C, st.V, b), const_tol(u + 1e-9))})
                          for b in (True, False)]


def _v_vwap(kw, st):
    u = R.unit(kw.get("round_value", 4))
    return lambda extra: [("vwap", {None: FieldRef(R.vwap(st.H, st.L, st.C, st.V), const_tol(u + 1e-9))})]


# ---- group slugs (assigned after reading the hexital code for every failure seen) ----------------

def _adx_stage_blame(kw, st, mode):
    """why does the ADX field disagree?  Recompute DX from hexital's OWN +DI/-DI readings (x) and test
    C04's two clauses for a Wilder average on hexital's ADX series r: the recurrence
    r[t] = x[t]/ps + (1-1/ps)*r[t-1] and the seed.  'seed': recurrence holds, first value is not a
    seed of the first ps DX values (neither decay-weighted nor plain mean)."""
    I = _I()
    try:
        ind = R.run_real(I.ADX, st.candles(), kw, mode)
    except Exception:
        return None
    rd = ind.as_list()
    dip, din, adx = (R.field_series(rd, k) for k in ("DM_Plus", "DM_Neg", "ADX"))
    dx = [None if a is None or b is None else (R.NAN if a + b == 0 else 100.0 * abs(a - b) / (a + b)) for a, b in zip(dip, din)]
    ps = kw["period_signal"]
    u = R.unit(kw.get("round_value", 4))
    f = R.first_defined(adx)
    if f is None:
        return None
    a = 1.0 / ps
    for t in range(f + 1, len(adx)):
        if adx[t] is None or not R.defined(dx[t]):
            return "other"
        want = a * dx[t] + (1 - a) * adx[t - 1]
        if abs(adx[t] - want) > 0.02 + 1e-4 * abs(want) + 600 * u / max(dip[t] + din[t], 1.0):
            return "other"
    seeds = [R.rma(dx, ps, sd) for sd in ("decay", "mean")]
    for sref in seeds:
        f0 = R.first_defined(sref)
        if f0 == f and R.defined(sref[f]) and abs(sref[f] - adx[f]) <= 0.02 + 1e-4 * abs(sref[f]) + 600 * u:
            return "other"
    return "seed"


def _adx_depends_on_last_candle(kw, st):
    """causal test for the look-back wrap-around: readings at indices < n-1 must not change when
    only the LAST candle of the batch is replaced (here: by a copy of candle 0)"""
    I = _I()
    try:
        a = R.run_real(I.ADX, st.candles(), kw, "batch").as_list()
        cs = st.candles()
        c0 = cs[0]
        last = cs[-1]
        last.open, last.high, last.low, last.close = c0.open, c0.high, c0.low, c0.close
        b = R.run_real(I.ADX, cs, kw, "batch").as_list()
    except Exception:
        return False
    return a[:-1] != b[:-1]


def _group(name, kw, st, mode):
    def g(kind, field, obj):
        if kind == "exception":
            if name == "RSI" and isinstance(obj, ZeroDivisionError):
                # rsi.py: rs = gain/loss with loss == 0.0 (statement: RSI is 100 when there are no losses)
                return "rsi-zero-loss-division"
            if isinstance(obj, ZeroDivisionError):
                return "zero-division"
            return "exception-" + type(obj).__name__
        if name == "OBV" and kind == "value":
            real = getattr(obj, "readings", None) or []
            for i in range(1, min(len(real), st.n)):
                if real[i] is None or real[i - 1] is None:
                    continue
                want = st.V[i] if st.C[i] > st.C[i - 1] else (-st.V[i] if st.C[i] < st.C[i - 1] else 0)
                if abs((real[i] - real[i - 1]) - want) > 1e-3:
                    if (st.V[i] == st.V[i - 1]) != (st.C[i] == st.C[i - 1]):
                        # obv.py: "unchanged" branch tests volume == previous volume instead of close == previous close
                        return "obv-equal-volume"
                    break
        if name == "ADX":
            if kind in ("never", "gap", "late-data-dependent"):
                # adx.py: `if atr and pos` / `if dx`: a smoothed +DM (or ATR, ADX) of exactly 0.0 reads as missing
                return "truthiness-zero-reading"
            real = getattr(obj, "readings", None)
            if real is not None:
                ref = R.adx(st.H, st.L, st.C, kw["period"], kw["period_signal"], dm_at_0=True)
                dip = R.field_series(real, "DM_Plus")
                if any(dip[i] is None and R.defined(ref["DM_Plus"][i]) and abs(ref["DM_Plus"][i]) < 1e-9 for i in range(min(len(dip), st.n))):
                    # +DI missing exactly where the smoothed +DM is 0.0 (same truthiness test); the DX series
                    # then starts later and every ADX value after it is shifted
                    return "truthiness-zero-reading"
            if kind == "value" and field == "ADX" and _adx_stage_blame(kw, st, mode) == "seed":
                # rma.py seed divisor uses absolute indices: the DX series starts late (index `period`)
                return "rma-seed-late-input"
            if kind == "value" and mode == "batch" and _adx_depends_on_last_candle(kw, st):
                # adx.py: index-1 at candle 0 wraps to the LAST candle of the list (batch only)
                return "adx-first-candle-wraparound"
        if name == "TSI" and kind in ("never", "gap", "late-data-dependent"):
            return "truthiness-zero-reading"
        return R.GENERIC_GROUP.get(kind, kind)

    return g


def run(tier, seed, focus=None):
    I = _I()
    col = R.Collector(PROP, seed, focus)
    rnd = random.Random(seed)
    thorough = tier == "thorough"
    if thorough:
        periods = [2, 3, 4, 5, 6, 7, 9, 10, 12, 14, 20, 30]
        lengths = [40, 100, 280]
        rvs = [2, 4, 8, 10]
        kinds = R.STREAM_KINDS + ["gen:random", "gen:rising", "gen:falling", "gen:sawtooth"]
        nseeds = 2
        macds = [(2, 3, 2), (3, 6, 4), (5, 13, 5), (12, 26, 9), (8, 21, 2), (2, 10, 7)]
        stochs = [(2, 2, 2), (3, 2, 3), (5, 3, 3), (14, 3, 3), (9, 5, 2), (20, 4, 6)]
    else:
        periods = [2, 3, 5, 9, 14]
        lengths = [50, 130]
        rvs = [4, 10]
        kinds = ["random", "rising", "falling", "flat", "flat_vol", "zerovol", "volatile_then_flat", "small", "big",
                 "sawtooth", "plateau", "eqvol", "spiky", "gapping", "gen:random", "gen:falling"]
        nseeds = 2
        macds = [(2, 3, 2), (3, 6, 4), (12, 26, 9)]
        stochs = [(2, 2, 2), (5, 3, 3), (14, 3, 3)]
    base = seed * 1000

    def streams(p, salt=0):
        for kind in kinds:
            for k in range(nseeds):
                yield R.Stream(kind, lengths[(p + k + salt + len(kind)) % len(lengths)], base + k)

    def ev(name, cls, kw, st, vb, mode="batch"):
        detail = f"{R.kw_str(kw)};{st.key()}" + (";append" if mode != "batch" else "")
        R.evaluate(col, name, cls, kw, st, detail, lambda s_: (vb(kw, s_), None), _group(name, kw, st, mode), mode=mode)

    for rv in rvs:
        for st in streams(0):
            ev("OBV", I.OBV, {"round_value": rv}, st, _v_obv)
            ev("VWAP", I.VWAP, {"round_value": rv}, st, _v_vwap)
        for p in periods:
            kw = {"period": p, "round_value": rv}
            for st in streams(p):
                ev("RSI", I.RSI, kw, st, _v_rsi)
                ev("ROC", I.ROC, kw, st, _v_roc)
                ev("aroon", I.AROON, kw, st, _v_aroon)
            for st in streams(p, 1):
                for ps in sorted({p, max(2, p // 2)}):
                    kwa = {"period": p, "period_signal": ps, "round_value": rv}
                    ev("ADX", I.ADX, kwa, st, _v_adx)
                    if rv == rvs[0] and ps == p:
                        ev("ADX", I.ADX, kwa, st, _v_adx, mode="append")
                for sp in sorted({max(2, (p + 1) // 2), max(2, p - 1)}):
                    kwt = {"period": p, "smooth_period": sp, "round_value": rv}
                    ev("TSI", I.TSI, kwt, st, _v_tsi)
        if rv == rvs[0]:
            for st in streams(1):
                ev("RSI", I.RSI, {"period": 5, "round_value": rv, "input_value": "high"}, st, _v_rsi)
                ev("RSI", I.RSI, {"period": 3, "round_value": rv}, st, _v_rsi, mode="append")
                ev("OBV", I.OBV, {"round_value": rv}, st, _v_obv, mode="append")
        for (f, s, sg) in macds:
            kwm = {"fast_period": f, "slow_period": s, "signal_period": sg, "round_value": rv}
            for st in streams(s, 2):
                ev("MACD", I.MACD, kwm, st, _v_macd)
        for (p, sl, sk) in stochs:
            kws = {"period": p, "slow_period": sl, "smoothing_k": sk, "round_value": rv}
            for st in streams(p, 3):
                ev("STOCH", I.STOCH, kws, st, _v_stoch)
    # seed dependent extra draws
    for _ in range(80 if thorough else 20):
        p = rnd.randint(2, 30 if thorough else 16)
        rv = rnd.choice([3, 5, 6])
        st = R.Stream(rnd.choice(kinds), rnd.randint(3 * p + 10, 240), base + rnd.randint(0, 999))
        ev("RSI", I.RSI, {"period": p, "round_value": rv}, st, _v_rsi)
        ev("ADX", I.ADX, {"period": p, "period_signal": rnd.randint(2, p + 3), "round_value": rv}, st, _v_adx)
        ev("TSI", I.TSI, {"period": p, "smooth_period": rnd.randint(2, p + 1), "round_value": rv}, st, _v_tsi)
        f = rnd.randint(2, p + 1)
        ev("MACD", I.MACD, {"fast_period": f, "slow_period": f + rnd.randint(1, 12), "signal_period": rnd.randint(2, 9),
                            "round_value": rv}, st, _v_macd)
        ev("STOCH", I.STOCH, {"period": p, "slow_period": rnd.randint(2, 5), "smoothing_k": rnd.randint(2, 5), "round_value": rv}, st, _v_stoch)
        ev("OBV", I.OBV, {"round_value": rv}, st, _v_obv)

    bound = (f"tier={tier}: RSI, ROC, AROON, ADX, TSI, MACD, STOCH, OBV, VWAP; periods {periods} (+random up to {30 if thorough else 16}); "
             f"MACD (fast,slow,signal) {macds}; STOCH (period,slow,smooth_k) {stochs}; round_value {rvs} (+3,5,6); stream kinds {kinds}; "
             f"lengths {lengths} (+random up to 240); batch calculate() plus one-by-one append for ADX/RSI/OBV")
    return col.result(bound)
