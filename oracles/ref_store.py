"""Independent reference models + shared helpers for the bounded run-time oracles (C01 C02 C03 C11 C12 C15 C18).

Everything here is written from the property statements in /verif/properties.jsonl, not from hexital's code:
  resample(stream, tf_seconds)  right-closed, right-labelled OHLCV buckets (k*tf, (k+1)*tf] on the wall-clock axis
  fill(buckets, tf_seconds)     contiguous flat zero-volume fill from the previous close
  heikin_ashi(stream)           C11 recurrence
  trim(stream, lifespan)        keep rows with ts >= newest - lifespan
A "row" is a tuple (timestamp, open, high, low, close, volume); Candle objects are accepted everywhere a stream is.
The wall-clock axis is "seconds since the naive origin 1970-01-01 00:00:00" computed by calendar arithmetic on the
naive datetime (never through .timestamp(), which would involve the process time zone).
"""
from __future__ import annotations

import copy
import inspect
import os
import random
import time
from datetime import datetime, timedelta

ORIGIN = datetime(1970, 1, 1)
UNIT_SECONDS = {"S": 1, "T": 60, "H": 3600, "D": 86400}


# ----------------------------------------------------------------------------- wall clock axis
def wall_seconds(ts: datetime) -> int:
    d = ts.replace(microsecond=0) - ORIGIN
    return d.days * 86400 + d.seconds


def from_wall(seconds: int) -> datetime:
    return ORIGIN + timedelta(seconds=seconds)


def tf_seconds(tf: str) -> int:
    tf = tf.upper()
    return int(tf[1:]) * UNIT_SECONDS[tf[0]]


# ----------------------------------------------------------------------------- rows
def row(c):
    if isinstance(c, (tuple, list)):
        return tuple(c)
    return (c.timestamp, c.open, c.high, c.low, c.close, c.volume)


def rows(stream):
    return [row(c) for c in stream]


def to_candles(rws):
    from hexital.core.candle import Candle

    return [Candle(open=r[1], high=r[2], low=r[3], close=r[4], volume=r[5], timestamp=r[0]) for r in rws]


# ----------------------------------------------------------------------------- reference models
def bucket_label(ts: datetime, tf: int) -> int:
    """label (= right end, in wall seconds) of the bucket (k*tf, (k+1)*tf] holding ts"""
    s = wall_seconds(ts)
    return -(-s // tf) * tf


def resample(stream, tf: int):
    out = []
    cur = None
    for ts, o, h, l, c, v in rows(stream):
        lab = bucket_label(ts, tf)
        if cur is not None and lab < cur:
            raise ValueError("stream timestamps decrease")
        if lab != cur:
            out.append([from_wall(lab), o, h, l, c, v])
            cur = lab
        else:
            b = out[-1]
            b[2] = max(b[2], h)
            b[3] = min(b[3], l)
            b[4] = c
            b[5] = b[5] + v
    return [tuple(b) for b in out]


def assignment(stream, tf: int):
    """for each input candle, the label of the bucket it belongs to"""
    return [from_wall(bucket_label(r[0], tf)) for r in rows(stream)]


def fill(buckets, tf: int):
    out = []
    step = timedelta(seconds=tf)
    for b in rows(buckets):
        if out:
            prev = out[-1]
            t = prev[0] + step
            while t < b[0]:
                pc = prev[4]
                out.append((t, pc, pc, pc, pc, 0))
                t = t + step
        out.append(b)
    return out


def heikin_ashi(stream):
    out = []
    for i, (ts, o, h, l, c, v) in enumerate(rows(stream)):
        ha_close = (o + h + l + c) / 4
        if i == 0:
            ha_open = (o + c) / 2
        else:
            ha_open = (out[-1][1] + out[-1][4]) / 2
        ha_high = max(h, ha_open, ha_close)
        ha_low = min(l, ha_open, ha_close)
        out.append((ts, ha_open, ha_high, ha_low, ha_close, v))
    return out


def trim(stream, lifespan: timedelta):
    rws = rows(stream)
    if not rws or lifespan is None:
        return rws
    newest = rws[-1][0]
    return [r for r in rws if r[0] >= newest - lifespan]


# ----------------------------------------------------------------------------- comparison helpers
def first_row_diff(got, want):
    """index and field of the first difference between two row lists, or None"""
    names = ("timestamp", "open", "high", "low", "close", "volume")
    for i in range(min(len(got), len(want))):
        for k in range(6):
            if got[i][k] != want[i][k]:
                return i, names[k], got[i][k], want[i][k]
    if len(got) != len(want):
        return min(len(got), len(want)), "length", len(got), len(want)
    return None


def close_rows(got, want, rel=1e-9):
    if len(got) != len(want):
        return False
    for a, b in zip(got, want):
        if a[0] != b[0] or a[5] != b[5]:
            return False
        for k in range(1, 5):
            if abs(a[k] - b[k]) > rel * max(1.0, abs(a[k]), abs(b[k])):
                return False
    return True


def snapshot(candles):
    """deep, comparable snapshot of a candle list: (ts, o, h, l, c, v, indicators, sub_indicators)"""
    return [
        (c.timestamp, c.open, c.high, c.low, c.close, c.volume, copy.deepcopy(c.indicators), copy.deepcopy(c.sub_indicators))
        for c in candles
    ]


_FIELDS = ("timestamp", "open", "high", "low", "close", "volume")


def snap_diff(a, b):
    """first difference between two snapshot entries -> (key, a-value, b-value) or None"""
    for k in range(6):
        if a[k] != b[k]:
            return _FIELDS[k], a[k], b[k]
    for slot, name in ((6, "indicators"), (7, "sub_indicators")):
        da, db = a[slot], b[slot]
        if da == db:
            continue
        for key in list(da) + [k for k in db if k not in da]:
            va, vb = da.get(key, "<absent>"), db.get(key, "<absent>")
            if va != vb:
                if isinstance(va, dict) and isinstance(vb, dict):
                    for sk in list(va) + [k for k in vb if k not in va]:
                        if va.get(sk, "<absent>") != vb.get(sk, "<absent>"):
                            return f"{name}[{key}].{sk}", va.get(sk, "<absent>"), vb.get(sk, "<absent>")
                return f"{name}[{key}]", va, vb
    return None


def first_snap_diff(a, b):
    """(index, key, a-value, b-value) of the first difference between two snapshots, or None"""
    for i in range(min(len(a), len(b))):
        if a[i] != b[i]:
            d = snap_diff(a[i], b[i])
            if d:
                return (i,) + d
    if len(a) != len(b):
        return min(len(a), len(b)), "length", len(a), len(b)
    return None


# ----------------------------------------------------------------------------- environment
def force_utc():
    """C18 owns the time-zone dimension; every other oracle pins the process to UTC."""
    os.environ["TZ"] = "UTC"
    try:
        time.tzset()
    except AttributeError:
        pass


# ----------------------------------------------------------------------------- second-resolution streams
def ts_stream(rnd: random.Random, n: int, tf: int, on_boundary: bool, mode: str = "mixed", day0: datetime = datetime(2023, 6, 1)):
    """n rows with non-decreasing second-resolution timestamps designed around a timeframe of tf seconds.
    mode: mixed (duplicates, intra-bucket steps, exact boundary hits, multi-bucket gaps), dense (several candles per
    bucket, no gaps), gaps (mostly gaps), dups (many duplicates)"""
    base = wall_seconds(day0) + rnd.randint(0, 86400 * 3)
    base = -(-base // tf) * tf  # a boundary
    s = base if on_boundary else base + rnd.randint(1, max(1, tf - 1)) if tf > 1 else base
    weights = {
        "mixed": (2, 6, 2, 2, 2, 1),
        "dense": (1, 10, 2, 0, 0, 0),
        "gaps": (1, 2, 1, 2, 5, 2),
        "dups": (6, 4, 1, 1, 1, 0),
    }[mode]
    kinds = ("dup", "small", "to_boundary", "one_tf", "multi", "huge")
    out = []
    price = rnd.uniform(20, 200)
    for i in range(n):
        if i:
            k = rnd.choices(kinds, weights)[0]
            if k == "small":
                s += rnd.randint(1, max(1, tf // 3))
            elif k == "to_boundary":
                s = (s // tf + 1) * tf
            elif k == "one_tf":
                s += tf
            elif k == "multi":
                s += tf * rnd.randint(1, 5) + rnd.randint(0, tf)
            elif k == "huge":
                s += tf * rnd.randint(6, 40) + rnd.randint(0, tf)
        o = price
        c = max(price + rnd.gauss(0, 2), 1.0)
        h = max(o, c) + abs(rnd.gauss(0, 1))
        l = max(min(o, c) - abs(rnd.gauss(0, 1)), 0.5)
        price = c
        v = rnd.randint(0, 1000)
        out.append((from_wall(s), o, h, l, c, v))
    return out


def pattern_stream(n, seed=0, step=timedelta(minutes=1), start=datetime(2023, 6, 1, 9, 0, 0)):
    """random walk with hand-shaped candles injected after index 10 (doji, doji star after a long body, hammer, inverted
    hammer with a real-body gap down) so that every shipped pattern function fires somewhere in the stream"""
    from hexital.core.candle import Candle

    rnd = random.Random(977 * seed + 13)
    rws = []
    price = rnd.uniform(80, 120)
    shape = None
    for i in range(n):
        o = price
        if shape is None and i >= 10 and i % 5 == 0:
            shape = ("doji", "dojistar", "hammer", "invhammer")[(i // 5 + seed) % 4]
            if shape == "dojistar":  # this candle is the long body before the star
                c = o + 6.0
                h, l = c + 0.2, o - 0.2
                rws.append((o, h, l, c))
                price = c
                continue
        if shape == "dojistar":
            o = price + 1.0
            c, h, l = o + 0.01, o + 0.3, o - 0.3
        elif shape == "doji":
            c, h, l = o, o + 0.8, o - 0.8
        elif shape == "hammer":
            o = rws[-1][2]
            c = o + 0.2
            h, l = c + 0.01, o - 3.0
        elif shape == "invhammer":
            o = min(rws[-1][0], rws[-1][3]) - 1.0
            c = o - 0.2
            h, l = o + 3.0, c - 0.01
        else:
            c = max(o + rnd.gauss(0, 2), 5.0)
            h = max(o, c) + abs(rnd.gauss(0, 1))
            l = max(min(o, c) - abs(rnd.gauss(0, 1)), 0.5)
        shape = None
        rws.append((o, h, l, c))
        price = c
    return [Candle(open=o, high=h, low=l, close=c, volume=rnd.randint(1, 1000), timestamp=start + step * (i + 1)) for i, (o, h, l, c) in enumerate(rws)]


def sub_seed(seed, *parts):
    """stream seed that depends only on the run seed and the scenario identity (not on iteration order), so that a
    --focus replay regenerates exactly the stream of the full run"""
    import zlib

    return zlib.crc32(repr((seed,) + parts).encode()) & 0xFFFF


def random_chunks(n: int, rnd: random.Random, maxk: int = 7):
    parts = []
    left = n
    while left > 0:
        k = rnd.randint(1, max(1, min(left, maxk)))
        parts.append(k)
        left -= k
    return parts


def split(seq, parts):
    out = []
    i = 0
    for k in parts:
        out.append(seq[i : i + k])
        i += k
    return out


# ----------------------------------------------------------------------------- indicator catalogue (C01/C02/C15)
class Spec:
    def __init__(self, key, cls, kwargs, lookback, label=None):
        self.key = key  # INDICATOR_MAP key (or Amorph/<fn>)
        self.cls = cls
        self.kwargs = kwargs
        self.lookback = lookback  # generous look-back/warm-up in candles (for C15)
        self.slug = key.lower().replace("/", "-").replace("_", "")
        kw = ",".join(f"{k}={getattr(v, '__name__', v)}" for k, v in kwargs.items() if k != "analysis")
        self.label = label or f"{key}({kw})"

    def build(self, candles, **cfg):
        return self.cls(candles=candles, **copy.deepcopy(self.kwargs), **cfg)

    def qualname(self):
        if self.key.startswith("Amorph/"):
            fn = self.kwargs["analysis"]
            return f"{fn.__module__}.{fn.__name__}"
        return f"{self.cls.__module__}.{self.cls.__name__}._calculate_reading"

    def repro(self):
        return {"class": self.key, "kwargs": {k: getattr(v, "__name__", v) for k, v in self.kwargs.items()}}


_PARAMS = {
    # INDICATOR_MAP key -> list of kwargs variants (first = quick tier)
    "Counter": [{"input_value": "positive"}, {"input_value": "negative", "count_value": False}],
    "aroon": [{"period": 4}, {"period": 7}],
    "ADX": [{"period": 4}, {"period": 5, "period_signal": 3}],
    "ATR": [{"period": 4}, {"period": 7}],
    "BBANDS": [{"period": 5}, {"period": 3}],
    "donchian": [{"period": 5}, {"period": 3}],
    "EMA": [{"period": 4}, {"period": 7, "smoothing": 3.0, "input_value": "high"}],
    "HL": [{"period": 5}, {"period": 3}],
    "HLA": [{}],
    "HMA": [{"period": 9}, {"period": 4}],
    "KC": [{"period": 5}, {"period": 3, "multiplier": 1.5}],
    "MACD": [{"fast_period": 3, "slow_period": 6, "signal_period": 3}, {"fast_period": 5, "slow_period": 2, "signal_period": 4}],
    "OBV": [{}],
    "RMA": [{"period": 4}, {"period": 7, "input_value": "low"}],
    "ROC": [{"period": 4}, {"period": 2}],
    "RSI": [{"period": 4}, {"period": 7}],
    "SMA": [{"period": 4}, {"period": 7, "input_value": "volume"}],
    "STDEV": [{"period": 5}, {"period": 3}],
    "STDEVTHRES": [{"period": 5}, {"period": 3, "multiplier": 1.0}],
    "STOCH": [{"period": 5, "slow_period": 3, "smoothing_k": 3}, {"period": 4, "slow_period": 2, "smoothing_k": 2}],
    "Supertrend": [{"period": 4}, {"period": 3, "multiplier": 2.0}],
    "TR": [{}],
    "TSI": [{"period": 5}, {"period": 4, "smooth_period": 3}],
    "VWAP": [{}],
    "VWMA": [{"period": 4}, {"period": 6}],
    "WMA": [{"period": 4}, {"period": 6, "input_value": "open"}],
}


def _lookback(kwargs):
    nums = [v for k, v in kwargs.items() if "period" in k or k in ("length", "lookback", "smoothing_k") if isinstance(v, int)]
    return 2 * sum(nums) + 10


def _analysis_kwargs(fn, variant):
    """keyword arguments for a movement/pattern function derived from its signature"""
    kw = {}
    for name, p in inspect.signature(fn).parameters.items():
        if name in ("candles", "index"):
            continue
        if name == "indicator":
            kw[name] = "close" if variant == 0 else "high"
        elif name == "indicator_one":
            kw[name] = "close"
        elif name == "indicator_two":
            kw[name] = "open"
        elif name == "length":
            kw[name] = 4 if variant == 0 else 2
        elif name == "lookback":
            if variant == 1:
                kw[name] = 3
        elif p.default is inspect.Parameter.empty:
            return None
    return kw


def indicator_specs(thorough: bool):
    """(specs, notes): every class in INDICATOR_MAP with small parameters, plus Amorph wrappers of every
    movement/pattern function. Unknown (new) classes are constructed with their defaults."""
    from hexital.analysis import MOVEMENT_MAP, PATTERN_MAP
    from hexital.indicators import INDICATOR_MAP

    specs, notes = [], []
    for key, cls in INDICATOR_MAP.items():
        if key == "Amorph":
            continue
        variants = _PARAMS.get(key)
        if variants is None:
            try:
                cls()
                variants = [{}]
                notes.append(f"{key}: no parameter table entry, defaults used")
            except Exception as e:  # noqa
                notes.append(f"{key}: cannot construct with defaults ({type(e).__name__}), skipped")
                continue
        for kw in variants if thorough else variants[:1]:
            lb = _lookback(kw) if key != "HL" else 2 * kw.get("period", 100) + 10
            specs.append(Spec(key, cls, dict(kw), lb))
    amorph = INDICATOR_MAP.get("Amorph")
    if amorph is not None:
        fns = {}
        fns.update(MOVEMENT_MAP)
        fns.update(PATTERN_MAP)
        for name, fn in fns.items():
            seen = []
            for variant in (0, 1) if thorough else (0,):
                kw = _analysis_kwargs(fn, variant)
                if kw is None:
                    notes.append(f"Amorph/{name}: unknown required argument, skipped")
                    break
                if kw in seen:
                    continue
                seen.append(kw)
                full = {"analysis": fn}
                full.update(kw)
                specs.append(Spec(f"Amorph/{name}", amorph, full, _lookback(kw) + 12))
            # pattern functions: the look-back variant is where schedule dependence can hide -> always include once
            if not thorough and "lookback" in inspect.signature(fn).parameters:
                kw = _analysis_kwargs(fn, 1)
                if kw:
                    full = {"analysis": fn}
                    full.update(kw)
                    specs.append(Spec(f"Amorph/{name}", amorph, full, _lookback(kw) + 12))
    return specs, notes


# ----------------------------------------------------------------------------- failure bookkeeping
class Report:
    """collects results in the format run.py expects; caps failures at `cap` per (group, subject)"""

    def __init__(self, prop: str, seed: int, focus=None, cap: int = 3):
        self.prop = prop
        self.seed = seed
        self.focus = focus
        self.cap = cap
        self.checked = 0
        self.distinct = 0
        self.failures = []
        self.counts = {}
        self._seen = set()
        self._listed = {}
        self.cases = []
        self.notes = []

    def wants(self, detail_prefixes=None, group_hint=None):
        """cheap pre-filter: could a scenario with this case detail match the focus?"""
        if not self.focus:
            return True
        parts = self.focus.split(":", 2)
        if parts[0] and parts[0] != self.prop:
            return False
        if len(parts) > 2 and parts[2] and detail_prefixes is not None:
            d = parts[2]
            return any(p.startswith(d) or d.startswith(p) for p in detail_prefixes)
        return True

    def focus_group(self):
        if not self.focus:
            return None
        parts = self.focus.split(":", 2)
        return parts[1] if len(parts) > 1 and parts[1] else None

    def sample(self, text, limit=8):
        if len(self.cases) < limit and text not in self.cases:
            self.cases.append(text)

    def fail(self, group, detail_id, function, detail, inp, subject="", dedupe=None):
        """dedupe: optional hashable; a second failure with the same (group, subject, dedupe) is only counted"""
        case = f"{self.prop}:{group}:{detail_id}"
        if self.focus and not case.startswith(self.focus):
            return
        key = (group, subject)
        n = self.counts.get(key, 0) + 1
        self.counts[key] = n
        if dedupe is not None:
            if (key, dedupe) in self._seen:
                return
            self._seen.add((key, dedupe))
        self._listed[key] = self._listed.get(key, 0) + 1
        if self._listed[key] <= self.cap:
            self.failures.append(
                {"case": case, "function": function, "seed": self.seed, "detail": str(detail)[:400], "input": inp, "_key": key}
            )

    def result(self, bound):
        for f in self.failures:
            key = f.pop("_key")
            extra = self.counts[key] - min(self.cap, self._listed[key])
            if extra > 0:
                f["detail"] += f" [+{extra} more failing scenarios in group {key[0]}{'/' + key[1] if key[1] else ''} not listed]"
        if self.notes:
            bound = bound + " Notes: " + "; ".join(self.notes)
        return {
            "status": "ok",
            "checked": self.checked,
            "distinct": self.distinct,
            "bound": bound,
            "failures": self.failures,
            "cases": self.cases,
        }


def short(v, n=60):
    s = repr(v)
    return s if len(s) <= n else s[: n - 3] + "..."
