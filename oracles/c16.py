"""C16 bounded stand-in: pattern / movement functions are causal and index-consistent.

For every function in hexital.analysis.MOVEMENT_MAP and PATTERN_MAP (the maps are enumerated, argument
sets are derived from the signatures) on random candle lists with partly missing readings:
  f(candles, index=i) == f(candles[:i+1]) (default position) == f(candles, index=i-len(candles)),
  none of them raises, and the Amorph / {"analysis": name} wrapper gives the same column live and in batch.
Runs the REAL code; expectations are the three-way agreement itself (no copy of hexital's logic).
"""
import inspect
import json
import random
from copy import deepcopy

from hexital import Hexital
from hexital.analysis import MOVEMENT_MAP, PATTERN_MAP
from hexital.core.candle import Candle
from hexital.indicators import Amorph

PROP = "C16"
_MISSING = object()


# ------------------------------------------------------------------------------------------------ collector
class Col:
    def __init__(self, prop, seed, focus):
        self.prop, self.seed, self.focus = prop, seed, focus
        self.checked = 0
        self.scen = set()
        self.cases = []
        self.f = {}
        self.cnt = {}
        self.shorts = {}

    def tick(self, n=1):
        self.checked += n

    def scenario(self, key):
        self.scen.add(key)

    def note(self, text):
        if len(self.cases) < 12 and text not in self.cases:
            self.cases.append(text)

    def fail(self, group, short, function, detail, inp):
        case = f"{self.prop}:{group}:{short}"
        if self.focus and not case.startswith(self.focus):
            return
        key = (group, function)
        self.cnt[key] = self.cnt.get(key, 0) + 1
        self.shorts.setdefault(key, {}).setdefault(short, 0)
        self.shorts[key][short] += 1
        size = len(json.dumps(inp, default=str))
        cur = self.f.get(case)
        if cur is None:
            if sum(1 for e in self.f.values() if e["_key"] == key) >= 3:
                return
        elif size >= cur["_size"]:
            return
        self.f[case] = {"case": case, "function": function, "seed": self.seed, "detail": str(detail)[:400],
                        "input": inp, "_key": key, "_size": size}

    def result(self, bound):
        fails = []
        for e in sorted(self.f.values(), key=lambda e: e["case"]):
            n = self.cnt[e["_key"]]
            e0 = e
            e = {k: v for k, v in e.items() if not k.startswith("_")}
            e["detail"] += f" [{n} failing evaluations in this (group, function)"
            kept = {x["case"].split(":", 2)[2] for x in self.f.values() if x["_key"] == e0["_key"]}
            rest = [f"{s}({c})" for s, c in sorted(self.shorts[e0["_key"]].items()) if s not in kept]
            e["detail"] += (f"; cases not listed separately: {', '.join(rest[:14])}" + ("..." if len(rest) > 14 else "") if rest else "") + "]"
            fails.append(e)
        return {"status": "ok", "checked": self.checked, "distinct": len(self.scen), "bound": bound,
                "failures": fails, "cases": self.cases}


# ------------------------------------------------------------------------------------------------ inputs
def q(x):
    """quarter-valued price"""
    return round(x * 4) / 4


def rand_candle(rnd, prev_close, avg_range):
    """assorted shapes: ordinary, doji-like, hammer-like, inverted-hammer-like, long body, gaps"""
    shape = rnd.choice(["norm", "norm", "norm", "doji", "hammer", "invh", "long", "gapdoji", "flat"])
    o = prev_close + rnd.choice([0, 0, 0.25, -0.25, 1, -1])
    if shape == "norm":
        c = o + q(rnd.uniform(-3, 3))
        h = max(o, c) + q(rnd.uniform(0, 2))
        l = min(o, c) - q(rnd.uniform(0, 2))
    elif shape == "doji":
        c = o + rnd.choice([0, 0, 0.25, -0.25])
        h = max(o, c) + q(rnd.uniform(0, 2))
        l = min(o, c) - q(rnd.uniform(0, 2))
    elif shape == "gapdoji":
        o = prev_close + rnd.choice([-1, 1]) * q(rnd.uniform(2, 5))
        c = o + rnd.choice([0, 0.25, -0.25])
        h = max(o, c) + q(rnd.uniform(0, 1))
        l = min(o, c) - q(rnd.uniform(0, 1))
    elif shape == "hammer":
        o = prev_close - q(rnd.uniform(0, 3))
        c = o + rnd.choice([0, 0.25, -0.25, 0.5])
        h = max(o, c) + rnd.choice([0, 0, 0.25])
        l = min(o, c) - q(rnd.uniform(2, 6))
    elif shape == "invh":
        o = prev_close - q(rnd.uniform(1, 5))
        c = o + rnd.choice([0, 0.25, -0.25, 0.5])
        h = max(o, c) + q(rnd.uniform(2, 6))
        l = min(o, c) - rnd.choice([0, 0, 0.25])
    elif shape == "long":
        c = o + rnd.choice([-1, 1]) * q(rnd.uniform(4, 9))
        h = max(o, c) + q(rnd.uniform(0, 1))
        l = min(o, c) - q(rnd.uniform(0, 1))
    else:
        c = h = l = o
    return o, h, l, c


def rand_list(rnd, n):
    """candles with readings A, B (small grid so ties/crosses happen); some None / absent / dict-valued"""
    out = []
    price = q(rnd.uniform(60, 120))
    a = rnd.randint(0, 6)
    b = rnd.randint(0, 6)
    p_missing = rnd.choice([0.0, 0.1, 0.3])
    for _ in range(n):
        o, h, l, c = rand_candle(rnd, price, 2.0)
        price = c
        ind = {}
        for key in ("A", "B"):
            if key == "A":
                a += rnd.choice([-2, -1, 0, 1, 2])
                v = a
            else:
                b += rnd.choice([-1, 0, 0, 1])
                v = b + 0.5 * rnd.randint(0, 1)
            r = rnd.random()
            if r < p_missing * 0.4:
                ind[key] = None
            elif r < p_missing * 0.8:
                pass
            elif r < p_missing:
                # (a dict-valued reading is a present reading of another type, not a missing one:
                # outside the statement of C16 - see DESIGN.md, corrected false alarms)
                ind[key] = None
            else:
                ind[key] = v
        out.append(Candle(open=o, high=h, low=l, close=c, volume=rnd.randint(0, 50), indicators=ind))
    return out


def clone(candles):
    return [Candle(open=c.open, high=c.high, low=c.low, close=c.close, volume=c.volume, timestamp=c.timestamp,
                   indicators={k: (dict(v) if isinstance(v, dict) else v) for k, v in c.indicators.items()
                               if k in ("A", "B")})
            for c in candles]


def dump(candles, names):
    """small reproducer: OHLC plus the named readings"""
    rows = []
    for c in candles:
        row = {"o": c.open, "h": c.high, "l": c.low, "c": c.close}
        for nm in names:
            if nm in c.indicators:
                row[nm] = c.indicators[nm]
        rows.append(row)
    return rows


# ------------------------------------------------------------------------------------------------ arg sets
IND_SINGLE = ["A", "close", "B"]
IND_PAIRS = [("A", "B"), ("close", "A"), ("B", "absent_name")]
LENGTHS = [_MISSING, 1, 2, 3, 5, 12, 50]
LOOKBACKS = [_MISSING, None, 1, 3, 15]


def argsets(fn):
    """list of kwargs dicts for fn (besides candles / index), or None when a required parameter is unknown"""
    sig = inspect.signature(fn)
    params = [p for p in sig.parameters.values() if p.name not in ("candles", "index")]
    ind_params = [p.name for p in params if p.name.startswith("indicator")]
    unknown = [p.name for p in params if not p.name.startswith("indicator") and p.name not in ("length", "lookback")
               and p.default is inspect.Parameter.empty]
    if unknown or "candles" not in sig.parameters or "index" not in sig.parameters:
        return None
    if len(ind_params) == 0:
        ind_choices = [{}]
    elif len(ind_params) == 1:
        ind_choices = [{ind_params[0]: v} for v in IND_SINGLE]
    else:
        ind_choices = [dict(zip(ind_params, pair + ("A",) * (len(ind_params) - 2))) for pair in IND_PAIRS]
    others = [{}]
    names = {p.name for p in params}
    if "length" in names:
        others = [dict(o, **({} if v is _MISSING else {"length": v})) for o in others for v in LENGTHS]
    if "lookback" in names:
        others = [dict(o, **({} if v is _MISSING else {"lookback": v})) for o in others for v in LOOKBACKS]
    return [dict(i, **o) for i in ind_choices for o in others]


def default_of(fn, name):
    p = inspect.signature(fn).parameters.get(name)
    return None if p is None or p.default is inspect.Parameter.empty else p.default


def qual(fn):
    return f"{fn.__module__}.{fn.__qualname__}"


def classify(mapname, fn, is_pattern, kwargs, i, kind, exc):
    """defect-class slug"""
    nm = fn.__name__
    if exc is not None:
        msg = str(exc)
        what = "none" if "NoneType" in msg else ("dict" if "'dict'" in msg else "other")
        return f"{nm}-{type(exc).__name__.lower()}-{what}"
    if is_pattern:
        if kwargs.get("lookback", default_of(fn, "lookback")) is not None:
            return "pattern-lookback-ignores-index"
        return "pattern-negative-index"
    length = kwargs.get("length", default_of(fn, "length"))
    if isinstance(length, int) and i is not None:
        reach = i - length if nm.startswith("cross") else i - length + 1
        if reach < 0:
            return f"{nm}-wraps-below-zero"
    elif i == 0:
        return f"{nm}-wraps-below-zero"
    if kind == "neg":
        return f"{nm}-negative-index"
    return f"{nm}-noncausal"


def call(fn, *a, **k):
    try:
        return fn(*a, **k), None
    except Exception as e:  # noqa: BLE001 - the oracle must never crash
        return None, e


def same(a, b):
    if a is None or b is None:
        return a is b
    return a == b and isinstance(a, bool) == isinstance(b, bool)


def kw_text(kwargs):
    return ",".join(f"{k}={v}" for k, v in sorted(kwargs.items())) or "defaults"


# ------------------------------------------------------------------------------------------------ checks
def check_direct(col, mapname, key, fn, is_pattern, kwargs, candles):
    n = len(candles)
    names = [v for k, v in kwargs.items() if k.startswith("indicator")]
    for i in range(n):
        col.tick(3)
        r_pos, e_pos = call(fn, candles, index=i, **kwargs)
        r_tru, e_tru = call(fn, candles[: i + 1], **kwargs)
        r_neg, e_neg = call(fn, candles, index=i - n, **kwargs)
        for kind, exc in (("pos", e_pos), ("trunc", e_tru), ("neg", e_neg)):
            if exc is not None:
                g = classify(mapname, fn, is_pattern, kwargs, i, kind, exc)
                small = candles[: i + 1] if kind == "trunc" else candles
                col.fail(g, f"{key}/raises", qual(fn), f"{type(exc).__name__}: {exc} (call form: {kind})",
                         {"map": mapname, "name": key, "kwargs": kwargs, "index": i, "len": n,
                          "call": kind, "candles": dump(small, names)})
        if e_pos or e_tru or e_neg:
            continue
        if not same(r_pos, r_tru):
            g = classify(mapname, fn, is_pattern, kwargs, i, "trunc", None)
            col.fail(g, f"{key}/index-vs-truncated", qual(fn),
                     f"f(candles,index={i})={r_pos!r} but f(candles[:{i + 1}])={r_tru!r} (len {n}, {kw_text(kwargs)})",
                     {"map": mapname, "name": key, "kwargs": kwargs, "index": i, "len": n,
                      "candles": dump(candles, names)})
        if not same(r_pos, r_neg):
            g = classify(mapname, fn, is_pattern, kwargs, i, "neg", None)
            col.fail(g, f"{key}/positive-vs-negative", qual(fn),
                     f"f(candles,index={i})={r_pos!r} but f(candles,index={i - n})={r_neg!r} (len {n}, {kw_text(kwargs)})",
                     {"map": mapname, "name": key, "kwargs": kwargs, "index": i, "len": n,
                      "candles": dump(candles, names)})


def column_live(make, candles):
    ind = make([])
    for c in clone(candles):
        ind.append(c)
    return ind


def check_wrapped(col, mapname, key, fn, is_pattern, kwargs, candles, use_dict):
    """Amorph (or dict form inside a Hexital): live column == batch column"""
    names = [v for k, v in kwargs.items() if k.startswith("indicator")]
    col.tick()
    form = "dict" if use_dict else "amorph"
    try:
        if use_dict:
            # "indicator" is also the dict form's own discriminator key: pass such arguments through the documented "args"
            cfg = {"analysis": key, "args": dict(kwargs)} if "indicator" in kwargs else dict({"analysis": key}, **kwargs)
            live = Hexital("live", [], [deepcopy(cfg)])
            for c in clone(candles):
                live.append(c)
            batch = Hexital("batch", clone(candles), [deepcopy(cfg)])
            batch.calculate()
            nm_l = list(live.indicators)[0]
            nm_b = list(batch.indicators)[0]
            col_l = live.reading_as_list(nm_l)
            col_b = batch.reading_as_list(nm_b)
        else:
            live = Amorph(analysis=fn, **kwargs)
            for c in clone(candles):
                live.append(c)
            batch = Amorph(analysis=fn, candles=clone(candles), **kwargs)
            batch.calculate()
            col_l = live.as_list()
            col_b = batch.as_list()
    except Exception as e:  # noqa: BLE001
        g = classify(mapname, fn, is_pattern, kwargs, None, form, e)
        col.fail(g, f"{key}/raises", qual(fn), f"{type(e).__name__}: {e} (call form: {form} wrapper)",
                 {"map": mapname, "name": key, "kwargs": kwargs, "form": form, "candles": dump(candles, names)})
        return
    if len(col_l) != len(col_b) or any(not same(a, b) for a, b in zip(col_l, col_b)):
        j = next((k for k, (a, b) in enumerate(zip(col_l, col_b)) if not same(a, b)), min(len(col_l), len(col_b)))
        g = classify(mapname, fn, is_pattern, kwargs, j, "trunc", None)
        col.fail(g, f"{key}/{form}-live-vs-batch", qual(fn),
                 f"first difference at candle {j}: live={col_l[j] if j < len(col_l) else '-'!r} "
                 f"batch={col_b[j] if j < len(col_b) else '-'!r} ({kw_text(kwargs)})",
                 {"map": mapname, "name": key, "kwargs": kwargs, "form": form, "candles": dump(candles, names)})


def run(tier, seed, focus=None):
    rnd = random.Random(seed)
    col = Col(PROP, seed, focus)
    thorough = tier == "thorough"
    n_lists = 750 if thorough else 90
    n_wrapped = 70 if thorough else 9
    lens = list(range(0, 41))
    lists = []
    for k in range(n_lists):
        n = lens[k % len(lens)] if thorough else rnd.choice([0, 1, 2, 3, 5, 8, 11, 12, 14, 17, 22, 30, 40])
        lists.append(rand_list(rnd, n))
    wrapped = [rand_list(rnd, rnd.choice([3, 9, 14, 25, 40])) for _ in range(n_wrapped)]

    funcs = [("MOVEMENT_MAP", k, f, False) for k, f in MOVEMENT_MAP.items()]
    funcs += [("PATTERN_MAP", k, f, True) for k, f in PATTERN_MAP.items()]
    skipped = []
    for mapname, key, fn, is_pattern in funcs:
        sets = argsets(fn)
        if sets is None:
            skipped.append(key)
            continue
        if focus and focus.count(":") >= 2:
            want = focus.split(":", 2)[2].split("/")[0]
            if want and not key.startswith(want) and not want.startswith(key):
                continue
        for kwargs in sets:
            for li, candles in enumerate(lists):
                if candles:
                    col.scenario((key, kw_text(kwargs), li))
                check_direct(col, mapname, key, fn, is_pattern, kwargs, candles)
            for wi, candles in enumerate(wrapped):
                check_wrapped(col, mapname, key, fn, is_pattern, kwargs, candles, use_dict=False)
                if wi == 0:
                    check_wrapped(col, mapname, key, fn, is_pattern, kwargs, candles, use_dict=True)
        col.note(f"{mapname}[{key}] with {len(sets)} argument sets on {len(lists)} lists, every index +/-; "
                 f"Amorph/dict live vs batch on {len(wrapped)} lists")
    if skipped:
        col.note("skipped (required parameter of unknown kind): " + ",".join(skipped))
    bound = (f"{len(funcs) - len(skipped)} functions enumerated from MOVEMENT_MAP/PATTERN_MAP x signature-derived argument sets "
             f"(indicator names A/B/close/absent, length in default,1,2,3,5,12,50, lookback in default,None,1,3,15) x {len(lists)} "
             f"random candle lists of length 0..40 (quarter-valued prices, doji/hammer/long/gap shapes, readings None/absent/"
             f"dict-valued with probability 0-30%) x every index positive and negative; Amorph and dict-form wrappers live vs "
             f"batch on {len(wrapped)} lists; seed {seed}")
    return col.result(bound)
