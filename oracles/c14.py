"""C14 bounded stand-in: maintenance operations are idempotent and always converge to the batch state.

Per INDICATOR_MAP class (small parameters):
  1 calculate() twice changes no candle entry            2 recalculate() reproduces the readings
  3 purge() (Indicator.purge, Hexital.purge, Hexital.remove_indicator) leaves every candle exactly as it was before the
    indicator was ever calculated (foreign entries planted beforehand must survive, nothing of the indicator or of
    its helpers at any depth may stay)
  4 calculate_index on an already computed index, addressed positively and negatively (Indicator.calculate_index and
    Hexital.calculate_index incl. its default index -1) reproduces the reading, and a following calculate() still
    yields the batch column
  5 random operation sequences over {append, calculate, purge, recalculate, calculate_index, add_indicator,
    remove_indicator} on Hexitals of mutually unrelated indicators never raise and, after a final calculate(), hold
    exactly the batch readings; failing sequences are shrunk to a minimal reproducer before being classified
"""
import inspect
import json
import random
from copy import deepcopy

from hexital import Hexital
from hexital.analysis import movement
from hexital.indicators import INDICATOR_MAP

from oracles import gen

PROP = "C14"


class Col:
    def __init__(self, prop, seed, focus):
        self.prop, self.seed, self.focus = prop, seed, focus
        self.checked = 0
        self.scen = set()
        self.cases = []
        self.f = {}
        self.cnt = {}
        self.shorts = {}
        self.tags = {}

    def tick(self, n=1):
        self.checked += n

    def scenario(self, key):
        self.scen.add(key)

    def note(self, text):
        if len(self.cases) < 12 and text not in self.cases:
            self.cases.append(text)

    def fail(self, group, short, function, detail, inp, tag=None):
        case = f"{self.prop}:{group}:{short}"
        if self.focus and not case.startswith(self.focus):
            return
        key = (group, function)
        if tag:
            self.tags.setdefault(key, set()).add(tag)
        self.cnt[key] = self.cnt.get(key, 0) + 1
        self.shorts.setdefault(key, {}).setdefault(short, 0)
        self.shorts[key][short] += 1
        size = len(json.dumps(inp, default=str))
        cur = self.f.get(case)
        if cur is None:
            if sum(1 for e in self.f.values() if e["_key"] == key) >= 3:
                return
        elif size >= cur["_size"]:
            return
        self.f[case] = {"case": case, "function": function, "seed": self.seed, "detail": str(detail)[:400],
                        "input": inp, "_key": key, "_size": size}

    def result(self, bound):
        fails = []
        for e in sorted(self.f.values(), key=lambda e: e["case"]):
            n = self.cnt[e["_key"]]
            e0 = e
            e = {k: v for k, v in e.items() if not k.startswith("_")}
            e["detail"] += f" [{n} failing evaluations in this (group, function)"
            kept = {x["case"].split(":", 2)[2] for x in self.f.values() if x["_key"] == e0["_key"]}
            rest = [f"{s}({c})" for s, c in sorted(self.shorts[e0["_key"]].items()) if s not in kept]
            if self.tags.get(e0["_key"]):
                e["detail"] += "; indicators affected: " + ", ".join(sorted(self.tags[e0["_key"]]))
            e["detail"] += (f"; cases not listed separately: {', '.join(rest[:14])}" + ("..." if len(rest) > 14 else "") if rest else "") + "]"
            fails.append(e)
        return {"status": "ok", "checked": self.checked, "distinct": len(self.scen), "bound": bound,
                "failures": fails, "cases": self.cases}


def stream(kind, n, seed=0, **kw):
    """gen.stream (deterministic per seed); kept as a named entry point because reproducers refer to it"""
    return gen.stream(kind, n, seed=seed, **kw)


SMALL = {"period": 5, "fast_period": 3, "slow_period": 6, "signal_period": 3}
BASE_PARAMS = ("candles", "fullname_override", "name_suffix", "round_value", "timeframe", "timeframe_fill",
               "candles_lifespan", "candlestick_type", "kwargs")


def small_config(cls):
    kw = {}
    for p in inspect.signature(cls).parameters.values():
        if p.name in BASE_PARAMS:
            continue
        if p.name == "analysis":
            kw["analysis"] = movement.rising
            kw["args"] = {"indicator": "close", "length": 3}
        elif p.name == "input_value" and p.default is inspect.Parameter.empty:
            kw["input_value"] = "positive" if cls.__name__ == "Counter" else "close"
        elif p.default is inspect.Parameter.empty:
            return None
        elif "period" in p.name and isinstance(p.default, int):
            kw[p.name] = min(p.default, SMALL.get(p.name, 4))
    return kw


def build(key, **extra):
    return INDICATOR_MAP[key](**deepcopy(small_config(INDICATOR_MAP[key])), **extra)


def qual(key, method):
    cls = INDICATOR_MAP[key]
    return f"{cls.__module__}.{cls.__qualname__}.{method}"


def call(fn, *a, **k):
    try:
        return fn(*a, **k), None
    except Exception as e:  # noqa: BLE001
        return None, e


def entries(candles):
    return [(deepcopy(c.indicators), deepcopy(c.sub_indicators)) for c in candles]


def helper_depths(ind, depth=1, out=None):
    """name -> nesting depth of every helper series below `ind` (1 = direct sub/managed indicator)"""
    if out is None:
        out = {}
    for child in list(ind.sub_indicators.values()) + list(ind.managed_indicators.values()):
        out.setdefault(child.name, depth)
        helper_depths(child, depth + 1, out)
    return out


def first_diff(a, b):
    for i, (x, y) in enumerate(zip(a, b)):
        if x != y:
            return f"candle {i}: {x!r} -> {y!r}"
    return f"lengths {len(a)} vs {len(b)}"


def plant(candles, name=None):
    """entries somebody else wrote; with `name`: also entries whose names extend the indicator's own name (another
    member created with a name_suffix, a longer period such as EMA_5 / EMA_50) - they are not the indicator's"""
    for i, c in enumerate(candles):
        c.indicators["FOREIGN"] = float(i)
        c.indicators["FOREIGN_d"] = {"x": i, "y": None}
        c.sub_indicators["FOREIGN_sub"] = -float(i)
        if name:
            c.indicators[name + "_user"] = float(i) + 0.5
            c.indicators[name + "0"] = float(i) + 0.25
            c.sub_indicators[name + "_user_sub"] = float(i) + 0.75


# ------------------------------------------------------------------------------------------------ 1-4 per class
def check_derived_index(col, key, seed):
    """a member on a derived timeframe: Hexital.calculate_index with the default / a negative index addresses the member's OWN
    candle list (of another length than the base list), reproduces the reading and raises nothing"""
    n = 47
    candles = stream("random", n, seed=seed + 9)
    text = f"oracles.c14.stream('random',{n},seed={seed + 9})"
    for tf in ("T5", "T10"):
        ind = build(key, timeframe=tf)
        hexi = Hexital("c14", gen.clone(candles), [ind])
        _, exc = call(hexi.calculate)
        if exc is not None:
            return
        want = list(ind.as_list())
        name = ind.name
        for shown, fn in ((f"Hexital.calculate_index()  # every member, default index -1", lambda: hexi.calculate_index()),
                          (f"Hexital.calculate_index({name!r}, -2)", lambda: hexi.calculate_index(name, -2)),
                          (f"Hexital.calculate_index(index={len(want) - 1})", lambda: hexi.calculate_index(index=len(want) - 1))):
            col.tick()
            _, exc = call(fn)
            got = list(ind.as_list())
            inp = {"indicator": key, "timeframe": tf, "stream": text, "op": shown, "base_candles": n, "member_candles": len(want)}
            if exc is not None:
                col.fail("calc-index-negative", "derived-timeframe/raises", "hexital.core.hexital.Hexital.calculate_index",
                         f"{key}@{tf}: {shown} raised {type(exc).__name__}: {exc} (member list has {len(want)} candles, base list {n})", inp, tag=key)
            elif got != want:
                col.fail("calc-index-negative", "derived-timeframe/readings-changed", "hexital.core.hexital.Hexital.calculate_index",
                         f"{key}@{tf}: {shown} changed readings: {first_diff(want, got)}", inp, tag=key)


def check_class(col, key, candles, stream_text):
    n = len(candles)
    spec = {"indicator": key, "kwargs": {k: getattr(v, "__name__", v) for k, v in small_config(INDICATOR_MAP[key]).items()},
            "stream": stream_text}
    base = build(key, candles=gen.clone(candles))
    _, exc = call(base.calculate)
    if exc is not None:
        return False
    batch = list(base.as_list())
    name = base.name
    # 1 calculate twice
    col.tick()
    before = entries(base.candles)
    _, exc = call(base.calculate)
    after = entries(base.candles)
    if exc is not None or before != after:
        col.fail("calculate-not-idempotent", f"{key}/calculate-twice", qual(key, "calculate"),
                 f"second calculate() {'raised ' + repr(exc) if exc else 'changed ' + first_diff(before, after)}", spec)
    # 2 recalculate
    col.tick()
    _, exc = call(base.recalculate)
    got = list(base.as_list()) if exc is None else None
    if exc is not None or got != batch:
        col.fail("recalculate-differs", f"{key}/recalculate", "hexital.core.indicator.Indicator.recalculate",
                 f"recalculate() {'raised ' + repr(exc) if exc else 'changed the readings: ' + first_diff(batch, got)}", spec)
    # 3 purge
    for how in ("Indicator.purge", "Hexital.purge", "Hexital.remove_indicator", "Hexital.purge()"):
        col.tick()
        cs = gen.clone(candles)
        plant(cs, name)
        ind = build(key)
        hexi = Hexital("c14", cs, [ind])
        pristine = entries(hexi.candles())
        _, exc = call(hexi.calculate)
        if exc is not None:
            break
        depths = helper_depths(ind)
        op = {"Indicator.purge": ind.purge, "Hexital.purge": lambda: hexi.purge(name), "Hexital.purge()": lambda: hexi.purge(),
              "Hexital.remove_indicator": lambda: hexi.remove_indicator(name)}[how]
        _, exc = call(op)
        now = entries(hexi.candles())
        if exc is not None:
            col.fail("purge-raises", f"{key}/{how}", "hexital.core.indicator.Indicator.purge", f"{how} raised {exc!r}",
                     dict(spec, op=how))
            continue
        left, lost = set(), set()
        for (pi, ps), (ni, ns) in zip(pristine, now):
            left |= (set(ni) - set(pi)) | (set(ns) - set(ps))
            lost |= {k for k in pi if k not in ni or ni[k] != pi[k]} | {k for k in ps if k not in ns or ns[k] != ps[k]}
        if left:
            nested = sorted(k for k in left if depths.get(k, 0) >= 2)
            group = "purge-nested-helpers" if nested and len(nested) == len(left) else "purge-leaves-entries"
            col.fail(group, "single/entries-left-behind", "hexital.core.indicator.Indicator.purge",
                     f"{key}: after calculate + {how} the candles still hold {sorted(left)} "
                     f"(helper depths {({k: depths.get(k, 0) for k in sorted(left)})})", dict(spec, op=how), tag=key)
        if lost:
            col.fail("purge-removes-foreign", "single/foreign-entries-lost", "hexital.core.indicator.Indicator.purge",
                     f"{key}: {how} removed or changed entries the indicator never wrote: {sorted(lost)}", dict(spec, op=how),
                     tag=key)
    # 4 calculate_index on computed indices
    warm = next((i for i, v in enumerate(batch) if v is not None), n - 1)
    picks = sorted({n - 1, n - 2, n // 2, min(n - 1, warm + 1), warm, max(0, warm - 1), 1})
    for i in picks:
        for via in ("Indicator", "Hexital"):
            for idx in (i, i - n):
                if via == "Hexital" and idx >= 0 and i not in (n - 1, n // 2):
                    continue
                col.tick()
                ind = build(key)
                hexi = Hexital("c14", gen.clone(candles), [ind])
                hexi.calculate()
                if idx == -1 and via == "Hexital":
                    _, exc = call(hexi.calculate_index, name)  # the default index
                    shown = f"Hexital.calculate_index({name!r})  # default index -1"
                elif via == "Hexital":
                    _, exc = call(hexi.calculate_index, name, idx)
                    shown = f"Hexital.calculate_index({name!r}, {idx})"
                else:
                    _, exc = call(ind.calculate_index, idx)
                    shown = f"Indicator.calculate_index({idx})"
                sign = "negative" if idx < 0 else "positive"
                got = list(ind.as_list())
                inp = dict(spec, op=shown, candles=n)
                if exc is not None:
                    col.fail(f"calc-index-{sign}", "single/raises", "hexital.core.indicator.Indicator.calculate_index",
                             f"{key}: {shown} on a fully calculated indicator raised {type(exc).__name__}: {exc}", inp, tag=key)
                    continue
                if got[i] != batch[i]:
                    col.fail(f"calc-index-{sign}", "single/reading-not-reproduced", "hexital.core.indicator.Indicator.calculate_index",
                             f"{key}: {shown}: reading of candle {i} was {batch[i]!r}, now {got[i]!r}", inp, tag=key)
                elif got != batch:
                    col.fail(f"calc-index-{sign}", "single/other-readings-changed", "hexital.core.indicator.Indicator.calculate_index",
                             f"{key}: {shown} changed other readings: {first_diff(batch, got)}", inp, tag=key)
                _, exc = call(hexi.calculate)
                got = list(ind.as_list())
                if exc is not None or got != batch:
                    what = f"raised {type(exc).__name__}: {exc}" if exc is not None else first_diff(batch, got)
                    if got[i] == batch[i]:  # otherwise already reported as not reproduced
                        col.fail(f"calc-index-{sign}", "single/calculate-does-not-recover",
                                 "hexital.core.indicator.Indicator.calculate_index",
                                 f"{key}: {shown} then calculate(): column differs from batch ({what})", inp, tag=key)
    return True


# ------------------------------------------------------------------------------------------------ 5 sequences
class Pool:
    def __init__(self, keys, candles):
        self.info = {}
        for key in keys:
            def go(key=key):
                ind = build(key)
                h = Hexital("probe", gen.clone(candles), [ind])
                h.calculate()
                ks = set()
                for c in h.candles():
                    ks |= set(c.indicators) | set(c.sub_indicators)
                return {"name": ind.name, "keys": ks, "nested": any(d >= 2 for d in helper_depths(ind).values())}
            res, exc = call(go)
            if exc is None:
                self.info[key] = res

    def compatible(self, a, b):
        ia, ib = self.info[a], self.info[b]
        return not (ia["keys"] & ib["keys"]) and ia["name"] not in ib["name"] and ib["name"] not in ia["name"]


def computed_upto(hexi, names, i):
    cs = hexi.candles()
    if not 0 <= i < len(cs):
        return False
    return all(all(nm in c.indicators for c in cs[: i + 1]) for nm in names)


def play(pool, start, ops, candles):
    """run the abstract op list; returns (hexital, registered keys, error or None) - error = (op position, op, exception)"""
    hexi = Hexital("seq", [], [build(k) for k in start])
    registered = list(start)
    pos = 0
    for at, op in enumerate(ops):
        kind = op[0]
        names_all = [pool.info[k]["name"] for k in registered]
        who = op[1] if len(op) > 1 else None
        if kind != "append" and kind != "add" and who is not None and who not in registered:
            continue
        target = pool.info[who]["name"] if (who is not None and kind not in ("append", "add")) else None
        try:
            if kind == "append":
                chunk = candles[pos: pos + op[1]]
                pos += len(chunk)
                if chunk:
                    hexi.append(gen.clone(chunk))
            elif kind == "calculate":
                hexi.calculate(target)
            elif kind == "purge":
                hexi.purge(target)
            elif kind == "recalculate":
                hexi.recalculate(target)
            elif kind == "calc_index":
                n = len(hexi.candles())
                off = op[3]
                i = n - 1 - off
                names = [target] if target else names_all
                if not names or not computed_upto(hexi, names, i):
                    continue  # only indices whose reading and predecessors are computed
                idx = i if op[2] == "pos" else i - n
                if target is None and idx == -1 and op[4]:
                    hexi.calculate_index()
                else:
                    hexi.calculate_index(target, idx)
            elif kind == "add":
                if who in registered or not all(pool.compatible(who, r) for r in registered):
                    continue
                hexi.add_indicator(build(who))
                registered.append(who)
            elif kind == "remove":
                if len(registered) <= 1:
                    continue
                hexi.remove_indicator(target)
                registered.remove(who)
        except Exception as e:  # noqa: BLE001
            return hexi, registered, (at, op, e)
    return hexi, registered, None


def batch_raises_too(pool, keys, candles, exc):
    """the same kind of exception when an indicator is simply computed in batch over these candles: an arithmetic
    failure of the indicator itself (other properties' subject), not a consequence of the maintenance operations"""
    for key in keys:
        ref = build(key, candles=gen.clone(candles))
        _, e = call(ref.calculate)
        if e is not None and type(e) is type(exc):
            return True
    return False


def verdicts(pool, start, ops, candles):
    """set of problems: ('raises', opkind) / ('final-raises',) / ('differs', key)"""
    hexi, registered, err = play(pool, start, ops, candles)
    if err is not None:
        fed = sum(op[1] for op in ops[: err[0] + 1] if op[0] == "append")
        if batch_raises_too(pool, registered, candles[: min(fed, len(candles))], err[2]):
            return set(), None
        return {("raises", err[1][0])}, err
    fed = sum(op[1] for op in ops if op[0] == "append")
    final = candles[: min(fed, len(candles))]
    _, exc = call(hexi.calculate)
    if exc is not None:
        if batch_raises_too(pool, registered, final, exc):
            return set(), None
        return {("final-raises",)}, (len(ops), ("final calculate",), exc)
    out = set()
    info = {}
    for key in registered:
        ref = build(key, candles=gen.clone(final))
        _, exc = call(ref.calculate)
        if exc is not None:
            continue  # the indicator cannot even be computed in batch on this stream: not C14's subject
        got = list(hexi.indicator(pool.info[key]["name"]).as_list())
        want = list(ref.as_list())
        if got != want:
            out.add(("differs", key))
            info[key] = first_diff(want, got)
    return out, info


def shrink(pool, start, ops, candles, problem):
    ops = list(ops)
    changed = True
    while changed:
        changed = False
        for i in range(len(ops) - 1, -1, -1):
            trial = ops[:i] + ops[i + 1:]
            if problem in verdicts(pool, start, trial, candles)[0]:
                ops = trial
                changed = True
    # smaller appends
    for i, op in enumerate(ops):
        if op[0] == "append":
            for k in (2, 4, 8, 12):
                if k < op[1]:
                    trial = ops[:i] + [("append", k)] + ops[i + 1:]
                    if problem in verdicts(pool, start, trial, candles)[0]:
                        ops = trial
                        break
    # fewer starting indicators
    for k in list(start):
        trial_start = [s for s in start if s != k]
        if trial_start and problem in verdicts(pool, trial_start, ops, candles)[0]:
            start = trial_start
    return start, ops


OP_CLASSES = [
    ("calc-index-positive", lambda op: op[0] == "calc_index" and op[2] == "pos"),
    ("add-remove", lambda op: op[0] in ("add", "remove")),
    ("purge", lambda op: op[0] in ("purge", "recalculate")),
    ("calc-index-negative", lambda op: op[0] == "calc_index" and op[2] == "neg"),
]


def attribute(pool, start, ops, candles, problem):
    """which class of operations is needed for the problem: drop whole classes of operations while it persists.
    returns (group, responsible function, start, reduced ops)"""
    def fails(st, o):
        return problem in verdicts(pool, st, o, candles)[0]

    key = problem[1] if problem[0] == "differs" else None
    if key is not None:
        appends = [op for op in ops if op[0] == "append"]
        if fails([key], appends):  # appends alone already end off batch: the indicator is not incremental (C01's defect)
            return "incremental-differs-from-batch", qual(key, "_calculate_reading"), [key], appends
    cur = list(ops)
    for _, member in OP_CLASSES:
        trial = [op for op in cur if not member(op)]
        if len(trial) < len(cur) and fails(start, trial):
            cur = trial
    left = {name for name, member in OP_CLASSES if any(member(op) for op in cur)}
    if "calc-index-negative" in left:
        return "calc-index-negative", "hexital.core.indicator.Indicator.calculate_index", start, cur
    if "calc-index-positive" in left:
        return "calc-index-positive", "hexital.core.indicator.Indicator.calculate_index", start, cur
    if "purge" in left or any(op[0] == "remove" for op in cur):
        involved = set()
        for op in cur:
            if op[0] in ("purge", "recalculate", "remove"):
                involved |= {op[1]} if op[1] else set(start) | {o[1] for o in cur if o[0] == "add"}
        nested = any(pool.info[k]["nested"] for k in involved if k in pool.info)
        return ("purge-nested-helpers" if nested else "purge-then-calculate-diverges"), \
            "hexital.core.indicator.Indicator.purge", start, cur
    if "add-remove" in left:
        return "add-indicator-diverges", "hexital.core.hexital.Hexital.add_indicator", start, cur
    if key is not None:
        return "incremental-differs-from-batch", qual(key, "_calculate_reading"), start, cur
    return "operation-raises", "hexital.core.indicator.Indicator.calculate", start, cur


def show_ops(pool, start, ops):
    out = [f"Hexital([], [{', '.join(start)}])"]
    for op in ops:
        if op[0] == "calc_index":
            who = op[1] or "all"
            out.append(f"calculate_index({who}, {'len-1-' + str(op[3]) if op[2] == 'pos' else -(op[3] + 1)}"
                       f"{' via default' if op[4] and op[1] is None and op[2] == 'neg' and op[3] == 0 else ''})")
        else:
            out.append(f"{op[0]}({op[1] if len(op) > 1 and op[1] is not None else ''})")
    return out + ["calculate()"]


def random_ops(rnd, pool, keys, start, length):
    ops = [("append", rnd.randint(8, 20))]
    for _ in range(length):
        r = rnd.random()
        who = rnd.choice([None] + list(keys))
        if r < 0.25:
            ops.append(("append", rnd.randint(1, 9)))
        elif r < 0.35:
            ops.append(("calculate", who))
        elif r < 0.47:
            ops.append(("purge", who))
        elif r < 0.59:
            ops.append(("recalculate", who))
        elif r < 0.82:
            ops.append(("calc_index", who, rnd.choice(["pos", "neg"]), rnd.choice([0, 0, 1, 2, 5]), rnd.random() < 0.5))
        elif r < 0.92:
            ops.append(("add", rnd.choice(keys)))
        else:
            ops.append(("remove", rnd.choice(keys)))
    return ops


def check_sequences(col, rnd, pool, count, budget, seed):
    keys_all = sorted(pool.info)
    shrunk = 0
    for s in range(count):
        # a set of mutually unrelated indicators (no shared entries, no name containing another)
        chosen = []
        for k in rnd.sample(keys_all, len(keys_all)):
            if all(pool.compatible(k, c) for c in chosen):
                chosen.append(k)
            if len(chosen) == 4:
                break
        start = chosen[: rnd.randint(1, 3)]
        kind = rnd.choice(["random", "random", "sawtooth", "falling"])
        candles = stream(kind, 70, seed=seed * 1000 + s, with_ts=False)
        ops = random_ops(rnd, pool, chosen, start, rnd.randint(3, 12))
        col.tick()
        col.scenario(("sequence", s))
        problems, _ = verdicts(pool, start, ops, candles)
        for problem in sorted(problems):
            group, fn, m_start, m_ops = attribute(pool, start, ops, candles, problem)
            if shrunk < budget:
                shrunk += 1
                m_start, m_ops = shrink(pool, m_start, m_ops, candles, problem)
            _, info = verdicts(pool, m_start, m_ops, candles)
            if problem[0] == "differs":
                key = problem[1]
                short = "sequence/ends-off-batch"
                detail = f"after the sequence and a final calculate(), {pool.info[key]['name']} differs from batch"
                if isinstance(info, dict) and key in info:
                    detail += f" ({info[key]})"
            else:
                err = info if isinstance(info, tuple) and len(info) == 3 else (None, ("?",), None)
                short = f"sequence/{err[1][0].replace(' ', '-')}-raises"
                detail = f"{err[1][0]} raised {type(err[2]).__name__}: {err[2]}"
            col.fail(group, short, fn, detail,
                     {"stream": f"oracles.c14.stream({kind!r},70,seed={seed * 1000 + s},with_ts=False)",
                      "program": show_ops(pool, m_start, m_ops), "ops": [list(o) for o in m_ops], "start": m_start},
                     tag=problem[1] if problem[0] == "differs" else None)
    return shrunk


def run(tier, seed, focus=None):
    rnd = random.Random(seed)
    col = Col(PROP, seed, focus)
    thorough = tier == "thorough"
    keys = [k for k, c in INDICATOR_MAP.items() if small_config(c) is not None]
    streams = [("random", 40), ("sawtooth", 33)] if not thorough else [("random", 40), ("sawtooth", 33), ("falling", 52), ("random", 90)]
    usable = set()
    for kind, n in streams:
        candles = stream(kind, n, seed=seed, with_ts=False)
        text = f"oracles.c14.stream({kind!r},{n},seed={seed},with_ts=False)"
        for key in keys:
            if check_class(col, key, candles, text):
                usable.add(key)
            col.scenario(("class", key, kind))
    col.note(f"per class ({len(usable)}/{len(keys)} computable): calculate twice, recalculate, purge x3 routes with planted "
             f"foreign entries, calculate_index at 7 indices x positive/negative x Indicator/Hexital (+ default index)")
    for key in [k for k in ("EMA", "RSI", "MACD", "ATR", "KC") if k in usable]:
        check_derived_index(col, key, seed)
    pool = Pool(sorted(usable), stream("random", 40, seed=seed, with_ts=False))
    n_seq = 6000 if thorough else 700
    shrunk = check_sequences(col, rnd, pool, n_seq, 160 if thorough else 40, seed)
    col.note(f"{n_seq} random operation sequences (3-12 operations after a first append) on Hexitals of 1-3 of 4 mutually "
             f"unrelated indicators, compared with batch after a final calculate(); {shrunk} failing sequences shrunk")
    bound = (f"{len(keys)} INDICATOR_MAP classes with small parameters on {len(streams)} stream(s) of 33-52 candles for the "
             f"per-operation checks; {n_seq} random sequences over append(1-20 candles)/calculate/purge/recalculate/"
             f"calculate_index(+-, offsets 0,1,2,5 from the end, only on computed prefixes)/add_indicator/remove_indicator "
             f"with up to 70 candles, sets restricted to indicators without shared entries or nested names; seed {seed}")
    return col.result(bound)
