"""C15 bounded oracle: candles_lifespan keeps exactly the window [newest - lifespan, newest] and leaves readings unchanged.

clause 1  after construction and after every append, CandleManager/Indicator/Hexital candles == ref_store.trim(reference
          series so far, lifespan) where the reference series is the raw stream, ref_store.resample(..) or fill(resample(..)).
clause 2  for every indicator class: readings on retained candles == readings of an untrimmed twin fed with the same schedule,
          in scenarios where every newly added candle keeps a generous look-back (>= spec.lookback candles, which is at
          least 2x the sum of the period parameters + 10) inside the retained window at the time it is computed. Scenarios where
          that precondition does not hold are skipped, never reported.
"""
from __future__ import annotations

import random
from datetime import timedelta

from hexital.core.candle_manager import CandleManager

from oracles import gen
from oracles import ref_store as R

PROP = "C15"
FN_TRIM = "hexital.core.candle_manager.CandleManager.trim_candles"
FN_CALC = "hexital.core.indicator.Indicator.calculate"


# ----------------------------------------------------------------------------- clause 1
def _build(via, candles, tf, fill, lifespan):
    if via == "manager":
        m = CandleManager(candles, candles_lifespan=lifespan, timeframe=tf, timeframe_fill=fill)
        return m, (lambda: m.candles)
    if via == "indicator":
        from hexital.indicators import EMA

        ind = EMA(candles=candles, period=3, candles_lifespan=lifespan, timeframe=tf, timeframe_fill=fill)
        return ind, (lambda: ind.candles)
    if via == "hexital":
        from hexital import EMA, Hexital

        hx = Hexital("oracle", candles, [EMA(period=3)], candles_lifespan=lifespan, timeframe=tf, timeframe_fill=fill)
        return hx, (lambda: hx.candles())
    raise ValueError(via)


def clause1(rep, rnd, thorough):
    tfs = [None, "T5", "S45", "H1", "T1", "D1"] if thorough else [None, "T5", "S45", "H1"]
    n_streams = 6 if thorough else 2
    for tf in tfs:
        tf_s = R.tf_seconds(tf) if tf else 60
        spans = [0, tf_s // 2, tf_s, 3 * tf_s, 10 * tf_s, 25 * tf_s + 7]
        for fill in (False, True) if tf else (False,):
            for mode in ("mixed", "dense", "gaps", "dups"):
                for si in range(n_streams):
                    sseed = rnd.randrange(1 << 30)
                    srnd = random.Random(sseed)
                    n = (60, 25, 9, 100, 3, 40)[si % 6]
                    stream = R.ts_stream(random.Random(sseed), n, tf_s, si % 2 == 0, mode)
                    span = spans[(si + MODES_IDX[mode]) % len(spans)] if not thorough else srnd.choice(spans)
                    lifespan = timedelta(seconds=span)
                    for sched_label, ctor_first, parts in (
                        ("ctor-all", True, [n]),
                        ("append-ones", False, [1] * n),
                        ("append-rnd", False, R.random_chunks(n, srnd)),
                        ("ctor-prefix-rnd", True, R.random_chunks(n, srnd, 11)),
                    ):
                        via = ("manager", "indicator", "hexital")[(si + len(parts)) % 3] if sched_label != "append-ones" else "manager"
                        did = f"window/{tf}/fill={int(fill)}/{mode}/life={span}s/n{n}/{sched_label}/{via}/s{si}"
                        if not rep.wants([did]):
                            continue
                        rep.checked += 1
                        inp = {
                            "timeframe": tf,
                            "timeframe_fill": fill,
                            "candles_lifespan_seconds": span,
                            "via": via,
                            "stream": {"generator": "oracles.ref_store.ts_stream", "seed": sseed, "n": n, "tf_seconds": tf_s, "on_boundary": si % 2 == 0, "mode": mode},
                            "schedule": sched_label,
                            "chunks": parts[:30],
                        }
                        chunks = R.split(stream, parts)
                        trimmed_something = False
                        try:
                            fed = 0
                            obj = None
                            for ci, ch in enumerate(chunks):
                                if ci == 0:
                                    obj, view = _build(via, R.to_candles(ch) if ctor_first else [], tf, fill, lifespan)
                                    if not ctor_first:
                                        obj.append(R.to_candles(ch))
                                else:
                                    obj.append(R.to_candles(ch))
                                fed += len(ch)
                                series = stream[:fed]
                                if tf:
                                    series = R.resample(series, tf_s)
                                    if fill:
                                        series = R.fill(series, tf_s)
                                want = R.trim(series, lifespan)
                                trimmed_something = trimmed_something or len(want) < len(series)
                                got = R.rows(view())
                                d = R.first_row_diff(got, want)
                                if d:
                                    inp["after_feeding"] = fed
                                    inp["first_diff"] = {"candle": d[0], "key": d[1]}
                                    kind = "trim-window-size" if d[1] == "length" else "trim-window-" + d[1]
                                    rep.fail(
                                        kind,
                                        did,
                                        FN_TRIM,
                                        f"after {fed} candles: retained candle {d[0]} {d[1]}: hexital={R.short(d[2])} reference={R.short(d[3])} ({len(got)} vs {len(want)} retained)",
                                        inp,
                                        "window",
                                    )
                                    break
                        except Exception as e:  # noqa
                            rep.fail("trim-raises-" + type(e).__name__.lower(), did, FN_TRIM, f"{type(e).__name__}: {e}"[:300], inp, "window")
                        if trimmed_something:
                            rep.distinct += 1
                            rep.sample(did, 4)


MODES_IDX = {"mixed": 0, "dense": 1, "gaps": 2, "dups": 3}


# ----------------------------------------------------------------------------- clause 2
def clause2(rep, seed, thorough):
    specs, notes = R.indicator_specs(thorough)
    rep.notes.extend(notes)
    only = rep.focus_group()
    kinds = ["random", "gappy", "dup"] if thorough else ["random", "gappy"]
    cfgs = [(None, False), ("T5", False), ("T5", True), ("S30", True)] if thorough else [(None, False), ("T5", True)]
    skipped_pre = 0
    for spec in specs:
        if only and not (only.startswith(spec.slug + "-") or only.startswith("trim-")):
            continue
        for tf, fill in cfgs:
            tf_s = R.tf_seconds(tf) if tf else 60
            for kind in kinds:
                sseed = R.sub_seed(seed, spec.label, tf, fill, kind)
                step = timedelta(seconds=max(10, tf_s // 3)) if tf else timedelta(minutes=1)
                per_bucket = 1 if not tf else max(1, tf_s // int(step.total_seconds()))
                n_out = 2 * spec.lookback + 8 + 45  # candles on the indicator's timeframe: ~45 appends happen with trimming active
                n = n_out * per_bucket
                stream = gen.stream(kind, n, sseed, step=step)
                # a lifespan that keeps about 2*lookback+8 candles of the indicator's timeframe
                lifespan = timedelta(seconds=(2 * spec.lookback + 8) * (tf_s if tf else 60) * (3 if kind == "gappy" and not fill else 1))
                srnd = random.Random(sseed)
                scheds = [("ones", 0, [1] * n), ("rnd", 0, R.random_chunks(n, srnd, 5))]
                pre = per_bucket * (spec.lookback + 3)
                if kind == "gappy" and fill:
                    pre = max(2 * per_bucket, pre // 3)  # filled gaps multiply the pre-loaded candles; keep them inside the lifespan
                scheds.append(("pre+rnd", pre, R.random_chunks(n - pre, srnd, 5)))
                if not thorough:
                    scheds = [scheds[(len(kind) + (tf is not None)) % 3], scheds[2]] if tf is None else [scheds[1]]
                elif tf is not None:
                    scheds = scheds[1:]
                for label, pre_n, parts in scheds:
                    did = f"{spec.label}/tf={tf}/fill={int(fill)}/{kind}/{label}"
                    if not rep.wants([did]):
                        continue
                    rep.checked += 1
                    inp = dict(spec.repro())
                    inp.update(
                        {
                            "timeframe": tf,
                            "timeframe_fill": fill,
                            "candles_lifespan_seconds": lifespan.total_seconds(),
                            "stream": {"generator": "oracles.gen.stream", "kind": kind, "n": n, "seed": sseed, "step_seconds": step.total_seconds()},
                            "preloaded": pre_n,
                            "schedule": label,
                            "chunks": parts[:30],
                        }
                    )
                    status = _twin_run(rep, spec, tf, fill, lifespan, stream, pre_n, parts, did, inp)
                    if status == "precondition":
                        skipped_pre += 1
                    elif status == "trimmed":
                        rep.distinct += 1
                        rep.sample(did, 8)
    return len(specs), skipped_pre


def _twin_run(rep, spec, tf, fill, lifespan, stream, pre_n, parts, did, inp):
    cfg = {"timeframe": tf, "timeframe_fill": fill} if tf else {}
    if pre_n:
        # a pre-loaded list that already exceeds the lifespan is trimmed before anything is calculated: its first retained
        # candles have no look-back at all -> outside clause 2
        whole = CandleManager(gen.clone(stream[:pre_n]), **cfg)
        cut = CandleManager(gen.clone(stream[:pre_n]), candles_lifespan=lifespan, **cfg)
        if len(cut.candles) < len(whole.candles):
            return "precondition"
    try:
        twin = spec.build(gen.clone(stream[:pre_n]), **cfg)
        twin.calculate()
        twin_exc = None
    except Exception as e:  # noqa
        twin_exc = e
    try:
        live = spec.build(gen.clone(stream[:pre_n]), candles_lifespan=lifespan, **cfg)
        live.calculate()
        live_exc = None
    except Exception as e:  # noqa
        live_exc = e
    if twin_exc or live_exc:
        if type(twin_exc) is type(live_exc):
            return "both-raise"
        rep.fail(f"{spec.slug}-trim-raises", did, spec.qualname(), f"trimmed run: {live_exc!r}; untrimmed twin: {twin_exc!r}", inp, spec.slug)
        return "fail"
    if len(live.candles) < len(twin.candles):
        # the pre-loaded list itself exceeded the lifespan: its first retained candles were computed without any look-back
        return "precondition"
    trimmed = False
    i = pre_n
    for k in parts:
        chunk = stream[i : i + k]
        i += k
        before = len(twin.candles)
        t_exc = l_exc = None
        try:
            twin.append(gen.clone(chunk))
        except Exception as e:  # noqa
            t_exc = e
        try:
            live.append(gen.clone(chunk))
        except Exception as e:  # noqa
            l_exc = e
        if t_exc or l_exc:
            if type(t_exc) is type(l_exc):
                return "both-raise"
            inp["after_feeding"] = i
            rep.fail(f"{spec.slug}-trim-raises", did, spec.qualname(), f"after {i} candles trimmed run: {l_exc!r}; untrimmed twin: {t_exc!r}", inp, spec.slug)
            return "fail"
        kept = len(live.candles)
        if kept < len(twin.candles):
            trimmed = True
            # precondition of clause 2: candles that were (re)computed in this append keep spec.lookback predecessors inside
            # the surviving window. (Re)computed = candles added on the indicator's timeframe (incl. fill candles) + the
            # re-opened last bucket.
            if kept - (len(twin.candles) - before + 1) < spec.lookback:
                return "precondition"
        a = R.snapshot(live.candles)
        b = R.snapshot(twin.candles[len(twin.candles) - kept :]) if kept else []
        d = R.first_snap_diff(a, b)
        if d:
            inp["after_feeding"] = i
            inp["first_diff"] = {"retained_index": d[0], "key": d[1]}
            if d[1] in R._FIELDS or d[1] == "length":
                rep.fail("trim-window-vs-twin", did, FN_TRIM, f"after {i} candles retained candle {d[0]} {d[1]}: trimmed={R.short(d[2])} twin={R.short(d[3])}", inp, spec.slug)
            else:
                rep.fail(
                    f"{spec.slug}-trim-readings",
                    did,
                    spec.qualname(),
                    f"after {i} candles, retained candle {d[0]} of {kept} (twin index {len(twin.candles) - kept + d[0]}) {d[1]}: trimmed={R.short(d[2])} untrimmed={R.short(d[3])}",
                    inp,
                    spec.slug,
                )
            return "fail"
    return "trimmed" if trimmed else "untrimmed"


# ----------------------------------------------------------------------------- clause 3: survivors keep their readings
def clause3(rep, seed, thorough):
    """short lifespans and every chunk size: a candle that was already in the list and survives the trim keeps every stored
    reading exactly (it was computed when its look-back was still there; nothing may recompute it later from less)"""
    specs, _ = R.indicator_specs(False)
    pick = [s for s in specs if s.label.split("(")[0].split("[")[0] in ("EMA", "RMA", "ATR", "OBV", "RSI", "MACD", "SMA", "TR", "VWAP", "STDEV", "ADX")] or specs[:8]
    runs = 0
    for spec in pick if thorough else pick[:7]:
        for minutes in (1, 2, 5):
            for k in range(1, 8):
                did = f"survivors/{spec.label}/lifespan={minutes}m/chunks-of-{k}"
                if not rep.wants([did]):
                    continue
                rep.checked += 1
                sseed = R.sub_seed(seed, spec.label, minutes, k, "surv")
                stream = gen.stream("random", 6 * k + 24, sseed)
                inp = dict(spec.repro())
                inp.update({"candles_lifespan_seconds": minutes * 60, "stream": {"generator": "oracles.gen.stream", "kind": "random", "n": len(stream), "seed": sseed},
                            "schedule": f"chunks of {k}"})
                try:
                    live = spec.build([], candles_lifespan=timedelta(minutes=minutes))
                    pos = 0
                    while pos < len(stream):
                        before = {c.timestamp: R.snapshot([c])[0] for c in live.candles}
                        live.append(gen.clone(stream[pos: pos + k]))
                        pos += k
                        for c in live.candles:
                            old = before.get(c.timestamp)
                            if old is None:
                                continue
                            d = R.first_snap_diff([R.snapshot([c])[0]], [old])
                            if d:
                                inp["after_feeding"] = pos
                                rep.fail(f"{spec.slug}-survivor-recomputed", did, FN_CALC,
                                         f"after {pos} candles the retained candle {c.timestamp} changed {d[1]}: now {R.short(d[2])}, before the append {R.short(d[3])}",
                                         inp, spec.slug)
                                raise StopIteration
                    runs += 1
                    rep.distinct += 1
                except StopIteration:
                    pass
                except Exception:  # the indicator raising on tiny windows is C09's subject
                    continue
    # purely recursive indicators (one predecessor suffices once warm): warm up one by one, then chunks of exactly
    # window-1 candles, so that each trim leaves ONE calculated candle in front of the new ones; retained readings
    # must equal those of an untrimmed twin
    recursive = [s for s in specs if s.label.split("(")[0].split("[")[0] in ("EMA", "RMA", "MACD", "KC", "RSI", "ATR", "OBV", "ADX", "TSI", "Supertrend")]
    for spec in recursive:
        for minutes in ((6, 10, 15) if thorough else (10,)):
            did = f"window-minus-one/{spec.label}/lifespan={minutes}m"
            if not rep.wants([did]):
                continue
            rep.checked += 1
            sseed = R.sub_seed(seed, spec.label, minutes, "wm1")
            warm = spec.lookback + minutes + 2
            stream = gen.stream("random", warm + 4 * minutes, sseed)
            inp = dict(spec.repro())
            inp.update({"candles_lifespan_seconds": minutes * 60, "stream": {"generator": "oracles.gen.stream", "kind": "random", "n": len(stream), "seed": sseed},
                        "schedule": f"{warm} candles one by one, then chunks of {minutes}"})
            try:
                live = spec.build([], candles_lifespan=timedelta(minutes=minutes))
                twin = spec.build([])
                for c in stream[:warm]:
                    live.append(gen.clone([c]))
                    twin.append(gen.clone([c]))
                pos = warm
                while pos < len(stream):
                    live.append(gen.clone(stream[pos: pos + minutes]))
                    twin.append(gen.clone(stream[pos: pos + minutes]))
                    pos += minutes
                    a = R.snapshot(live.candles)
                    b = R.snapshot(twin.candles[len(twin.candles) - len(live.candles):])
                    d = R.first_snap_diff(a, b)
                    if d:
                        inp["after_feeding"] = pos
                        rep.fail(f"{spec.slug}-trim-readings", did, FN_CALC,
                                 f"after {pos} candles, retained candle {d[0]} of {len(live.candles)} {d[1]}: trimmed={R.short(d[2])} untrimmed={R.short(d[3])}", inp, spec.slug)
                        break
                else:
                    runs += 1
                    rep.distinct += 1
            except Exception:
                continue
    return runs


def run(tier, seed, focus=None):
    R.force_utc()
    rep = R.Report(PROP, seed, focus)
    rnd = random.Random(seed)
    thorough = tier == "thorough"
    clause1(rep, rnd, thorough)
    nspecs, skipped = clause2(rep, seed, thorough)
    nsurv = clause3(rep, seed, thorough)
    bound = (
        f"Clause 3: {nsurv} runs: lifespans of 1/2/5 minutes with chunks of 1..7 one-minute candles (every candle that survives a trim "
        "keeps every stored reading exactly), and purely recursive indicators warmed up one by one and then fed chunks of exactly window-1 "
        "candles (retained readings equal an untrimmed twin). " + ""
    ) + (
        "TZ=UTC. Clause 1: timeframes none/T5/S45/H1"
        + ("/T1/D1" if thorough else "")
        + " with and without fill, 4 timestamp modes (duplicates, multi-bucket gaps), lifespans {0, tf/2, tf, 3tf, 10tf, 25tf+7s}, "
        "schedules construction / one-by-one / random chunks / prefix+chunks via CandleManager, Indicator and Hexital; window compared "
        "with ref_store.trim after construction and after EVERY append. "
        f"Clause 2: {nspecs} indicator configurations (every INDICATOR_MAP class + Amorph wrappers of every movement/pattern "
        "function), streams random/gappy" + ("/dup" if thorough else "") + ", timeframe/fill in "
        + ("{none, T5, T5+fill, S30+fill}" if thorough else "{none, T5+fill}")
        + ", lifespan = 2*lookback+8 candles with lookback >= 2*sum(periods)+10, chunks of <= 5 candles from an empty or pre-loaded "
        f"indicator; readings (indicators and sub_indicators) on retained candles compared exactly with an untrimmed twin after "
        f"every append; {skipped} scenarios skipped because the look-back precondition was not clearly met."
    )
    return rep.result(bound)
