"""C20 bounded stand-in: all ways of asking for a reading give the same answer.

Hexitals holding scalar and dict-valued indicators on several timeframes (real indicators on crafted streams
that legitimately read 0 / 0.0 / False, a scripted Indicator subclass emitting chosen values, and readings
injected directly into candle.indicators).  For every name (plain and dotted) and every in-range index
(positive and negative) the accessors are compared with direct inspection of the candle:
  Indicator.reading / prev_reading / as_list / read_candle / has_reading / reading_count,
  Hexital.reading / prev_reading / reading_as_list / has_reading.
"""
import json
import random
from copy import deepcopy
from dataclasses import dataclass, field

from hexital import Hexital
from hexital.core.indicator import Indicator
from hexital.indicators import INDICATOR_MAP

from oracles import gen

PROP = "C20"


def stream(kind, n, seed=0, **kw):
    """gen.stream (deterministic per seed); kept as a named entry point because reproducers refer to it"""
    return gen.stream(kind, n, seed=seed, **kw)

PRICE = ("open", "high", "low", "close", "volume")


class Col:
    def __init__(self, prop, seed, focus):
        self.prop, self.seed, self.focus = prop, seed, focus
        self.checked = 0
        self.scen = set()
        self.cases = []
        self.f = {}
        self.cnt = {}
        self.shorts = {}

    def tick(self, n=1):
        self.checked += n

    def scenario(self, key):
        self.scen.add(key)

    def note(self, text):
        if len(self.cases) < 12 and text not in self.cases:
            self.cases.append(text)

    def fail(self, group, short, function, detail, inp):
        case = f"{self.prop}:{group}:{short}"
        if self.focus and not case.startswith(self.focus):
            return
        key = (group, function)
        self.cnt[key] = self.cnt.get(key, 0) + 1
        self.shorts.setdefault(key, {}).setdefault(short, 0)
        self.shorts[key][short] += 1
        size = len(json.dumps(inp, default=str))
        cur = self.f.get(case)
        if cur is None:
            if sum(1 for e in self.f.values() if e["_key"] == key) >= 3:
                return
        elif size >= cur["_size"]:
            return
        self.f[case] = {"case": case, "function": function, "seed": self.seed, "detail": str(detail)[:400],
                        "input": inp, "_key": key, "_size": size}

    def result(self, bound):
        fails = []
        for e in sorted(self.f.values(), key=lambda e: e["case"]):
            n = self.cnt[e["_key"]]
            e0 = e
            e = {k: v for k, v in e.items() if not k.startswith("_")}
            e["detail"] += f" [{n} failing evaluations in this (group, function)"
            kept = {x["case"].split(":", 2)[2] for x in self.f.values() if x["_key"] == e0["_key"]}
            rest = [f"{s}({c})" for s, c in sorted(self.shorts[e0["_key"]].items()) if s not in kept]
            e["detail"] += (f"; cases not listed separately: {', '.join(rest[:14])}" + ("..." if len(rest) > 14 else "") if rest else "") + "]"
            fails.append(e)
        return {"status": "ok", "checked": self.checked, "distinct": len(self.scen), "bound": bound,
                "failures": fails, "cases": self.cases}


@dataclass(kw_only=True)
class Scripted(Indicator):
    """emits values[index % len(values)] - a legitimate user-defined indicator"""

    _name: str = field(init=False, default="SCR")
    label: str = "s"
    values: tuple = (0,)

    def _generate_name(self) -> str:
        return f"SCR_{self.label}"

    def _calculate_reading(self, index: int):
        return deepcopy(self.values[index % len(self.values)])


SCALAR_SCRIPT = (None, 0, 1.5, 0.0, False, True, -2, None, 0)
DICT_SCRIPT = (None, {"a": 0, "b": None, "c": False}, {"a": 1.25, "b": 0.0, "c": True}, {"a": None, "b": None, "c": None})

M = INDICATOR_MAP
POOL = [
    ("OBV", lambda tf: M["OBV"](timeframe=tf)),
    ("COUNT+", lambda tf: M["Counter"](input_value="positive", timeframe=tf)),
    ("STDEVTHRES", lambda tf: M["STDEVTHRES"](period=4, timeframe=tf)),
    ("TR", lambda tf: M["TR"](timeframe=tf)),
    ("ROC", lambda tf: M["ROC"](period=3, timeframe=tf)),
    ("EMA", lambda tf: M["EMA"](period=3, timeframe=tf)),
    ("STDEV", lambda tf: M["STDEV"](period=5, timeframe=tf)),
    ("MACD", lambda tf: M["MACD"](fast_period=2, slow_period=4, signal_period=2, timeframe=tf)),
    ("BBANDS", lambda tf: M["BBANDS"](period=4, timeframe=tf)),
    ("Supertrend", lambda tf: M["Supertrend"](period=3, timeframe=tf)),
    ("aroon", lambda tf: M["aroon"](period=3, timeframe=tf)),
    ("HL", lambda tf: M["HL"](period=4, timeframe=tf)),
    ("donchian", lambda tf: M["donchian"](period=4, timeframe=tf)),
    ("KC", lambda tf: M["KC"](period=3, timeframe=tf)),
    ("VWAP", lambda tf: M["VWAP"](timeframe=tf)),
    ("SCR_s", lambda tf: Scripted(label="s", values=SCALAR_SCRIPT, timeframe=tf)),
    ("SCR_d", lambda tf: Scripted(label="d", values=DICT_SCRIPT, timeframe=tf)),
]
INJECT = [0, 0.0, False, None, "absent", 2.5, True]
INJECT_D = [None, "absent", {"a": 0, "b": None, "c": False, "d": 1.5}, {"a": 0.0, "b": 2, "c": None, "d": False}]
# helper-name collisions between a composite and a top-level indicator are C13's subject: never combine these
CONFLICTS = [{"TR", "KC"}, {"TR", "Supertrend"}]


def direct(candle, name):
    """what is stored on the candle under `name` (plain or main.field)"""
    main, _, sub = name.partition(".")
    if main in PRICE:
        v = getattr(candle, main)
    elif main in candle.indicators:
        v = candle.indicators[main]
    elif main in candle.sub_indicators:
        v = candle.sub_indicators[main]
    else:
        v = None
    if sub:
        return v.get(sub) if isinstance(v, dict) else None
    return v


def same(a, b):
    if a is None or b is None:
        return a is b
    return a == b and type(a) is type(b)


def call(fn, *a, **k):
    try:
        return fn(*a, **k), None
    except Exception as e:  # noqa: BLE001
        return None, e


def trailing(values):
    n = 0
    for v in reversed(values):
        if v is None:
            break
        n += 1
    return n


def zero_like(v):
    return v is not None and not isinstance(v, dict) and not v


def check_state(col, hexi, spec, phase):
    """spec: description of the Hexital for reproducers"""
    managers = hexi.get_candles()
    by_tf = {}
    for nm, ind in hexi.indicators.items():
        by_tf.setdefault(ind.timeframe if ind.timeframe else "default", []).append((nm, ind))

    def fail(group, short, function, detail, name, extra=None):
        inp = dict(spec, name=name, phase=phase)
        if extra:
            inp.update(extra)
        col.fail(group, short, function, detail, inp)

    for tf, cand in managers.items():
        L = len(cand)
        members = by_tf.get(tf, [])
        any_ind = members[0][1] if members else None
        names = []
        for nm, ind in members:
            names.append((nm, ind, True, True))
            keys = []
            for c in cand:
                v = direct(c, nm)
                if isinstance(v, dict):
                    keys += [k for k in v if k not in keys]
            names += [(f"{nm}.{k}", ind, True, False) for k in keys]
        inj = f"INJ_{tf}"
        if any(inj in c.indicators for c in cand):
            names.append((inj, any_ind, False, False))
        injd = f"INJD_{tf}"
        if any(injd in c.indicators for c in cand):
            names.append((injd, any_ind, False, False))
            names += [(f"{injd}.{k}", any_ind, False, False) for k in ("a", "b", "c", "d")]
        for name, ind, registered, own_plain in names:
            col.scenario((tuple(sorted(spec["indicators"])), tf, name.split("_")[0], phase))
            want = [direct(c, name) for c in cand]
            latest = want[-1] if L else None
            # --- per index
            for j in range(L):
                for idx in (j, j - L):
                    kind = "negative-index" if idx < 0 else "positive-index"
                    if ind is not None:
                        col.tick()
                        got, exc = call(ind.reading, name, idx)
                        if exc is not None or not same(got, want[j]):
                            fail("indicator-reading-disagrees", f"Indicator.reading/{kind}",
                                 "hexital.core.indicator.Indicator.reading",
                                 f"Indicator.reading({name!r},{idx}) = {got!r} ({exc!r}); candle holds {want[j]!r}", name,
                                 {"index": idx})
                    col.tick()
                    got, exc = call(hexi.reading, name, idx)
                    if exc is not None or not same(got, want[j]):
                        fail("hexital-reading-disagrees", f"Hexital.reading/{kind}", "hexital.core.hexital.Hexital.reading",
                             f"Hexital.reading({name!r},{idx}) = {got!r} ({exc!r}); candle {j} of {tf} holds {want[j]!r}",
                             name, {"index": idx})
                if ind is not None:
                    col.tick()
                    got, exc = call(ind.read_candle, cand[j], name)
                    if exc is not None or not same(got, want[j]):
                        fail("read-candle-disagrees", "Indicator.read_candle", "hexital.core.indicator.Indicator.read_candle",
                             f"read_candle(candle {j},{name!r}) = {got!r} ({exc!r}); candle holds {want[j]!r}", name)
            # --- lists
            if ind is not None:
                col.tick()
                got, exc = call(ind.as_list, name)
                if exc is not None or len(got) != L or any(not same(a, b) for a, b in zip(got, want)):
                    fail("as-list-disagrees", "Indicator.as_list", "hexital.core.indicator.Indicator.as_list",
                         f"as_list({name!r}) = {got!r} ({exc!r}); candles hold {want!r}", name)
            if registered:
                col.tick()
                got, exc = call(hexi.reading_as_list, name)
                if exc is not None or len(got) != L or any(not same(a, b) for a, b in zip(got, want)):
                    fail("reading-as-list-disagrees", "Hexital.reading_as_list", "hexital.core.hexital.Hexital.reading_as_list",
                         f"reading_as_list({name!r}) = {got!r} ({exc!r}); candles hold {want!r}", name)
            # --- latest / previous (the indicator has just been calculated: its position is the latest candle)
            prev = want[-2] if L >= 2 else None
            if ind is not None and phase == "fresh":
                if L:
                    col.tick()
                    got, exc = call(ind.reading, name)
                    if exc is not None or not same(got, latest):
                        fail("indicator-reading-disagrees", "Indicator.reading/default-index",
                             "hexital.core.indicator.Indicator.reading",
                             f"Indicator.reading({name!r}) = {got!r} ({exc!r}); latest candle holds {latest!r}", name)
                col.tick()
                got, exc = call(ind.prev_reading, name)
                if exc is not None or not same(got, prev):
                    fail("prev-reading-disagrees", "Indicator.prev_reading", "hexital.core.indicator.Indicator.prev_reading",
                         f"Indicator.prev_reading({name!r}) = {got!r} ({exc!r}); previous candle holds {prev!r}", name)
            col.tick(2)
            got, exc = call(hexi.reading, name)
            if exc is not None or not same(got, latest):
                fail("hexital-reading-disagrees", "Hexital.reading/default-index", "hexital.core.hexital.Hexital.reading",
                     f"Hexital.reading({name!r}) = {got!r} ({exc!r}); latest candle of {tf} holds {latest!r}", name)
            got, exc = call(hexi.prev_reading, name)
            if exc is not None or not same(got, prev):
                fail("prev-reading-disagrees", "Hexital.prev_reading", "hexital.core.hexital.Hexital.prev_reading",
                     f"Hexital.prev_reading({name!r}) = {got!r} ({exc!r}); previous candle of {tf} holds {prev!r}", name)
            # --- has_reading
            col.tick()
            got, exc = call(hexi.has_reading, name)
            if exc is not None or got is not (latest is not None):
                group = "has-reading-zero" if zero_like(latest) else "hexital-has-reading-wrong"
                source = "indicator-reading" if registered else "injected-reading"
                fail(group, f"Hexital.has_reading/{source}{'-dotted' if '.' in name else ''}", "hexital.core.hexital.Hexital.has_reading",
                     f"Hexital.has_reading({name!r}) = {got!r} ({exc!r}) while the latest reading is {latest!r} "
                     f"({type(latest).__name__})", name)
            if ind is not None and own_plain:
                col.tick()
                got, exc = call(lambda: ind.has_reading)
                if exc is not None or got is not (latest is not None):
                    group = "has-reading-active-index" if phase != "fresh" else "indicator-has-reading-wrong"
                    fail(group, f"Indicator.has_reading/{phase}", "hexital.core.indicator.Indicator.has_reading",
                         f"Indicator.has_reading = {got!r} ({exc!r}) while the latest reading is {latest!r} "
                         f"(indicator position {ind._active_index}, {L} candles)", name)
            # --- reading_count
            if ind is not None:
                col.tick()
                got, exc = call(ind.reading_count, name)
                if exc is not None or got != trailing(want):
                    fail("reading-count-disagrees", "Indicator.reading_count", "hexital.core.indicator.Indicator.reading_count",
                         f"reading_count({name!r}) = {got!r} ({exc!r}); {trailing(want)} trailing candles have a reading "
                         f"(column {want!r})", name)


def build(rnd, kind, n, picks, stream_seed):
    candles = stream(kind, n, seed=stream_seed)
    inds = []
    kept = []
    seen = set()
    used = set()
    for label, tf in picks:
        ind = dict(POOL)[label](tf)
        if ind.name in seen or any({label, other} in CONFLICTS for other, otf in used if otf == tf):
            continue
        used.add((label, tf))
        kept.append(f"{label}@{tf or 'default'}")
        seen.add(ind.name)
        inds.append(ind)
    hexi = Hexital("c20", candles, inds)
    hexi.calculate()
    return hexi, kept


def inject(rnd, hexi):
    for tf, cand in hexi.get_candles().items():
        for c in cand:
            for key, pool in ((f"INJ_{tf}", INJECT), (f"INJD_{tf}", INJECT_D)):
                v = rnd.choice(pool)
                if not (isinstance(v, str) and v == "absent"):
                    c.indicators[key] = deepcopy(v)
        if cand and rnd.random() < 0.6:
            cand[-1].indicators[f"INJ_{tf}"] = rnd.choice([0, 0.0, False, 2.5])
            cand[-1].indicators[f"INJD_{tf}"] = deepcopy(rnd.choice(INJECT_D[2:]))


def run(tier, seed, focus=None):
    rnd = random.Random(seed)
    col = Col(PROP, seed, focus)
    thorough = tier == "thorough"
    n_scen = 3000 if thorough else 300
    kinds = ["random", "flat", "zerovol", "sawtooth", "rising", "falling", "random", "gappy"]
    skipped = 0
    for s in range(n_scen):
        kind = kinds[s % len(kinds)]
        n = rnd.choice([0, 1, 2, 3, 7, 12, 19, 26, 33, 47])
        k = rnd.randint(3, 7)
        labels = rnd.sample([p[0] for p in POOL], k)
        picks = [(lb, rnd.choice([None, None, "T5", "T10"])) for lb in labels]
        if s % 3 == 0:
            picks.append((labels[0], "T5"))
        spec = {"stream": f"oracles.c20.stream({kind!r},{n},seed={seed})",
                "indicators": [f"{lb}@{tf or 'default'}" for lb, tf in picks]}
        try:
            hexi, spec["indicators"] = build(rnd, kind, n, picks, seed)
        except Exception as e:  # noqa: BLE001 - arithmetic failures of an indicator are other properties' subject
            skipped += 1
            col.note(f"skipped (indicator raised while calculating: {type(e).__name__}) {spec['indicators']} on {kind}")
            # retry without the indicators that can divide by zero on degenerate streams
            picks = [(lb, tf) for lb, tf in picks if lb in ("OBV", "COUNT+", "TR", "EMA", "SCR_s", "SCR_d", "HL", "VWAP")]
            if not picks:
                continue
            try:
                hexi, spec["indicators"] = build(rnd, kind, n, picks, seed)
            except Exception:  # noqa: BLE001
                continue
        inject(rnd, hexi)
        check_state(col, hexi, spec, "fresh")
        col.note(f"{spec['stream']} with {spec['indicators']}: every name/dotted name, every index +/-")
        # state after recomputing an early index whose reading is reproduced (public Hexital/Indicator.calculate_index)
        for nm, ind in list(hexi.indicators.items()):
            if len(ind.candles) < 3:
                continue
            col_before = ind.as_list()
            if col_before[0] is not None or col_before[-1] is None:
                continue
            snapshot = [(dict(c.indicators), dict(c.sub_indicators)) for c in ind.candles]
            _, exc = call(ind.calculate_index, 0)
            unchanged = exc is None and all(
                (c.indicators, c.sub_indicators) == snap for c, snap in zip(ind.candles, snapshot))
            if not unchanged:
                # recomputation itself misbehaved (C14's subject): restore and do not judge has_reading on it
                for c, (a, b) in zip(ind.candles, snapshot):
                    c.indicators.clear(), c.indicators.update(a), c.sub_indicators.clear(), c.sub_indicators.update(b)
                ind.calculate()
        check_state(col, hexi, dict(spec, then="calculate_index(0) on every indicator whose reading 0 is None"),
                    "after-calculate-index-0")
    bound = (f"{n_scen} Hexitals x 3-8 indicators drawn from {len(POOL)} configurations (scalar: OBV, Counter, STDEVTHRES, "
             f"TR, ROC, EMA, STDEV, VWAP, scripted 0/0.0/False/None; dict-valued: MACD, BBANDS, Supertrend, AROON, HL, "
             f"Donchian, KC, scripted) on timeframes default/T5/T10 x streams {sorted(set(kinds))} of 0..47 candles, plus "
             f"injected readings per timeframe; every plain/dotted name x every index positive and negative; again "
             f"after calculate_index(0); {skipped} builds reduced because an indicator raised; seed {seed}")
    return col.result(bound)
