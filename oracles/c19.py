"""C19 bounded stand-in: reading state and converting input have no hidden side effects.

  A  every read-only accessor of every INDICATOR_MAP class (and of a multi-timeframe Hexital) is called on objects
     in several states; a deep structural snapshot of vars() (managers, candles, helper indicators included) must be
     identical before/after, and a following append must give the same result as on a twin that was never read
  B  random interleavings of accessors with appends end in the same state as appends alone
  C  the same stream fed as Candle / dict / list (timestamp last) / lists of those gives identical candles and
     readings (standalone indicators and multi-timeframe Hexitals); the caller's dicts and lists are unchanged
"""
import inspect
import json
import random
from copy import deepcopy
from datetime import datetime, timedelta

from hexital import Hexital
from hexital.analysis import movement
from hexital.core.candle import Candle
from hexital.indicators import INDICATOR_MAP

from oracles import gen

PROP = "C19"
RAISED = {}


class Col:
    def __init__(self, prop, seed, focus):
        self.prop, self.seed, self.focus = prop, seed, focus
        self.checked = 0
        self.scen = set()
        self.cases = []
        self.f = {}
        self.cnt = {}
        self.shorts = {}

    def tick(self, n=1):
        self.checked += n

    def scenario(self, key):
        self.scen.add(key)

    def note(self, text):
        if len(self.cases) < 12 and text not in self.cases:
            self.cases.append(text)

    def fail(self, group, short, function, detail, inp):
        case = f"{self.prop}:{group}:{short}"
        if self.focus and not case.startswith(self.focus):
            return
        key = (group, function)
        self.cnt[key] = self.cnt.get(key, 0) + 1
        self.shorts.setdefault(key, {}).setdefault(short, 0)
        self.shorts[key][short] += 1
        size = len(json.dumps(inp, default=str))
        cur = self.f.get(case)
        if cur is None:
            if sum(1 for e in self.f.values() if e["_key"] == key) >= 3:
                return
        elif size >= cur["_size"]:
            return
        self.f[case] = {"case": case, "function": function, "seed": self.seed, "detail": str(detail)[:400],
                        "input": inp, "_key": key, "_size": size}

    def result(self, bound):
        fails = []
        for e in sorted(self.f.values(), key=lambda e: e["case"]):
            n = self.cnt[e["_key"]]
            e0 = e
            e = {k: v for k, v in e.items() if not k.startswith("_")}
            e["detail"] += f" [{n} failing evaluations in this (group, function)"
            kept = {x["case"].split(":", 2)[2] for x in self.f.values() if x["_key"] == e0["_key"]}
            rest = [f"{s}({c})" for s, c in sorted(self.shorts[e0["_key"]].items()) if s not in kept]
            e["detail"] += (f"; cases not listed separately: {', '.join(rest[:14])}" + ("..." if len(rest) > 14 else "") if rest else "") + "]"
            fails.append(e)
        return {"status": "ok", "checked": self.checked, "distinct": len(self.scen), "bound": bound,
                "failures": fails, "cases": self.cases}


def stream(kind, n, seed=0, **kw):
    """gen.stream (deterministic per seed); kept as a named entry point because reproducers refer to it"""
    return gen.stream(kind, n, seed=seed, **kw)


SMALL = {"period": 5, "fast_period": 3, "slow_period": 6, "signal_period": 3}
BASE_PARAMS = ("candles", "fullname_override", "name_suffix", "round_value", "timeframe", "timeframe_fill",
               "candles_lifespan", "candlestick_type", "kwargs")


def small_config(cls):
    """constructor kwargs with small periods, derived from the signature; None when a required parameter is unknown"""
    kw = {}
    for p in inspect.signature(cls).parameters.values():
        if p.name in BASE_PARAMS:
            continue
        if p.name == "analysis":
            kw["analysis"] = movement.rising
            kw["args"] = {"indicator": "close", "length": 3}
        elif p.name == "input_value" and p.default is inspect.Parameter.empty:
            kw["input_value"] = "positive" if cls.__name__ == "Counter" else "close"
        elif p.default is inspect.Parameter.empty:
            return None
        elif "period" in p.name and isinstance(p.default, int):
            kw[p.name] = min(p.default, SMALL.get(p.name, 4))
    return kw


def make(key, tf=None, candles=None):
    cls = INDICATOR_MAP[key]
    kw = small_config(cls)
    if kw is None:
        return None
    kw = deepcopy(kw)
    if tf:
        kw["timeframe"] = tf
    if candles is not None:
        kw["candles"] = candles
    return cls(**kw)


# ------------------------------------------------------------------------------------------------ snapshots
PRIM = (int, float, str, bool, type(None), bytes)


def snap(o, memo=None):
    """structural snapshot: nested tuples of primitives; object graphs (cycles, sharing) are kept by reference number"""
    if memo is None:
        memo = {}
    if isinstance(o, PRIM):
        return (type(o).__name__, repr(o))
    if isinstance(o, (datetime, timedelta)):
        return ("time", repr(o))
    if id(o) in memo:
        return ("ref", memo[id(o)])
    memo[id(o)] = len(memo)
    if isinstance(o, dict):
        return ("dict", tuple(sorted(((repr(k), snap(v, memo)) for k, v in o.items()), key=lambda kv: kv[0])))
    if isinstance(o, (list, tuple)):
        return (type(o).__name__, tuple(snap(v, memo) for v in o))
    if isinstance(o, (set, frozenset)):
        return ("set", tuple(sorted(repr(v) for v in o)))
    if inspect.isroutine(o) or inspect.isclass(o):
        return ("callable", getattr(o, "__qualname__", repr(o)))
    if hasattr(o, "__dict__"):
        return ("obj", type(o).__name__, snap(vars(o), memo))
    return ("other", repr(o))


def diff(a, b, path="", out=None, limit=4):
    """short list of paths where two snapshots differ"""
    if out is None:
        out = []
    if len(out) >= limit or a == b:
        return out
    if a[0] != b[0] or a[0] not in ("dict", "list", "tuple", "obj"):
        out.append(f"{path or '.'}: {str(a)[:60]} -> {str(b)[:60]}")
        return out
    if a[0] == "obj":
        if a[1] != b[1]:
            out.append(f"{path}: type {a[1]} -> {b[1]}")
            return out
        return diff(a[2], b[2], path, out, limit)
    if a[0] == "dict":
        da, db = dict(a[1]), dict(b[1])
        for k in da:
            if k not in db:
                out.append(f"{path}[{k}] removed")
        for k in db:
            if k not in da:
                out.append(f"{path}[{k}] added")
        for k in da:
            if k in db:
                diff(da[k], db[k], f"{path}[{k}]", out, limit)
        return out
    if len(a[1]) != len(b[1]):
        out.append(f"{path}: length {len(a[1])} -> {len(b[1])}")
        return out
    for i, (x, y) in enumerate(zip(a[1], b[1])):
        diff(x, y, f"{path}[{i}]", out, limit)
    return out


def group_of(accessor, changes):
    acc = accessor.split("(")[0].replace("_", "-").replace(".", "-").lower()
    for ch in changes:
        if ch.endswith(" removed"):
            key = ch[: -len(" removed")].split("[")[-1].strip("]'\"")
            return f"{acc}-deletes-{key}"
    return f"{acc}-mutates-state"


def observe_ind(ind):
    return (list(ind.as_list()), gen.readings(ind.candles))


def observe_hex(h):
    return {tf: gen.readings(c) for tf, c in h.get_candles().items()}, {n: list(i.as_list()) for n, i in h.indicators.items()}


def call(fn, *a, **k):
    try:
        return fn(*a, **k), None
    except Exception as e:  # noqa: BLE001
        return None, e


# ------------------------------------------------------------------------------------------------ accessors
def indicator_accessors(n_candles):
    acc = [
        ("str", lambda o: str(o)),
        ("repr", lambda o: repr(o)),
        ("name", lambda o: o.name),
        ("settings", lambda o: o.settings),
        ("has_reading", lambda o: o.has_reading),
        ("prev_reading", lambda o: o.prev_reading()),
        ("prev_reading(close)", lambda o: o.prev_reading("close")),
        ("as_list", lambda o: o.as_list()),
        ("as_list(close)", lambda o: o.as_list("close")),
        ("reading_count", lambda o: o.reading_count()),
        ("reading_period", lambda o: o.reading_period(3)),
        ("reading_period(close)", lambda o: o.reading_period(2, "close", 0)),
        ("candles_sum", lambda o: o.candles_sum(3)),
        ("candles_sum(close)", lambda o: o.candles_sum(2, "close")),
        ("candle_manager", lambda o: o.candle_manager),
    ]
    if n_candles:
        acc += [("reading", lambda o: o.reading()),
                ("reading(close,0)", lambda o: o.reading("close", 0)),
                ("reading(index=-1)", lambda o: o.reading(index=-1)),
                ("read_candle", lambda o: o.read_candle(o.candles[0]))]
    return acc


def hexital_accessors(names, tfs, n_candles):
    acc = [
        ("Hexital.str", lambda h: str(h)),
        ("Hexital.repr", lambda h: repr(h)),
        ("Hexital.name", lambda h: h.name),
        ("Hexital.indicator_settings", lambda h: h.indicator_settings),
        ("Hexital.indicators", lambda h: dict(h.indicators)),
        ("Hexital.timeframes", lambda h: h.timeframes),
        ("Hexital.candles", lambda h: (h.candles(), [h.candles(t) for t in tfs])),
        ("Hexital.candles-of-an-unregistered-timeframe", lambda h: [h.candles(t) for t in ("T3", "H2", "S45") if t not in tfs]),
        ("Hexital.get_candles", lambda h: h.get_candles()),
        ("Hexital.str-of-candles", lambda h: [str(c) for cs in h.get_candles().values() for c in cs[-2:]]),
    ]
    for nm in names:
        acc += [
            (f"Hexital.has_reading({nm})", lambda h, nm=nm: h.has_reading(nm)),
            (f"Hexital.reading({nm})", lambda h, nm=nm: (h.reading(nm), h.reading(nm, 0), h.reading(nm, -2))),
            (f"Hexital.prev_reading({nm})", lambda h, nm=nm: h.prev_reading(nm)),
            (f"Hexital.reading_as_list({nm})", lambda h, nm=nm: h.reading_as_list(nm)),
            (f"Hexital.indicator({nm}).settings", lambda h, nm=nm: h.indicator(nm).settings),
            (f"Hexital.indicator({nm}).str", lambda h, nm=nm: str(h.indicator(nm))),
            (f"Hexital.indicator({nm}).repr", lambda h, nm=nm: repr(h.indicator(nm))),
            (f"Hexital.indicator({nm}).has_reading", lambda h, nm=nm: h.indicator(nm).has_reading),
        ]
    return acc


def qual_of(accessor):
    a = accessor.split("(")[0]
    if a.startswith("Hexital.indicator"):
        a = accessor.rsplit(".", 1)[-1]
    table = {"str": "hexital.core.indicator.Indicator.__str__", "repr": "hexital.core.indicator.Indicator.__repr__",
             "Hexital.str": "hexital.core.hexital.Hexital.__str__", "Hexital.repr": "hexital.core.hexital.Hexital.__repr__",
             "Hexital.str-of-candles": "hexital.core.candle.Candle.__repr__"}
    if a in table:
        return table[a]
    if a.startswith("Hexital."):
        return "hexital.core.hexital.Hexital." + a.split(".", 1)[1]
    return "hexital.core.indicator.Indicator." + a


# ------------------------------------------------------------------------------------------------ A / B
def check_accessors_indicator(col, key, tf, n, seed, kind):
    base = stream(kind, n + 6, seed=seed)
    warm, more = base[:n], base[n:]
    probe = make(key, tf, gen.clone(warm))
    if probe is None:
        return False
    twin = make(key, tf, gen.clone(warm))
    _, exc = call(twin.calculate)
    if exc is None:
        _, exc = call(twin.append, gen.clone(more))
    if exc is not None:
        return True  # the indicator itself fails on this stream: other properties' subject
    want = observe_ind(twin)
    spec = {"indicator": key, "kwargs": {k: (getattr(v, "__name__", v)) for k, v in small_config(INDICATOR_MAP[key]).items()},
            "timeframe": tf, "stream": f"oracles.c19.stream({kind!r},{n + 6},seed={seed})", "warm": n}
    for accessor, fn in indicator_accessors(n):
        col.tick()
        obj = make(key, tf, gen.clone(warm))
        obj.calculate()
        before = snap(obj)
        _, exc = call(fn, obj)
        after = snap(obj)
        if exc is not None:
            # an accessor refusing an argument (e.g. candles_sum over dict-valued readings) is not a side effect;
            # the state must still be untouched and the object usable
            RAISED[accessor] = RAISED.get(accessor, 0) + 1
        if before != after:
            changes = diff(before, after)
            col.fail(group_of(accessor, changes), f"{accessor}/state-changed", qual_of(accessor),
                     f"{accessor} changed the indicator: {'; '.join(changes)}", dict(spec, accessor=accessor))
        got, exc = call(lambda: (obj.append(gen.clone(more)), observe_ind(obj))[1])
        if exc is not None or got != want:
            changes = diff(before, after)
            what = f"raised {type(exc).__name__}: {exc}" if exc is not None else "gave different readings/candles than the unread twin"
            col.fail(group_of(accessor, changes) if changes else group_of(accessor, []).replace("-mutates-state", "-breaks-later-use"),
                     f"{accessor}/unusable-afterwards", qual_of(accessor),
                     f"after {accessor}, append of {len(more)} candles {what}", dict(spec, accessor=accessor))
    return True


def hex_spec(rnd):
    keys = [k for k in INDICATOR_MAP if small_config(INDICATOR_MAP[k]) is not None]
    picks = []
    for k in rnd.sample(keys, 4):
        picks.append((k, rnd.choice([None, "T5", "T10"])))
    picks.append((picks[0][0], "T5" if picks[0][1] != "T5" else None))
    return picks


def build_hex(picks, candles):
    inds = []
    seen = set()
    for k, tf in picks:
        ind = make(k, tf)
        if ind.name in seen:
            continue
        seen.add(ind.name)
        inds.append(ind)
    return Hexital("c19", candles, inds)


def check_accessors_hexital(col, rnd, n, seed, kind):
    picks = hex_spec(rnd)
    base = stream(kind, n + 6, seed=seed)
    warm, more = base[:n], base[n:]
    twin = build_hex(picks, gen.clone(warm))
    _, exc = call(twin.calculate)
    if exc is None:
        _, exc = call(twin.append, gen.clone(more))
    if exc is not None:
        return
    want = observe_hex(twin)
    names = list(twin.indicators)
    tfs = [t for t in twin.get_candles() if t != "default"]
    spec = {"hexital": [f"{k}@{tf or 'default'}" for k, tf in picks],
            "stream": f"oracles.c19.stream({kind!r},{n + 6},seed={seed})", "warm": n}
    for accessor, fn, calculated in [(a, f, True) for a, f in hexital_accessors(names[:3], tfs, n)] + \
            [(a + "  # before anything was calculated", f, False) for a, f in hexital_accessors(names[:3], tfs, n)]:
        col.tick()
        obj = build_hex(picks, gen.clone(warm))
        if calculated:
            obj.calculate()  # otherwise: readings are still missing (as after add_indicator / purge): reading them must not compute them
        before = snap(obj)
        _, exc = call(fn, obj)
        after = snap(obj)
        stable = accessor.split("(")[0] + ("." + accessor.rsplit(".", 1)[-1] if ")." in accessor else "")
        if exc is not None:
            RAISED[stable] = RAISED.get(stable, 0) + 1
        changes = diff(before, after)
        if before != after:
            col.fail(group_of(stable.rsplit(".", 1)[-1] if "indicator" in stable else stable, changes),
                     f"{stable}/state-changed", qual_of(accessor),
                     f"{accessor} changed the Hexital: {'; '.join(changes)}", dict(spec, accessor=accessor))
        got, exc = call(lambda: (obj.append(gen.clone(more)), observe_hex(obj))[1])
        if exc is not None or got != want:
            what = f"raised {type(exc).__name__}: {exc}" if exc is not None else "gave different readings/candles than the unread twin"
            g = group_of(stable.rsplit(".", 1)[-1] if "indicator" in stable else stable, changes) if changes else \
                group_of(stable, []).replace("-mutates-state", "-breaks-later-use")
            col.fail(g, f"{stable}/unusable-afterwards", qual_of(accessor),
                     f"after {accessor}, Hexital.append of {len(more)} candles {what}", dict(spec, accessor=accessor))
    col.scenario(("hexital-accessors", tuple(spec["hexital"]), n))


def check_interleaving(col, rnd, key, tf, seed, kind, damaging):
    total = 30
    base = stream(kind, total, seed=seed)
    obj = make(key, tf, [])
    twin = make(key, tf, [])
    if obj is None:
        return
    pos = 0
    script = []
    while pos < total:
        k = rnd.randint(1, 4)
        chunk = base[pos: pos + k]
        pos += k
        _, e1 = call(twin.append, gen.clone(chunk))
        if e1 is not None:
            return
        _, e2 = call(obj.append, gen.clone(chunk))
        script.append(f"append({len(chunk)})")
        if e2 is not None:
            col.fail("interleaving-diverges", f"{key}/append-raises", "hexital.core.indicator.Indicator.append",
                     f"append raised {type(e2).__name__}: {e2} only on the object that was read", {"indicator": key, "script": script})
            return
        choices = [a for a in indicator_accessors(len(obj.candles)) if a[0] not in damaging]
        for accessor, fn in rnd.sample(choices, 3):
            col.tick()
            before = snap(obj)
            _, exc = call(fn, obj)
            script.append(accessor)
            if exc is not None:
                continue
            after = snap(obj)
            if before != after:
                changes = diff(before, after)
                damaging.add(accessor)
                col.fail(group_of(accessor, changes), f"{accessor}/state-changed", qual_of(accessor),
                         f"{accessor} changed the indicator mid-stream: {'; '.join(changes)}",
                         {"indicator": key, "timeframe": tf, "script": script[-6:]})
                return
    col.tick()
    got, exc = call(observe_ind, obj)
    if exc is not None or got != observe_ind(twin):
        col.fail("interleaving-diverges", f"{key}/final-state", "hexital.core.indicator.Indicator.append",
                 f"reads interleaved with appends end in a different state ({exc!r})",
                 {"indicator": key, "timeframe": tf, "script": script[-12:]})


# ------------------------------------------------------------------------------------------------ C encodings
def enc_dict(c):
    return {"open": c.open, "high": c.high, "low": c.low, "close": c.close, "volume": c.volume, "timestamp": c.timestamp}


def enc_list(c):
    return [c.open, c.high, c.low, c.close, c.volume] + ([c.timestamp] if c.timestamp is not None else [])


def enc_list_ts_first(c):
    return ([c.timestamp] if c.timestamp is not None else []) + [c.open, c.high, c.low, c.close, c.volume]


ENCODINGS = {
    "list-ts-first": (enc_list_ts_first, False),
    "list-of-list-ts-first": (enc_list_ts_first, True),
    "Candle": (lambda c: gen.clone([c])[0], False),
    "dict": (enc_dict, False),
    "list": (enc_list, False),
    "list-of-Candle": (lambda c: gen.clone([c])[0], True),
    "list-of-dict": (enc_dict, True),
    "list-of-list": (enc_list, True),
}


def feed(target, candles, enc, chunks):
    """returns (exception or None, list of (kind, description) for mutated caller containers)"""
    conv, as_chunk = ENCODINGS[enc]
    mutated = []
    pos = 0
    for k in chunks:
        part = candles[pos: pos + k]
        pos += k
        items = [conv(c) for c in part]
        copies = deepcopy(items) if "Candle" not in enc else None
        batches = [items] if as_chunk else items
        for b in batches:
            outer_before = list(b) if isinstance(b, list) else None
            _, exc = call(target.append, b)
            if exc is not None:
                return exc, mutated
            if as_chunk and (len(b) != len(outer_before) or any(x is not y for x, y in zip(b, outer_before))):
                mutated.append(("outer-list", f"the list passed to append changed length {len(outer_before)} -> {len(b)}"))
        if copies is not None:
            for it, cp in zip(items, copies):
                if it != cp:
                    mutated.append((type(it).__name__, f"caller's {type(it).__name__} changed from {cp} to {it}"))
    return None, mutated


def check_encodings(col, rnd, build, observe, spec, candles, with_lists_only_ts=True):
    chunks = []
    left = len(candles)
    while left:
        k = min(left, rnd.randint(1, 6))
        chunks.append(k)
        left -= k
    wants = {}
    for ref_enc in ("Candle", "list-of-Candle"):  # like-for-like batching: single appends vs chunk appends
        ref_obj = build()
        exc, _ = feed(ref_obj, candles, ref_enc, chunks)
        if exc is not None:
            return
        wants[ENCODINGS[ref_enc][1]] = observe(ref_obj)
    for enc in ENCODINGS:
        if enc in ("Candle", "list-of-Candle"):
            continue
        want = wants[ENCODINGS[enc][1]]
        col.tick()
        obj = build()
        exc, mutated = feed(obj, candles, enc, chunks)
        inp = dict(spec, encoding=enc, chunks=chunks[:8])
        is_list = enc in ("list", "list-of-list")
        pops = any(kind == "list" for kind, _ in mutated)
        for kind, text in mutated[:1]:
            if kind == "list":
                col.fail("from-list-pops-timestamp", "caller-list-changed", "hexital.core.candle.Candle.from_list",
                         f"append({enc}) altered the caller's list: {text} ({len(mutated)} containers)", inp)
            else:
                col.fail(f"append-mutates-caller-{kind}", f"caller-{kind}-changed",
                         "hexital.core.candle_manager.CandleManager.append", f"append({enc}): {text}", inp)
        if exc is not None:
            group = "from-list-pops-timestamp" if is_list and pops else f"append-{enc}-raises"
            col.fail(group, f"{enc}/raises", "hexital.core.candle.Candle.from_list" if is_list else
                     "hexital.core.candle_manager.CandleManager.append",
                     f"append({enc}) raised {type(exc).__name__}: {exc}", inp)
            continue
        got, exc = call(observe, obj)
        if exc is not None or got != want:
            detail = f"observing raised {exc!r}" if exc is not None else describe_difference(want, got)
            if is_list and pops:
                col.fail("from-list-pops-timestamp", "timeframes-get-different-candles", "hexital.core.candle.Candle.from_list",
                         f"fed as {enc} the result differs from feeding Candle objects: {detail}", inp)
            else:
                col.fail(f"append-{enc}-differs", f"{enc}/result-differs", "hexital.core.candle_manager.CandleManager.append",
                         f"fed as {enc} the result differs from feeding Candle objects: {detail}", inp)


def describe_difference(want, got):
    if isinstance(want, tuple) and isinstance(want[0], dict):
        for tf in want[0]:
            a, b = want[0][tf], got[0].get(tf)
            if a != b:
                return (f"timeframe {tf}: {len(a)} candles when fed Candle objects, {len(b) if b is not None else 'no'} "
                        f"candles otherwise" if b is None or len(a) != len(b) else f"timeframe {tf}: candle values differ")
        return "indicator readings differ"
    return "candles or readings differ"


def run(tier, seed, focus=None):
    RAISED.clear()
    rnd = random.Random(seed)
    col = Col(PROP, seed, focus)
    thorough = tier == "thorough"
    keys = list(INDICATOR_MAP)
    skipped = [k for k in keys if small_config(INDICATOR_MAP[k]) is None]
    keys = [k for k in keys if k not in skipped]
    kinds = ["random", "sawtooth", "falling"]
    # A: accessors on indicators
    states = [(0, None), (3, None), (40, None), (40, "T5")] if not thorough else \
        [(0, None), (1, None), (3, None), (12, None), (40, None), (40, "T5"), (9, "T5"), (60, "T10")]
    for key in keys:
        for si, (n, tf) in enumerate(states):
            check_accessors_indicator(col, key, tf, n, seed, kinds[si % len(kinds)])
            col.scenario(("indicator-accessors", key, n, tf))
    col.note(f"read-only accessors {[a for a, _ in indicator_accessors(1)]} on {len(keys)} INDICATOR_MAP classes in states "
             f"{states}: snapshot before/after + append on read object vs unread twin")
    # A: accessors on Hexitals
    for s in range(40 if thorough else 6):
        check_accessors_hexital(col, rnd, rnd.choice([0, 7, 40]) if s else 40, seed, kinds[s % len(kinds)])
    col.note("Hexital accessors (str/repr/name/indicator_settings/indicators/timeframes/candles/get_candles/has_reading/"
             "reading/prev_reading/reading_as_list/indicator(...).settings|str|repr|has_reading) on multi-timeframe Hexitals")
    # B: interleavings
    damaging = set()
    for key in keys:
        for r in range(8 if thorough else 2):
            check_interleaving(col, rnd, key, rnd.choice([None, None, "T5"]), seed + r, kinds[r % len(kinds)], damaging)
            col.scenario(("interleaving", key, r))
    col.note(f"interleavings: appends in chunks of 1-4 with 3 random accessors after each, vs appends only "
             f"(accessors found damaging are reported once and then left out: {sorted(damaging)})")
    # C: encodings
    for s in range(200 if thorough else 20):
        n = rnd.choice([1, 6, 23, 41])
        kind = rnd.choice(["random", "gappy", "sawtooth"])
        candles = stream(kind, n, seed=seed + s)
        key = rnd.choice([k for k in keys if k != "Amorph"])
        tf = rnd.choice([None, "T5"])
        check_encodings(col, rnd, lambda: make(key, tf, []), observe_ind,
                        {"target": f"{key}(timeframe={tf})", "stream": f"oracles.c19.stream({kind!r},{n},seed={seed + s})"},
                        candles)
        col.scenario(("encodings-indicator", key, tf, n))
        picks = hex_spec(rnd)
        hex_tf = rnd.choice([None, None, "T5"])
        check_encodings(col, rnd, lambda: Hexital("c19", [], [make(k, t) for k, t in dict.fromkeys(picks)], timeframe=hex_tf),
                        observe_hex,
                        {"target": "Hexital(" + ",".join(f"{k}@{t or 'default'}" for k, t in picks) + f", timeframe={hex_tf})",
                         "stream": f"oracles.c19.stream({kind!r},{n},seed={seed + s})"}, candles)
        col.scenario(("encodings-hexital", tuple(picks), hex_tf, n))
        # a Heikin-Ashi Hexital converts the caller's Candle objects in place: the derived timeframes must have taken their
        # copies before (order of the fan-out in Hexital.append), so Candle objects and dicts / lists give the same state
        check_encodings(col, rnd, lambda: Hexital("c19", [], [make(k, t) for k, t in dict.fromkeys(picks)], timeframe=hex_tf,
                                                  candlestick_type="HA"),
                        observe_hex,
                        {"target": "Hexital(" + ",".join(f"{k}@{t or 'default'}" for k, t in picks) + f", timeframe={hex_tf}, candlestick_type='HA')",
                         "stream": f"oracles.c19.stream({kind!r},{n},seed={seed + s})"}, candles)
        col.scenario(("encodings-hexital-ha", tuple(picks), hex_tf, n))
        if s % 4 == 0:
            plain = stream(kind, n, seed=seed + s, with_ts=False)
            check_encodings(col, rnd, lambda: make(key, None, []), observe_ind,
                            {"target": f"{key}()", "stream": f"oracles.c19.stream({kind!r},{n},seed={seed + s},with_ts=False)"},
                            plain)
    if RAISED:
        col.note(f"accessors that raised (not counted as side effects; state and later use still checked): {RAISED}")
    col.note("encodings: Candle | dict | list(timestamp last) | list of Candle | list of dict | list of list, random chunking, "
             "standalone indicators (with/without timeframe, with/without timestamps) and multi-timeframe Hexitals")
    bound = (f"{len(keys)} INDICATOR_MAP classes with small parameters ({'skipped: ' + ','.join(skipped) if skipped else 'none skipped'}) "
             f"x states {states} x {len(indicator_accessors(1))} accessors; {40 if thorough else 6} multi-timeframe Hexitals x "
             f"their accessors; {8 if thorough else 2} interleaving(s) per class over 30 candles; {200 if thorough else 20} x "
             f"(indicator, Hexital) encoding comparisons over streams of 1..41 candles (kinds random/gappy/sawtooth); seed {seed}")
    return col.result(bound)
