"""C17 bounded stand-in: movement, candle-shape and pattern predicates mean what they document.

Real hexital.analysis functions / Candle properties are compared with the independent reference in
oracles/ref_movement.py (written from the statement and docstrings):
  A  movement functions vs reference over random lists with missing readings, indices >= 1, several lengths
  B  candle geometry on well-formed candles
  C  patterns on constructed witnesses (every clause with >= 2x margin under every reading of "the N previous
     candles") and single-clause counter-witnesses (one clause violated by >= 2x, the others hold with margin)
  D  scale (powers of two) and shift (integers) invariance of every predicate on quarter-valued prices
"""
import json
import random

from hexital.analysis import PATTERN_MAP, movement
from hexital.core.candle import Candle

from oracles import ref_movement as ref

PROP = "C17"
_DEF = object()


class Col:
    def __init__(self, prop, seed, focus):
        self.prop, self.seed, self.focus = prop, seed, focus
        self.checked = 0
        self.scen = set()
        self.cases = []
        self.f = {}
        self.cnt = {}
        self.shorts = {}

    def tick(self, n=1):
        self.checked += n

    def scenario(self, key):
        self.scen.add(key)

    def note(self, text):
        if len(self.cases) < 14 and text not in self.cases:
            self.cases.append(text)

    def fail(self, group, short, function, detail, inp):
        case = f"{self.prop}:{group}:{short}"
        if self.focus and not case.startswith(self.focus):
            return
        key = (group, function)
        self.cnt[key] = self.cnt.get(key, 0) + 1
        self.shorts.setdefault(key, {}).setdefault(short, 0)
        self.shorts[key][short] += 1
        size = len(json.dumps(inp, default=str))
        cur = self.f.get(case)
        if cur is None:
            if sum(1 for e in self.f.values() if e["_key"] == key) >= 3:
                return
        elif size >= cur["_size"]:
            return
        self.f[case] = {"case": case, "function": function, "seed": self.seed, "detail": str(detail)[:400],
                        "input": inp, "_key": key, "_size": size}

    def result(self, bound):
        fails = []
        for e in sorted(self.f.values(), key=lambda e: e["case"]):
            n = self.cnt[e["_key"]]
            e0 = e
            e = {k: v for k, v in e.items() if not k.startswith("_")}
            e["detail"] += f" [{n} failing evaluations in this (group, function)"
            kept = {x["case"].split(":", 2)[2] for x in self.f.values() if x["_key"] == e0["_key"]}
            rest = [f"{s}({c})" for s, c in sorted(self.shorts[e0["_key"]].items()) if s not in kept]
            e["detail"] += (f"; cases not listed separately: {', '.join(rest[:14])}" + ("..." if len(rest) > 14 else "") if rest else "") + "]"
            fails.append(e)
        return {"status": "ok", "checked": self.checked, "distinct": len(self.scen), "bound": bound,
                "failures": fails, "cases": self.cases}


def q(x):
    return round(x * 4) / 4


def same(a, b):
    if a is None or b is None:
        return a is b
    return a == b and isinstance(a, bool) == isinstance(b, bool)


def call(fn, *a, **k):
    try:
        return fn(*a, **k), None
    except Exception as e:  # noqa: BLE001
        return None, e


def exc_slug(name, exc):
    msg = str(exc)
    what = "none" if "NoneType" in msg else ("dict" if "'dict'" in msg else "other")
    return f"{name}-{type(exc).__name__.lower()}-{what}"


def dump(candles, names=()):
    rows = []
    for c in candles:
        row = {"o": c.open, "h": c.high, "l": c.low, "c": c.close}
        for nm in names:
            if nm in c.indicators:
                row[nm] = c.indicators[nm]
        rows.append(row)
    return rows


# ------------------------------------------------------------------------------------------------ A movement
def rand_list(rnd, n, with_dict):
    out = []
    price = q(rnd.uniform(60, 120))
    a = rnd.randint(0, 6)
    b = rnd.randint(0, 6)
    p_missing = rnd.choice([0.0, 0.15, 0.35])
    for _ in range(n):
        o = price + rnd.choice([0, 0, 0.25, -0.25, 1, -1])
        c = o + q(rnd.uniform(-3, 3))
        h = max(o, c) + q(rnd.uniform(0, 2))
        l = min(o, c) - q(rnd.uniform(0, 2))
        price = c
        ind = {}
        a += rnd.choice([-2, -1, 0, 1, 2])
        b += rnd.choice([-1, 0, 0, 1])
        for key, v in (("A", a), ("B", b + 0.5 * rnd.randint(0, 1))):
            r = rnd.random()
            if r < p_missing * 0.45:
                ind[key] = None
            elif r < p_missing * 0.9:
                pass
            elif r < p_missing and with_dict:
                ind[key] = {"x": v, "y": None}
            else:
                ind[key] = v
        out.append(Candle(open=o, high=h, low=l, close=c, volume=rnd.randint(0, 50), indicators=ind))
    return out


LENGTHS = [_DEF, 1, 2, 3, 4, 5, 8, 12, 50]
SINGLE = ["A", "B", "close"]
PAIRS = [("A", "B"), ("close", "A"), ("B", "absent_name")]
MOVE = "hexital.analysis.movement."


def check_movement(col, candles, tag):
    n = len(candles)
    series = {nm: ref.extract(candles, nm) for nm in ("A", "B", "close", "absent_name")}

    def report(fname, group, short, detail, kwargs, i, names):
        col.fail(group, short, MOVE + fname, detail,
                 {"function": fname, "kwargs": kwargs, "index": i, "candles": dump(candles, names)})

    def compare(fname, kwargs, i, expected, names, wraps, accept=None, missing_current=False):
        col.tick()
        got, exc = call(getattr(movement, fname), candles, index=i, **kwargs)
        if exc is not None:
            report(fname, exc_slug(fname, exc), f"{fname}/raises", f"{type(exc).__name__}: {exc}", kwargs, i, names)
            return
        ok = same(got, expected) or (accept is not None and any(same(got, a) for a in accept))
        if ok:
            return
        if wraps:
            group = f"{fname}-wraps-below-zero"
        elif missing_current:
            group = f"{fname}-missing-current-offset"
        else:
            group = f"{fname}-differs-from-doc"
        report(fname, group, f"{fname}/vs-reference",
               f"{fname}({', '.join(f'{k}={v}' for k, v in kwargs.items())}, index={i}) = {got!r}, documented {expected!r}",
               kwargs, i, names)

    for i in range(1, n):
        for a, b in PAIRS:
            sa, sb = series[a], series[b]
            kw = {"indicator": a, "indicator_two": b}
            compare("above", kw, i, ref.above(sa, sb, i), (a, b), False)
            compare("below", kw, i, ref.below(sa, sb, i), (a, b), False)
            for length in LENGTHS:
                ln = 1 if length is _DEF else length
                kw = {"indicator_one": a, "indicator_two": b}
                if length is not _DEF:
                    kw["length"] = length
                wraps = i - ln < 0
                compare("crossover", kw, i, ref.crossover(sa, sb, ln, i), (a, b), wraps)
                compare("crossunder", kw, i, ref.crossunder(sa, sb, ln, i), (a, b), wraps)
        for nm in SINGLE:
            s = series[nm]
            for length in LENGTHS:
                kw = {"indicator": nm}
                if length is not _DEF:
                    kw["length"] = length
                l1 = 1 if length is _DEF else length
                l4 = 4 if length is _DEF else length
                compare("rising", kw, i, ref.rising(s, l1, i), (nm,), False)
                compare("falling", kw, i, ref.falling(s, l1, i), (nm,), False)
                compare("mean_rising", kw, i, ref.mean_rising(s, l4, i), (nm,), False)
                compare("mean_falling", kw, i, ref.mean_falling(s, l4, i), (nm,), False)
                compare("highest", kw, i, ref.highest(s, l4, i), (nm,), False)
                compare("lowest", kw, i, ref.lowest(s, l4, i), (nm,), False)
                # value_range: the docstring leaves length < 2 and a single available reading open -> None is accepted
                vr = ref.value_range(s, l4, i)
                compare("value_range", kw, i, vr, (nm,), False, accept=[None] if l4 < 2 else None)
                # highestbar / lowestbar: "for a given number of bars back" is read both as `length` candles before the
                # current one (C17's wording) and as `length` candles including it (the Pine convention AROON relies on);
                # with no reading in the window the offset is undefined (0 or None accepted)
                for fname, rf in (("highestbar", ref.highestbar), ("lowestbar", ref.lowestbar)):
                    e1, e2 = rf(s, l4, i), rf(s, l4 - 1, i)
                    accept = [e2] if e2 is not None else [0, None]
                    if e1 is None:
                        accept += [0, None]
                    compare(fname, kw, i, e1, (nm,), i - l4 + 1 < 0, accept=accept, missing_current=s[i] is None)


# ------------------------------------------------------------------------------------------------ B geometry
def check_geometry(col, rnd, count):
    CQ = "hexital.core.candle.Candle."
    for k in range(count):
        if k % 2:
            lo = q(rnd.uniform(1, 200))
            pts = sorted(lo + q(rnd.uniform(0, 20)) * rnd.choice([0, 1, 1]) for _ in range(4))
        else:
            lo = rnd.uniform(0.001, 5000)
            pts = sorted(lo * (1 + rnd.uniform(0, 0.2) * rnd.choice([0, 1, 1])) for _ in range(4))
        l, x, y, h = pts
        o, c = (x, y) if rnd.random() < 0.5 else (y, x)
        cd = Candle(open=o, high=h, low=l, close=c, volume=1)
        exp = {"realbody": abs(o - c), "shadow_upper": h - max(o, c), "shadow_lower": min(o, c) - l,
               "high_low": h - l, "positive": c > o, "negative": c < o}
        for prop, want in exp.items():
            col.tick()
            got, exc = call(getattr, cd, prop)
            if exc is not None or not same(got, want):
                col.fail(f"geometry-{prop}", f"{prop}/vs-formula", CQ + prop,
                         f"{prop} = {got!r} ({exc!r}), documented {want!r}", {"open": o, "high": h, "low": l, "close": c})
    col.scenario(("geometry", count))


# ------------------------------------------------------------------------------------------------ C patterns
def history(rnd, n, vol):
    out = []
    price = q(rnd.uniform(80, 160)) + 40 * vol
    for _ in range(n):
        o = price + q(rnd.uniform(-0.5, 0.5) * vol)
        c = o + q(rnd.uniform(-3, 3) * vol)
        if c == o and rnd.random() < 0.7:
            c = o + 0.25 * rnd.choice([-1, 1]) * vol
        h = max(o, c) + q(rnd.uniform(0, 2) * vol)
        l = min(o, c) - q(rnd.uniform(0, 2) * vol)
        price = c
        out.append(Candle(open=o, high=h, low=l, close=c, volume=rnd.randint(1, 50)))
    return out


def shaped(bottom, b, us, ls, up):
    o, c = (bottom, bottom + b) if up else (bottom + b, bottom)
    return Candle(open=o, high=bottom + b + us, low=bottom - ls, close=c, volume=7)


def stats(h):
    last10 = h[-10:]
    return (sum(ref.body(c) for c in last10) / 10, sum(ref.span(c) for c in last10) / 10,
            sum(ref.span(c) for c in h[-5:]) / 5)


def qf(x):
    """quarter-valued, rounded down"""
    return int(x * 4) / 4


def qc(x):
    """quarter-valued, rounded up"""
    return -int(-x * 4 // 1) / 4


class Pick:
    """proposal values relative to an estimated threshold T; half of the proposals sit close to the 2x boundary so that
    a threshold that is off by a factor of ~2-3 in the implementation is noticed"""

    def __init__(self, rnd):
        self.rnd = rnd
        self.tight = rnd.random() < 0.6

    def small(self, t):
        """clearly below t: <= t/2"""
        f = self.rnd.uniform(0.36, 0.5) if self.tight else self.rnd.uniform(0, 0.45)
        return max(0.0, qf(f * t))

    def large(self, t, floor=0.5):
        """clearly above t: >= 2t"""
        f = self.rnd.uniform(2.0, 2.5) if self.tight else self.rnd.uniform(2.5, 6)
        return max(qc(f * t), floor)


def propose(rnd, name, target, hist):
    """candidate list for (pattern, target); target is 'witness' or the clause name to violate.  Only a proposal:
    the reference verdict() decides whether the candidate is used."""
    h = list(hist)
    ab, ahl, ahl5 = stats(h)
    prev = h[-1]
    up = rnd.random() < 0.5
    pk = Pick(rnd)
    if name == "doji":
        us, ls = q(rnd.uniform(0, 1.5 * ahl)), q(rnd.uniform(0, 1.5 * ahl))
        b = pk.small(0.1 * ahl) if target == "witness" else pk.large(0.1 * max(ahl, (ahl * 9 + us + ls) / 10) * 1.05)
        return h + [shaped(prev.close + q(rnd.uniform(-ahl, ahl)), b, us, ls, up)]
    if name == "dojistar":
        lb = pk.large(ab * 1.3)
        if target == "prev-body-long":
            lb = max(0.25, pk.small(ab * 0.9))
        lcan = shaped(prev.close + q(rnd.uniform(-1, 1)), lb, q(rnd.uniform(0, 0.5 * ahl)), q(rnd.uniform(0, 0.5 * ahl)), up)
        h2 = h + [lcan]
        ab2, ahl2, _ = stats(h2)
        b = pk.small(0.1 * min(ahl, ahl2))
        if target == "body-doji":
            b = pk.large(0.1 * max(ahl, ahl2) * 1.1)
        us, ls = q(rnd.uniform(0, 0.5 * ahl)), q(rnd.uniform(0, 0.5 * ahl))
        gap = 1.0 if pk.tight else q(rnd.uniform(1, 4))
        ltop, lbot = max(lcan.open, lcan.close), min(lcan.open, lcan.close)
        toward_up = up
        if target == "gap-in-direction":
            mode = rnd.choice(["overlap", "wrong-way"])
            if mode == "wrong-way":
                toward_up = not up
            else:
                gap = -1.0 if pk.tight else -q(rnd.uniform(1, max(1, lb - b)))
        bottom = ltop + gap if toward_up else lbot - gap - b
        return h2 + [shaped(bottom, b, us, ls, rnd.random() < 0.5)]
    if name in ("hammer", "inv_hammer"):
        long_name, short_name = ("lower-shadow-long", "upper-shadow-veryshort") if name == "hammer" else \
            ("upper-shadow-long", "lower-shadow-veryshort")
        b = pk.small(ab * 0.95)
        if target == "body-short":
            b = pk.large(ab * 1.3)
        elif target == long_name:
            b = max(0.5, b)
        long_sh = pk.large(b, floor=0.5) + (0 if pk.tight else q(rnd.uniform(0, ahl)))
        if target == long_name:
            long_sh = pk.small(b)
        est_hl = max(ahl, (ahl * 9 + b + long_sh) / 10)
        short_sh = pk.small(0.1 * min(ahl, est_hl))
        if target == short_name:
            short_sh = pk.large(0.1 * est_hl * 1.1)
        if name == "hammer":
            est5 = [ahl5, (ahl5 * 4 + b + long_sh + short_sh) / 5, sum(ref.span(c) for c in h[-6:-1]) / 5]
            if target == "near-prev-low":
                off = pk.large(0.2 * max(est5) * 1.05)
            else:
                off = pk.small(0.2 * min(est5)) if pk.tight else -q(rnd.uniform(0, 2 * ahl5))
            return h + [shaped(prev.low + off, b, short_sh, long_sh, up)]
        gap = 1.0 if pk.tight else q(rnd.uniform(1, 4))
        if target == "body-gap-down":
            gap = -1.0 if pk.tight else -q(rnd.uniform(1, 3))
        top = min(prev.open, prev.close) - gap
        return h + [shaped(top - b, b, long_sh, short_sh, up)]
    return None


PATTERN_FN = {"doji": "doji", "dojistar": "dojistar", "hammer": "hammer", "inv_hammer": "inverted_hammer"}


def check_patterns(col, rnd, per_target, keep):
    """returns some of the constructed lists for the invariance section"""
    made = []
    for name, clause_fn in ref.PATTERN_CLAUSES.items():
        if name not in PATTERN_MAP:
            continue
        fn = PATTERN_MAP[name]
        qualname = f"{fn.__module__}.{fn.__qualname__}"
        probe = clause_fn(history(random.Random(1), 14, 1), 13)
        targets = ["witness"] + [c.name for c in probe]
        for target in targets:
            used = tries = 0
            while used < per_target and tries < per_target * 30:
                tries += 1
                hist = history(rnd, rnd.choice([10, 10, 11, 12, 15, 23]), rnd.choice([1, 1, 3, 10]))
                cand = propose(rnd, name, target, hist)
                if cand is None:
                    break
                i = len(cand) - 1
                if any(c.low <= 0 for c in cand):
                    continue
                clauses = clause_fn(cand, i)
                v = ref.verdict(clauses)
                want = "witness" if target == "witness" else ("counter", target)
                if v != want:
                    continue
                used += 1
                col.tick()
                got, exc = call(fn, cand, index=i)
                inp = {"pattern": name, "index": i, "clauses": [repr(c) for c in clauses], "candles": dump(cand[-12:]),
                       "note": "last 12 candles shown; index refers to the last one"}
                if len(cand) <= 12:
                    inp["note"] = "all candles shown"
                if exc is not None:
                    col.fail(exc_slug(name, exc), f"{name}/raises", qualname, f"{type(exc).__name__}: {exc}", inp)
                elif target == "witness" and got is not True and got != 1:
                    col.fail(f"{name}-witness-not-reported", f"{name}/witness", qualname,
                             f"every documented clause holds with >=2x margin but {name}(index={i}) = {got!r}", inp)
                elif target != "witness" and got:
                    col.fail(f"{name}-ignores-{target}", f"{name}/counter-{target}", qualname,
                             f"clause {target} violated by >=2x (others hold) but {name}(index={i}) = {got!r}", inp)
                if len(made) < keep or rnd.random() < 0.05:
                    made.append(cand)
            col.scenario(("pattern", name, target))
            col.note(f"pattern {name}: target {target}: {used} constructed lists verified by the reference clauses ({tries} proposals)")
            if used == 0:
                col.note(f"pattern {name}: target {target}: NO candidate accepted (not exercised)")
    return made[: keep * 3]


# ------------------------------------------------------------------------------------------------ D invariance
def transform(candles, scale=1.0, shift=0.0):
    return [Candle(open=c.open * scale + shift, high=c.high * scale + shift, low=c.low * scale + shift,
                   close=c.close * scale + shift, volume=c.volume) for c in candles]


def predicates(candles):
    """name -> (qualified function, thunk(index))"""
    out = {}
    for key, fn in PATTERN_MAP.items():
        out[f"pattern:{key}"] = (f"{fn.__module__}.{fn.__qualname__}", lambda i, fn=fn: fn(candles, index=i))
    mv = movement
    for ln in (1, 3, 5):
        out[f"rising(close,{ln})"] = (MOVE + "rising", lambda i, ln=ln: mv.rising(candles, "close", ln, i))
        out[f"falling(low,{ln})"] = (MOVE + "falling", lambda i, ln=ln: mv.falling(candles, "low", ln, i))
        out[f"mean_rising(high,{ln})"] = (MOVE + "mean_rising", lambda i, ln=ln: mv.mean_rising(candles, "high", ln, i))
        out[f"mean_falling(close,{ln})"] = (MOVE + "mean_falling", lambda i, ln=ln: mv.mean_falling(candles, "close", ln, i))
        out[f"crossover(close,open,{ln})"] = (MOVE + "crossover", lambda i, ln=ln: mv.crossover(candles, "close", "open", ln, i))
        out[f"crossunder(close,open,{ln})"] = (MOVE + "crossunder", lambda i, ln=ln: mv.crossunder(candles, "close", "open", ln, i))
    out["above(close,open)"] = (MOVE + "above", lambda i: mv.above(candles, "close", "open", i))
    out["below(close,open)"] = (MOVE + "below", lambda i: mv.below(candles, "close", "open", i))
    out["positive"] = (MOVE + "positive", lambda i: mv.positive(candles, i))
    out["negative"] = (MOVE + "negative", lambda i: mv.negative(candles, i))
    out["Candle.positive"] = ("hexital.core.candle.Candle.positive", lambda i: candles[i].positive)
    out["Candle.negative"] = ("hexital.core.candle.Candle.negative", lambda i: candles[i].negative)
    return out


def check_invariance(col, rnd, lists):
    for candles in lists:
        n = len(candles)
        lowest_price = min(c.low for c in candles)
        base = predicates(candles)
        base_vals = {}
        for nm, (_, th) in base.items():
            base_vals[nm] = [call(th, i) for i in range(n)]
        variants = [("scale", 2.0 ** k, 0.0) for k in rnd.sample(range(-2, 11), 3) if k != 0]
        shifts = [1.0, 7.0, 100.0, 4096.0, -float(int(lowest_price) - 1)]
        variants += [("shift", 1.0, s) for s in rnd.sample(shifts, 2) if s != 0]
        for kind, sc, sh in variants:
            moved = transform(candles, sc, sh)
            if min(c.low for c in moved) <= 0:
                continue
            preds = predicates(moved)
            for nm, (qualname, th) in preds.items():
                for i in range(n):
                    col.tick()
                    got, exc = call(th, i)
                    b_got, b_exc = base_vals[nm][i]
                    if exc is not None or b_exc is not None:
                        continue  # raising is C16's subject
                    if not same(got, b_got):
                        short = nm.split("(")[0].replace("pattern:", "")
                        col.fail(f"{short}-not-{kind}-invariant", f"{nm}/{kind}", qualname,
                                 f"{nm} at index {i}: {b_got!r} on the original, {got!r} after {kind} "
                                 f"(factor {sc}, shift {sh})",
                                 {"predicate": nm, "index": i, "scale": sc, "shift": sh, "candles": dump(candles)})
        col.scenario(("invariance", n, id(candles) % 1000 if False else len(col.scen)))


def run(tier, seed, focus=None):
    rnd = random.Random(seed)
    col = Col(PROP, seed, focus)
    thorough = tier == "thorough"
    n_lists = 1600 if thorough else 110
    for k in range(n_lists):
        n = rnd.choice([2, 3, 4, 6, 9, 13, 20, 30, 40])
        with_dict = False  # dict-valued readings are not 'missing' readings: outside C17's statement
        candles = rand_list(rnd, n, with_dict)
        check_movement(col, candles, k)
        col.scenario(("movement", k))
    col.note(f"movement: 13 functions x names {SINGLE}/{PAIRS} x lengths default,1,2,3,4,5,8,12,50 x indices 1..n-1 "
             f"on {n_lists} lists (every 4th with dict-valued readings)")
    check_geometry(col, rnd, 60000 if thorough else 6000)
    col.note("geometry: realbody/shadow_upper/shadow_lower/high_low/positive/negative on well-formed candles "
             "(quarter-valued and arbitrary floats, zero bodies/shadows included)")
    made = check_patterns(col, rnd, per_target=400 if thorough else 40, keep=120 if thorough else 20)
    extra = [history(rnd, rnd.choice([12, 20, 35]), rnd.choice([1, 3])) for _ in range(80 if thorough else 8)]
    check_invariance(col, rnd, made + extra)
    col.note(f"invariance: {len(made) + len(extra)} quarter-valued lists x 3 power-of-two factors x 2 integer shifts "
             f"x every index x {len(predicates(extra[0]))} predicates")
    bound = (f"movement: {n_lists} random lists (length 2..40, readings on a 0.5 grid so ties occur, None/absent/"
             f"dict-valued up to 35%) x all indices >= 1 x lengths default,1,2,3,4,5,8,12,50; geometry: "
             f"{60000 if thorough else 6000} well-formed candles; patterns: histories of 10..23 candles at volatility "
             f"1x/3x/10x followed by witnesses / single-clause counter-witnesses accepted only if the reference clauses hold "
             f"or fail by >= 2x under every reading of the look-back windows; invariance under factors 2^-2..2^10 and "
             f"integer shifts; seed {seed}")
    return col.result(bound)
