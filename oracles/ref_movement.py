"""Reference semantics for C17, written from the property statement and the docstrings of
hexital.analysis.movement / hexital.analysis.patterns / hexital.analysis.utils / hexital.core.candle
(NOT from their code).  Everything here works on plain Python values.

Series convention: `extract(candles, name)` gives one entry per candle: a number, or None when the reading is
missing (attribute/key absent, None, or dict-valued).  Window convention (C17): "the current candle and the
`length` candles before it", i.e. candles max(0, i-length) .. i; windows never reach past the start of the list.
"""

PRICE_FIELDS = ("open", "high", "low", "close", "volume")


def present(v):
    return isinstance(v, (int, float)) and not isinstance(v, bool)


def extract(candles, name):
    out = []
    for c in candles:
        if name in PRICE_FIELDS:
            v = getattr(c, name)
        elif name in c.indicators:
            v = c.indicators[name]
        elif name in c.sub_indicators:
            v = c.sub_indicators[name]
        else:
            v = None
        out.append(v if present(v) else None)
    return out


def _before(s, length, i):
    """present readings of the `length` candles before candle i"""
    return [v for v in s[max(0, i - length): i] if v is not None]


def _upto(s, length, i):
    """(index, value) of present readings of candle i and the `length` candles before it, newest first"""
    return [(j, s[j]) for j in range(i, max(0, i - length) - 1, -1) if s[j] is not None]


# ---------------------------------------------------------------------------------------------- movement
def above(a, b, i):
    return a[i] is not None and b[i] is not None and a[i] > b[i]


def below(a, b, i):
    return a[i] is not None and b[i] is not None and a[i] < b[i]


def rising(s, length, i):
    prev = _before(s, length, i)
    return s[i] is not None and bool(prev) and all(p < s[i] for p in prev)


def falling(s, length, i):
    prev = _before(s, length, i)
    return s[i] is not None and bool(prev) and all(p > s[i] for p in prev)


def mean_rising(s, length, i):
    prev = _before(s, length, i)
    return s[i] is not None and bool(prev) and sum(prev) / len(prev) < s[i]


def mean_falling(s, length, i):
    prev = _before(s, length, i)
    return s[i] is not None and bool(prev) and sum(prev) / len(prev) > s[i]


def highest(s, length, i):
    w = _upto(s, length, i)
    return max(v for _, v in w) if w else None


def lowest(s, length, i):
    w = _upto(s, length, i)
    return min(v for _, v in w) if w else None


def value_range(s, length, i):
    """None when fewer than two readings are available (a range needs two)"""
    w = _upto(s, length, i)
    if len(w) < 2:
        return None
    vals = [v for _, v in w]
    return max(vals) - min(vals)


def highestbar(s, n_before, i):
    """offset (0 = current) of the most recent maximum among candle i and the n_before candles before it"""
    w = _upto(s, n_before, i)
    if not w:
        return None
    top = max(v for _, v in w)
    return next(i - j for j, v in w if v == top)


def lowestbar(s, n_before, i):
    w = _upto(s, n_before, i)
    if not w:
        return None
    bot = min(v for _, v in w)
    return next(i - j for j, v in w if v == bot)


def crossover(a, b, length, i):
    """a cross-over event (above now, below one candle earlier) at candle i or one of the length-1 candles before it;
    every candle pair looked at lies inside candles i-length .. i and inside the list"""
    return any(above(a, b, j) and below(a, b, j - 1) for j in range(i, i - length, -1) if j - 1 >= 0)


def crossunder(a, b, length, i):
    return any(below(a, b, j) and above(a, b, j - 1) for j in range(i, i - length, -1) if j - 1 >= 0)


# ---------------------------------------------------------------------------------------------- geometry
def body(c):
    return abs(c.open - c.close)


def upper(c):
    return c.high - max(c.open, c.close)


def lower(c):
    return min(c.open, c.close) - c.low


def span(c):
    return c.high - c.low


def is_positive(c):
    return c.close > c.open


def is_negative(c):
    return c.close < c.open


# ---------------------------------------------------------------------------------------------- patterns
def _avgs(candles, fn, n, ends):
    """averages of fn over the n candles ending at each e in `ends` (inclusive); only windows inside the list"""
    out = []
    for e in ends:
        if e - n + 1 >= 0 and e < len(candles):
            out.append(sum(fn(c) for c in candles[e - n + 1: e + 1]) / n)
    return out


class Clause:
    """value `sense` threshold, threshold known only as an interval [lo, hi] over the admissible readings of
    'the N previous candles' (with / without the candle itself)"""

    def __init__(self, name, sense, value, thresholds):
        self.name, self.sense, self.value = name, sense, value
        self.lo, self.hi = min(thresholds), max(thresholds)

    def holds2x(self):
        if self.sense == "lt":
            return self.value <= self.lo / 2 and (self.lo > 0 or self.value < 0)
        if self.sense == "gt":
            return self.value >= 2 * self.hi and self.value >= 0.5
        return self.value >= 1.0  # 'gap': no threshold, a clear price gap

    def violated2x(self):
        if self.sense == "lt":
            return self.value >= 2 * self.hi and self.value >= 0.5
        if self.sense == "gt":
            return self.value <= self.lo / 2 and self.lo > 0
        return self.value <= -1.0

    def __repr__(self):
        return f"{self.name}:{self.sense} value={self.value} thr=[{self.lo:.4g},{self.hi:.4g}]"


def doji_clauses(candles, i):
    """body shorter than 10% of the average high-low range of the 10 previous candles"""
    c = candles[i]
    return [Clause("body-doji", "lt", body(c), [0.1 * a for a in _avgs(candles, span, 10, (i - 1, i))])]


def dojistar_clauses(candles, i):
    """1st candle: long real body (longer than the average of the 10 previous bodies); 2nd: doji whose body gaps
    away from the first body in the first candle's direction"""
    c, p = candles[i], candles[i - 1]
    if is_positive(p):
        gap = min(c.open, c.close) - max(p.open, p.close)
    elif is_negative(p):
        gap = min(p.open, p.close) - max(c.open, c.close)
    else:
        gap = -float("inf")
    return [
        Clause("prev-body-long", "gt", body(p), _avgs(candles, body, 10, (i - 2, i - 1, i))),
        Clause("body-doji", "lt", body(c), [0.1 * a for a in _avgs(candles, span, 10, (i - 1, i))]),
        Clause("gap-in-direction", "gap", gap, [0]),
    ]


def hammer_clauses(candles, i):
    """small real body; long lower shadow (longer than the body); no or very short upper shadow (<10% of the average
    range); body at or near (<=20% of the 5-candle average range) the previous candle's low"""
    c, p = candles[i], candles[i - 1]
    return [
        Clause("body-short", "lt", body(c), _avgs(candles, body, 10, (i - 1, i))),
        Clause("lower-shadow-long", "gt", lower(c), [body(c)]),
        Clause("upper-shadow-veryshort", "lt", upper(c), [0.1 * a for a in _avgs(candles, span, 10, (i - 1, i))]),
        Clause("near-prev-low", "lt", min(c.open, c.close) - p.low,
               [0.2 * a for a in _avgs(candles, span, 5, (i - 2, i - 1, i))]),
    ]


def inverted_hammer_clauses(candles, i):
    """small real body; long upper shadow; no or very short lower shadow; body gaps down from the previous body"""
    c, p = candles[i], candles[i - 1]
    return [
        Clause("body-short", "lt", body(c), _avgs(candles, body, 10, (i - 1, i))),
        Clause("upper-shadow-long", "gt", upper(c), [body(c)]),
        Clause("lower-shadow-veryshort", "lt", lower(c), [0.1 * a for a in _avgs(candles, span, 10, (i - 1, i))]),
        Clause("body-gap-down", "gap", min(p.open, p.close) - max(c.open, c.close), [0]),
    ]


PATTERN_CLAUSES = {
    "doji": doji_clauses,
    "dojistar": dojistar_clauses,
    "hammer": hammer_clauses,
    "inv_hammer": inverted_hammer_clauses,
}


def verdict(clauses):
    """'witness' (every clause holds with 2x margin), ('counter', name) (exactly one clause violated by 2x, all
    others hold with 2x margin) or None (no claim)"""
    if all(c.holds2x() for c in clauses):
        return "witness"
    bad = [c for c in clauses if not c.holds2x()]
    if len(bad) == 1 and bad[0].violated2x():
        return ("counter", bad[0].name)
    return None
