"""C09 stand-in: totality of calculation.

Every class in hexital.indicators.INDICATOR_MAP (enumerated at run time, so a new class is picked up
with its default parameters and, if it has a `period` field, small periods too) is run on
adversarial but well-formed streams (finite positive prices, low <= open,close <= high,
volume >= 0, non-decreasing timestamps): flat candles, identical prices, strictly rising/falling,
zero volume, volatile-then-flat and flat-then-volatile, tiny/huge magnitudes, plateaus of equal
closes, constant volume, zero-range gapping candles, spikes; and gappy/duplicate-timestamp streams
collapsed with timeframe="T5", timeframe_fill=True so that flat zero-volume fill candles appear.
Each is built in batch (Ind(candles=...).calculate()) and by appending one candle at a time.
Checked:
  1. no exception from construction/append/calculate;
  2. every stored reading on every candle (candle.indicators and candle.sub_indicators, every dict
     field) is None, a bool or a finite int/float;
  3. once an output field of the indicator itself has produced a non-None value it is non-None on
     every later candle (Supertrend's long/short are complementary by design: they are checked as
     "one of them is set").
Amorph is exercised wrapped around shipped movement/pattern functions.
"""
from __future__ import annotations

import dataclasses
import math

from oracles import ref_indicators as R

PROP = "C09"


def _configs(key, cls, thorough):
    """[(label, factory(candles=None, **extra) -> indicator, kwargs shown in the reproducer)]"""
    from hexital.analysis import movement, patterns

    small = [2, 3, 5] + ([7, 14] if thorough else [])
    out = []

    def add(kw):
        out.append((key, cls, kw))

    if key == "Amorph":
        wraps = [
            ("highest", movement.highest, {"indicator": "high", "length": 4}),
            ("lowest", movement.lowest, {"indicator": "low", "length": 3}),
            ("rising", movement.rising, {"indicator": "close", "length": 3}),
            ("mean_falling", movement.mean_falling, {"indicator": "close", "length": 4}),
            ("value_range", movement.value_range, {"indicator": "close", "length": 4}),
            ("highestbar", movement.highestbar, {"indicator": "high", "length": 5}),
            ("cross", movement.cross, {"indicator_one": "open", "indicator_two": "close"}),
            ("crossover", movement.crossover, {"indicator_one": "open", "indicator_two": "close"}),
            ("doji", patterns.doji, {}),
            ("hammer", patterns.hammer, {}),
        ]
        for name, fn, kw in wraps:
            out.append((f"Amorph[{name}]", cls, dict(kw, analysis=fn)))
        return out
    names = {f.name for f in dataclasses.fields(cls)} if dataclasses.is_dataclass(cls) else set()
    if cls.__name__ == "Counter":  # by class: the map may hold several keys for one class
        add({"input_value": "positive", "count_value": True})
        add({"input_value": "volume", "count_value": 0})
        return out
    if key == "MACD":
        for f, s, g in [(12, 26, 9), (2, 3, 2), (3, 7, 4)]:
            add({"fast_period": f, "slow_period": s, "signal_period": g})
        add({"fast_period": 3, "slow_period": 6, "signal_period": 3, "input_value": "volume"})
        return out
    if key == "STOCH":
        for p, sl, sk in [(14, 3, 3), (2, 2, 2), (5, 3, 2)]:
            add({"period": p, "slow_period": sl, "smoothing_k": sk})
        return out
    add({})  # defaults
    if "period" in names:
        for p in small:
            kw = {"period": p}
            add(kw)
            if "multiplier" in names and p == 3:
                add({"period": p, "multiplier": 2.0})
        if "input_value" in names:
            # a legitimately zero-valued input series: volume on zero-volume / fill candles
            add({"period": 3, "input_value": "volume"})
    return out


def _label_kw(kw):
    shown = {k: (getattr(v, "__name__", v)) for k, v in kw.items()}
    return R.kw_str(shown)


def _scalar_ok(v):
    if v is None or isinstance(v, bool):
        return True
    if isinstance(v, (int, float)):
        return math.isfinite(v)
    return False


def _bad_value(reading):
    """first offending (field, value) in a stored reading, or None"""
    if isinstance(reading, dict):
        for k, v in reading.items():
            if not _scalar_ok(v):
                return k, v
        return None
    return None if _scalar_ok(reading) else (None, reading)


# defect-class slugs, assigned after reading the code behind every failure seen on the pinned tree
EXC_GROUPS = {
    ("RSI", "ZeroDivisionError"): "rsi-zero-loss-division",          # rsi.py: gain/loss with loss == 0
    ("STOCH", "ZeroDivisionError"): "stoch-flat-window-division",    # stoch.py: /(highest-lowest)
    ("VWMA", "ZeroDivisionError"): "vwma-zero-volume-division",      # vwma.py: /candles_sum(volume)
    ("ROC", "ZeroDivisionError"): "roc-zero-input-division",         # roc.py: /period_n_back
    ("ADX", "ZeroDivisionError"): "adx-zero-di-division",            # adx.py: /(+DI + -DI)
    ("TSI", "ZeroDivisionError"): "tsi-zero-denominator-division",
    ("StandardDeviation", "ValueError"): "stdev-sqrt-negative",      # stdev.py: sqrt(variance < 0)
    ("RMA", "TypeError"): "rma-seed-late-input",                     # rma.py: period+1 wide seed window reads a None
}
# `if self.reading(x):` style availability tests that treat a legitimate 0.0 as missing
TRUTHINESS = {"KC", "Supertrend", "TSI", "ADX", "HMA", "MACD"}


def _exc_group(fn, exc):
    cls = fn.split(".")[-2] if fn.count(".") >= 2 else ""
    slug = EXC_GROUPS.get((cls, type(exc).__name__))
    if slug:
        return slug
    if "movement.cross" in fn:
        return "movement-cross-none-comparison"
    return f"exception-{type(exc).__name__}"


def _evaluate(col, label, cls, kw, stream, tf_kw, mode):
    full = dict(kw)
    full.update(tf_kw)
    detail = f"{_label_kw(full)};{stream.key()};{mode}"
    if not col.want(label, detail):
        return
    inp = {"indicator": label, "class": f"{cls.__module__}.{cls.__qualname__}", "kwargs": {k: getattr(v, "__name__", v) for k, v in full.items()},
           "stream": stream.desc(), "mode": mode}
    candles = stream.candles()
    try:
        ind = R.run_real(cls, candles, full, mode)
    except Exception as e:
        fn, line, idx = R.hexital_frame(e)
        col.evaluated(label, detail, True)
        inp["first_failing_index"] = idx
        if idx is not None and not tf_kw:
            inp["candles_near"] = stream.sample(idx)
        col.fail(_exc_group(fn, e), label, detail, fn, f"{R.short_exc(e)} at candle index {idx} (line {line})", inp)
        return
    cs = ind.candles
    name = ind.name
    main = [c.indicators.get(name) for c in cs]
    col.evaluated(label, detail, any(m is not None and (not isinstance(m, dict) or any(v is not None for v in m.values())) for m in main))
    fn_default = f"{cls.__module__}.{cls.__qualname__}._calculate_reading"
    # 2. finiteness of everything stored
    for i, c in enumerate(cs):
        for store in (c.indicators, c.sub_indicators):
            for key, reading in store.items():
                bad = _bad_value(reading)
                if bad is not None:
                    inp["first_failing_index"] = i
                    col.fail("non-finite-reading", label, detail, fn_default,
                             f"index {i}: stored reading {key}{'.' + str(bad[0]) if bad[0] else ''} = {bad[1]!r}", inp)
                    return
    # 3. no gaps after the first value, per output field
    fields = {}
    for i, m in enumerate(main):
        items = m.items() if isinstance(m, dict) else [(None, m)]
        if isinstance(m, dict) and {"long", "short"} <= set(m):
            items = [(k, v) for k, v in m.items() if k not in ("long", "short")]
            items.append(("long|short", m["long"] if m["long"] is not None else m["short"]))
        for k, v in items:
            st = fields.setdefault(k, {"first": None})
            if v is not None:
                if st["first"] is None:
                    st["first"] = i
            elif st["first"] is not None:
                group = "truthiness-zero-reading" if label in TRUTHINESS else "gap-after-warmup"
                inp["first_failing_index"] = i
                inp["field"] = k
                ohlcv = [[round(x, 6) for x in (c.open, c.high, c.low, c.close)] + [c.volume] for c in cs[max(0, i - 3): i + 1]]
                inp["candles_near"] = ohlcv
                later = sum(1 for m2 in main[i:] if (m2.get(k) if isinstance(m2, dict) and k in m2 else (None if isinstance(m2, dict) else m2)) is None)
                col.fail(group, label, detail, fn_default,
                         f"field {k}: value from index {st['first']} but None at index {i} ({later} later candles without a value)", inp)
                return


def run(tier, seed, focus=None):
    from hexital.indicators import INDICATOR_MAP

    col = R.Collector(PROP, seed, focus)
    thorough = tier == "thorough"
    base = seed * 1000
    lengths = [45, 100] if thorough else [50]
    plain, framed = [], []
    for j, n in enumerate(lengths):
        for k in range(2 if (thorough and j == 0) else 1):
            for kind in R.STREAM_KINDS + ["gen:random", "gen:flat", "gen:volatile_then_flat"]:
                plain.append(R.Stream(kind, n, base + k))
            for kind in (["random", "flat", "rising", "zerovol", "volatile_then_flat", "plateau"] if thorough else ["random", "flat", "rising", "zerovol"]):
                framed.append(R.Stream(kind, 3 * n, base + k, gappy=True))
            for kind in ("gen:gappy", "gen:dup"):
                framed.append(R.Stream(kind, 3 * n, base + k))
    tf = {"timeframe": "T5", "timeframe_fill": True}
    skipped = []
    seen_classes = set()
    for key, cls in INDICATOR_MAP.items():
        if cls in seen_classes:
            continue  # alias key of a class that was already exercised
        seen_classes.add(cls)
        try:
            configs = _configs(key, cls, thorough)
        except Exception as e:  # a new class this module cannot introspect
            skipped.append(f"{key}: {type(e).__name__}")
            continue
        for label, c, kw in configs:
            for mode in ("batch", "append"):
                for st in plain:
                    _evaluate(col, label, c, kw, st, {}, mode)
                for st in framed:
                    _evaluate(col, label, c, kw, st, tf, mode)
    if skipped:
        col.note("skipped classes: " + "; ".join(skipped))
    bound = (f"tier={tier}: all {len(INDICATOR_MAP)} classes of INDICATOR_MAP (Amorph wrapped around 10 movement/pattern functions), "
             f"default parameters plus periods {[2, 3, 5] + ([7, 14] if thorough else [])}, input_value=volume variants; {len(R.STREAM_KINDS)} "
             f"stream kinds (+3 from oracles.gen) x lengths {lengths}, plus gappy/duplicate-timestamp streams (own and gen:gappy/gen:dup) of {[3 * n for n in lengths]} one-minute "
             f"candles collapsed with timeframe=T5, timeframe_fill=True; batch and one-by-one append")
    return col.result(bound)
