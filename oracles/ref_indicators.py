"""Independent reference implementations of every shipped Hexital indicator, plus shared
support code for the bounded stand-ins c04/c05/c06/c09/c10.

PART 1 (references) is written from the property statements (C04/C05/C06) and textbook
definitions, NOT from hexital's code.  Everything is computed directly from plain Python lists
of raw values; windows are recomputed from scratch at every index (O(n*period)).

Conventions
-----------
* a series is a list with one entry per candle; an entry is
    None  -> not available yet (before the definitional warm-up / input missing)
    NaN   -> the definition itself is undefined there (0/0 ...); oracles skip those entries
    float -> the value the definition gives
* "warm-up": where a property statement gives no number, the first index is the definitional
  minimum (first index at which enough inputs exist); every function documents its own.
* several statements leave a convention open (seed of a Wilder smoothing, OBV base value, ...).
  Those functions take the convention as a parameter and the oracles accept a series that matches
  ANY admissible convention consistently over the whole stream.

PART 2 (support) holds: deterministic stream generators (gen.stream uses hash(str), which is
salted per process, so it is not reproducible between runs), the failure collector that builds the
result dict run.py expects, series comparison and exception attribution helpers.
"""
from __future__ import annotations

import math
import random
import traceback
from datetime import datetime, timedelta

NAN = float("nan")


def is_nan(v):
    return isinstance(v, float) and v != v


def defined(v):
    """a real, usable number (not None, not NaN)"""
    return v is not None and not isinstance(v, bool) and v == v


# ----------------------------------------------------------------------------------------------
# PART 1: reference indicators
# ----------------------------------------------------------------------------------------------


def _win(x, i, p):
    """the last p entries ending at i, or None if fewer than p exist / one of them is missing"""
    if i - p + 1 < 0:
        return None
    w = x[i - p + 1 : i + 1]
    if any(v is None for v in w):
        return None
    return w


def sma(x, p):
    """mean of the last p inputs; first value when p consecutive inputs exist"""
    out = []
    for i in range(len(x)):
        w = _win(x, i, p)
        out.append(None if w is None else sum(w) / p)
    return out


def wma(x, p):
    """linearly weighted mean, newest input has weight p, oldest weight 1"""
    den = p * (p + 1) / 2.0
    out = []
    for i in range(len(x)):
        w = _win(x, i, p)  # w[0] oldest ... w[p-1] newest
        out.append(None if w is None else sum(w[k] * (k + 1) for k in range(p)) / den)
    return out


def vwma(close, volume, p):
    """sum(close*volume)/sum(volume) over the last p candles; NaN when the window volume is 0"""
    out = []
    for i in range(len(close)):
        wc, wv = _win(close, i, p), _win(volume, i, p)
        if wc is None or wv is None:
            out.append(None)
            continue
        tv = sum(wv)
        out.append(NAN if tv == 0 else sum(c * v for c, v in zip(wc, wv)) / tv)
    return out


def _recursive(x, p, alpha, seed_fn):
    """r[f] = seed_fn(first full window), r[t] = alpha*x[t] + (1-alpha)*r[t-1]; a missing input
    ends the run (the next full window seeds again)"""
    out = [None] * len(x)
    prev = None
    for i in range(len(x)):
        if x[i] is None:
            prev = None
            continue
        if prev is None:
            w = _win(x, i, p)
            if w is None:
                continue
            prev = seed_fn(w)
        else:
            prev = alpha * x[i] + (1.0 - alpha) * prev
        out[i] = prev
    return out


def ema(x, p, smoothing=2.0):
    """alpha = smoothing/(p+1); seed = plain mean of the first full window (C04)"""
    return _recursive(x, p, smoothing / (p + 1.0), lambda w: sum(w) / len(w))


def _decay_mean(w, alpha):
    # w[-1] newest: weight (1-alpha)^k for the input k steps back
    n = len(w)
    num = sum(((1.0 - alpha) ** k) * w[n - 1 - k] for k in range(n))
    den = sum((1.0 - alpha) ** k for k in range(n))
    return num / den


def rma(x, p, seed="decay"):
    """Wilder's average: alpha = 1/p. seed="decay": decay-weighted mean of the first full window
    (C04: sum((1-a)^k x[t-k]) / sum((1-a)^k), k < p); seed="mean": plain mean (textbook Wilder)"""
    a = 1.0 / p
    if seed == "decay":
        return _recursive(x, p, a, lambda w: _decay_mean(w, a))
    return _recursive(x, p, a, lambda w: sum(w) / len(w))


def _lin(a, x, b, y):
    """a*x + b*y elementwise with None/NaN propagation"""
    out = []
    for u, v in zip(x, y):
        out.append(None if u is None or v is None else a * u + b * v)
    return out


def hma(x, p):
    """Hull: WMA_{floor(sqrt p)}( 2*WMA_{floor(p/2)}(x) - WMA_p(x) ).
    Definitional first index (statement's "period consecutive inputs" cannot hold for a two stage
    average): s + p - 1 + floor(sqrt p) - 1."""
    half = max(int(p / 2), 1)
    root = max(int(math.sqrt(p)), 1)
    raw = _lin(2.0, wma(x, half), -1.0, wma(x, p))
    return wma(raw, root)


def true_range(high, low, close):
    """max(h-l, |h-pc|, |l-pc|); needs the previous close, so first value at index 1"""
    out = [None]
    for i in range(1, len(high)):
        pc = close[i - 1]
        out.append(max(high[i] - low[i], abs(high[i] - pc), abs(low[i] - pc)))
    return out[: len(high)]


def atr(high, low, close, p):
    """seed = mean of the first p true ranges (indices 1..p, so first ATR at index p), then
    Wilder: (prev*(p-1) + tr)/p  (C05)"""
    return rma(true_range(high, low, close), p, seed="mean")


def stdev(x, p):
    """population standard deviation of the last p inputs. Definitional first index s+p-1 (the
    statement documents none)."""
    out = []
    for i in range(len(x)):
        w = _win(x, i, p)
        if w is None:
            out.append(None)
            continue
        m = sum(w) / p
        out.append(math.sqrt(sum((v - m) ** 2 for v in w) / p))
    return out


def bbands(x, p, k=2.0):
    mid, sd = sma(x, p), stdev(x, p)
    return {"BBL": _lin(1.0, mid, -k, sd), "BBM": mid, "BBU": _lin(1.0, mid, k, sd)}


def kc(high, low, close, p, mult, x=None):
    """EMA_p(x) -/+ mult*ATR_p; first value when both exist (index p)"""
    mid = ema(close if x is None else x, p)
    rng = atr(high, low, close, p)
    band = [None if m is None or r is None else m for m, r in zip(mid, rng)]
    return {"lower": _lin(1.0, mid, -mult, rng), "band": band, "upper": _lin(1.0, mid, mult, rng)}


def donchian(high, low, p):
    """highest high / lowest low of the last p candles (current included), mid = their mean"""
    n = len(high)
    up, dn, mid = [None] * n, [None] * n, [None] * n
    for i in range(p - 1, n):
        up[i] = max(high[i - p + 1 : i + 1])
        dn[i] = min(low[i - p + 1 : i + 1])
        mid[i] = (up[i] + dn[i]) / 2.0
    return {"DCL": dn, "DCM": mid, "DCU": up}


def highest_lowest(high, low, p, bars):
    """window extremes over the last `bars` candles (current included), truncated at the start of
    the list (the utility documents no warm-up: "highest and lowest values N periods back").
    The statement does not say whether N periods back means N or N+1 candles: callers try
    bars = p + 1 and bars = p."""
    n = len(high)
    hi, lo = [None] * n, [None] * n
    for i in range(n):
        a = max(0, i - bars + 1)
        hi[i] = max(high[a : i + 1])
        lo[i] = min(low[a : i + 1])
    return {"high": hi, "low": lo}


def hla(high, low):
    return [(h + l) / 2.0 for h, l in zip(high, low)]


def supertrend(high, low, close, p, mult, init_dir=1):
    """basic bands HL2 -/+ mult*ATR_p. With previous final bands (U', L') and direction d':
         close > U' -> d = +1 ; close < L' -> d = -1 ; otherwise d = d' and the band on the trend
         side only ratchets (d=+1: L = max(L, L'); d=-1: U = min(U, U')).
       trend = L when d = +1 else U; long = L (d=+1), short = U (d=-1).
    First value at the ATR warm-up index p; the direction on that first candle is a convention
    (init_dir).  Also returns `margin`: min distance of close to the two previous bands, so callers
    can stop comparing once a flip decision is within rounding error."""
    n = len(high)
    rng = atr(high, low, close, p)
    out = {k: [None] * n for k in ("trend", "direction", "long", "short", "margin", "upper", "lower")}
    pu = pl = pd = None
    for i in range(n):
        if rng[i] is None:
            continue
        mid = (high[i] + low[i]) / 2.0
        u, l = mid + mult * rng[i], mid - mult * rng[i]
        if pu is None:
            d = init_dir
            out["margin"][i] = math.inf
        else:
            out["margin"][i] = min(abs(close[i] - pu), abs(close[i] - pl))
            if close[i] > pu:
                d = 1
            elif close[i] < pl:
                d = -1
            else:
                d = pd
                if d == 1:
                    l = max(l, pl)
                else:
                    u = min(u, pu)
        out["upper"][i], out["lower"][i] = u, l
        out["direction"][i] = d
        out["trend"][i] = l if d == 1 else u
        out["long"][i] = l if d == 1 else None
        out["short"][i] = u if d == -1 else None
        pu, pl, pd = u, l, d
    return out


def stdev_threshold(x, p, mult):
    """flag[i] = |x[i]-x[i-1]| > mult*sigma_p[i]; undefined (None) until sigma exists.
    margin[i] = |x[i]-x[i-1]| - mult*sigma[i] (distance from the decision boundary)"""
    sd = stdev(x, p)
    flag, margin = [None] * len(x), [None] * len(x)
    for i in range(1, len(x)):
        if sd[i] is None or x[i] is None or x[i - 1] is None:
            continue
        margin[i] = abs(x[i] - x[i - 1]) - mult * sd[i]
        flag[i] = margin[i] > 0
    return flag, margin


def counter(x, value=True):
    """length of the current run of candles whose input equals `value` (0 when it does not).
    A missing input (None) does not equal the value; callers only feed inputs without gaps."""
    out, run = [], 0
    for v in x:
        run = run + 1 if (v is not None and v == value) else 0
        out.append(run)
    return out


def rsi(x, p, seed="mean"):
    """gain/loss of each change smoothed with Wilder's average over p changes (first value at
    s+p: p changes need p+1 inputs); 100 when the average loss is 0.
    seed="mean" is Wilder's textbook start (plain mean of the first p gains/losses); "decay" is
    the RMA seed of C04 - the statement pins neither."""
    n = len(x)
    g, l = [None] * n, [None] * n
    for i in range(1, n):
        if x[i] is None or x[i - 1] is None:
            continue
        d = x[i] - x[i - 1]
        g[i], l[i] = max(d, 0.0), max(-d, 0.0)
    ag, al = rma(g, p, seed), rma(l, p, seed)
    out = []
    for a, b in zip(ag, al):
        if a is None or b is None:
            out.append(None)
        elif b == 0:
            out.append(100.0)
        else:
            out.append(100.0 - 100.0 / (1.0 + a / b))
    return out


def macd(x, fast, slow, signal):
    line = _lin(1.0, ema(x, fast), -1.0, ema(x, slow))
    sig = ema(line, signal)
    return {"MACD": line, "signal": sig, "histogram": _lin(1.0, line, -1.0, sig)}


def roc(x, p):
    out = [None] * len(x)
    for i in range(p, len(x)):
        if x[i] is None or x[i - p] is None:
            continue
        out[i] = NAN if x[i - p] == 0 else 100.0 * (x[i] - x[i - p]) / x[i - p]
    return out


def stoch(high, low, close, p, smooth_k, slow):
    """stoch = 100*(close-LL)/(HH-LL) over the last p candles (NaN on a flat window),
    k = SMA_smooth_k(stoch), d = SMA_slow(k)"""
    n = len(close)
    raw = [None] * n
    for i in range(p - 1, n):
        hh, ll = max(high[i - p + 1 : i + 1]), min(low[i - p + 1 : i + 1])
        raw[i] = NAN if hh == ll else 100.0 * (close[i] - ll) / (hh - ll)
    k = sma(raw, smooth_k)
    return {"stoch": raw, "k": k, "d": sma(k, slow)}


def tsi(x, p, sp):
    """100 * EMA_sp(EMA_p(dx)) / EMA_sp(EMA_p(|dx|)); NaN when the denominator is 0.
    Also returns the denominator so callers can scale the tolerance."""
    n = len(x)
    d = [None] * n
    for i in range(1, n):
        if x[i] is not None and x[i - 1] is not None:
            d[i] = x[i] - x[i - 1]
    num = ema(ema(d, p), sp)
    den = ema(ema([None if v is None else abs(v) for v in d], p), sp)
    out = []
    for a, b in zip(num, den):
        out.append(None if a is None or b is None else (NAN if b == 0 else 100.0 * a / b))
    return out, den


def aroon(high, low, p):
    """over the last p+1 candles: up = 100*(p - bars since the most recent highest high)/p, same
    for the lowest low; osc = up - down. First value at index p."""
    n = len(high)
    up, dn, osc = [None] * n, [None] * n, [None] * n
    for i in range(p, n):
        wh, wl = high[i - p : i + 1], low[i - p : i + 1]
        mh, ml = max(wh), min(wl)
        since_h = min(k for k in range(p + 1) if wh[p - k] == mh)
        since_l = min(k for k in range(p + 1) if wl[p - k] == ml)
        up[i] = 100.0 * (p - since_h) / p
        dn[i] = 100.0 * (p - since_l) / p
        osc[i] = up[i] - dn[i]
    return {"AROONU": up, "AROOND": dn, "AROONOSC": osc}


def adx(high, low, close, p, ps, dm_at_0=False, seed="decay"):
    """up = h - h', down = l' - l; +DM = up if up > down and up > 0 else 0 (mirror for -DM).
    +DI = 100 * Wilder_p(+DM) / ATR_p, DX = 100*|+DI - -DI|/(+DI + -DI), ADX = Wilder_ps(DX).
    Open conventions (the statement pins none): whether the DM series starts at index 1 (needs a
    previous candle) or at index 0 with DM = 0 (dm_at_0), and the Wilder seed ("decay" = C04's
    RMA, "mean" = textbook).  DI is NaN where ATR is 0, DX is NaN where both DI are 0."""
    n = len(high)
    pos, neg = [None] * n, [None] * n
    if dm_at_0 and n:
        pos[0] = neg[0] = 0.0
    for i in range(1, n):
        up, down = high[i] - high[i - 1], low[i - 1] - low[i]
        pos[i] = up if (up > down and up > 0) else 0.0
        neg[i] = down if (down > up and down > 0) else 0.0
    spos, sneg, rng = rma(pos, p, seed), rma(neg, p, seed), atr(high, low, close, p)
    dip, din, dx = [None] * n, [None] * n, [None] * n
    for i in range(n):
        if spos[i] is None or rng[i] is None:
            continue
        if rng[i] == 0:
            dip[i] = din[i] = dx[i] = NAN
            continue
        dip[i], din[i] = 100.0 * spos[i] / rng[i], 100.0 * sneg[i] / rng[i]
        tot = dip[i] + din[i]
        dx[i] = NAN if tot == 0 else 100.0 * abs(dip[i] - din[i]) / tot
    return {"ADX": rma(dx, ps, seed), "DM_Plus": dip, "DM_Neg": din, "_dx": dx, "_atr": rng}


def obv(close, volume, base_first=True):
    """running total: +volume when the close rises, -volume when it falls, unchanged when the
    close is unchanged.  The start value is a convention: volume[0] (base_first) or 0."""
    out = []
    for i in range(len(close)):
        if i == 0:
            out.append(float(volume[0]) if base_first else 0.0)
        elif close[i] > close[i - 1]:
            out.append(out[-1] + volume[i])
        elif close[i] < close[i - 1]:
            out.append(out[-1] - volume[i])
        else:
            out.append(out[-1])
    return out


def vwap(high, low, close, volume):
    """cumulative sum(typical*volume)/sum(volume) from the first candle; NaN while no volume"""
    out, pv, vol = [], 0.0, 0.0
    for i in range(len(close)):
        pv = sum((high[j] + low[j] + close[j]) / 3.0 * volume[j] for j in range(i + 1))
        vol = sum(volume[: i + 1])
        out.append(NAN if vol == 0 else pv / vol)
    return out


# ----------------------------------------------------------------------------------------------
# PART 2: support for the stand-ins
# ----------------------------------------------------------------------------------------------

T0 = datetime(2023, 6, 1, 9, 0, 0)

STREAM_KINDS = [
    "random", "rising", "falling", "flat", "flat_vol", "zerovol", "volatile_then_flat",
    "flat_then_volatile", "small", "big", "sawtooth", "plateau", "eqvol", "gapflat", "spiky", "gapping",
]


class Stream:
    """plain OHLCV(+timestamp) lists; .candles() builds fresh hexital Candle objects"""

    def __init__(self, kind, n, seed, gappy=False):
        self.kind, self.n, self.seed, self.gappy = kind, n, seed, gappy
        self.O, self.H, self.L, self.C, self.V, self.TS = [], [], [], [], [], []
        _fill_stream(self)

    def key(self):
        return f"{self.kind}{'+gaps' if self.gappy else ''}/n={self.n}/s={self.seed}"

    def desc(self):
        return {"kind": self.kind, "n": self.n, "stream_seed": self.seed, "gappy": self.gappy,
                "generator": "oracles.ref_indicators.Stream"}

    def candles(self, upto=None):
        from hexital.core.candle import Candle

        m = self.n if upto is None else upto
        return [
            Candle(open=self.O[i], high=self.H[i], low=self.L[i], close=self.C[i],
                   volume=self.V[i], timestamp=self.TS[i])
            for i in range(m)
        ]

    def sample(self, i, back=3):
        a = max(0, i - back)
        return [[round(v, 6) for v in (self.O[j], self.H[j], self.L[j], self.C[j])] + [self.V[j]]
                for j in range(a, min(self.n, i + 1))]


def _fill_stream(s):
    kind, n = s.kind, s.n
    if kind.startswith("gen:"):
        # shared generator of oracles/gen.py (crc32-seeded, deterministic); "gen:gappy"/"gen:dup"
        # carry timestamp gaps / repeated timestamps
        from oracles import gen

        for c in gen.stream(kind[4:], n, s.seed):
            s.O.append(float(c.open)); s.H.append(float(c.high)); s.L.append(float(c.low)); s.C.append(float(c.close))
            s.V.append(c.volume); s.TS.append(c.timestamp)
        return
    rnd = random.Random(f"{kind}|{n}|{s.seed}|{s.gappy}")  # str seeding is process independent
    scale = {"small": 1e-4, "big": 1e7}.get(kind, 1.0)
    price = rnd.uniform(50, 150)
    ts = T0
    plateau_left = 0
    for i in range(n):
        v = rnd.randint(1, 1000)
        if kind in ("flat", "flat_vol"):
            o = h = l = c = price
            if kind == "flat" and rnd.random() < 0.5:
                v = 0
        elif kind == "rising":
            o = price
            d = price * rnd.uniform(0.004, 0.01)
            c = o + d
            h, l = c + 0.1 * d, o - 0.1 * d
            price = c
        elif kind == "falling":
            o = price
            d = price * rnd.uniform(0.004, 0.01)
            c = o - d
            h, l = o + 0.1 * d, c - 0.1 * d
            price = c
        elif kind in ("volatile_then_flat", "flat_then_volatile"):
            vol_part = i < n // 2 if kind == "volatile_then_flat" else i >= n // 2
            if vol_part:
                o = price
                c = max(price * rnd.uniform(0.7, 1.4), 1.0)
                h = max(o, c) * rnd.uniform(1, 1.1)
                l = min(o, c) * rnd.uniform(0.9, 1)
                price = c
            else:
                o = h = l = c = price
        elif kind == "sawtooth":
            o = price
            c = price + (3 if i % 2 == 0 else -3)
            h, l = max(o, c) + 0.5, min(o, c) - 0.5
            price = c
        elif kind == "plateau":
            # closes repeat for short runs while highs/lows/volumes keep changing
            if plateau_left > 0:
                plateau_left -= 1
                c = price
            else:
                c = max(price + rnd.gauss(0, 2), 1.0)
                if rnd.random() < 0.4:
                    plateau_left = rnd.randint(1, 4)
            o = price
            h = max(o, c) + abs(rnd.gauss(0, 1))
            l = max(min(o, c) - abs(rnd.gauss(0, 1)), 0.5)
            price = c
        elif kind == "gapflat":
            # zero-range candles that jump between candles
            price = max(price + rnd.gauss(0, 2), 1.0)
            o = h = l = c = price
        elif kind == "spiky":
            o = price
            c = max(price * (rnd.uniform(0.5, 2.0) if rnd.random() < 0.08 else rnd.uniform(0.99, 1.01)), 1.0)
            h = max(o, c) * rnd.uniform(1, 1.02)
            l = min(o, c) * rnd.uniform(0.98, 1)
            price = c
        elif kind == "gapping":
            # opens away from the previous close, so true range != high-low on many candles
            o = max(price + rnd.gauss(0, 3), 1.0)
            c = max(o + rnd.gauss(0, 1.5), 1.0)
            h = max(o, c) + abs(rnd.gauss(0, 0.5))
            l = max(min(o, c) - abs(rnd.gauss(0, 0.5)), 0.5)
            price = c
        else:  # random, zerovol, small, big, eqvol
            o = price
            c = max(price + rnd.gauss(0, 2), 1.0)
            h = max(o, c) + abs(rnd.gauss(0, 1))
            l = max(min(o, c) - abs(rnd.gauss(0, 1)), 0.5)
            price = c
            o, h, l, c = (x * scale for x in (o, h, l, c))
        if kind == "zerovol":
            v = 0
        elif kind == "eqvol":
            v = 500
        elif kind == "random" and rnd.random() < 0.1:
            v = 0
        if s.gappy:
            r = rnd.random()
            if r < 0.25:
                ts = ts + timedelta(minutes=rnd.randint(2, 17))
            elif r < 0.33 and i > 0:
                pass  # repeated timestamp (non-decreasing is all a well-formed stream promises)
            else:
                ts = ts + timedelta(minutes=1)
        else:
            ts = ts + timedelta(minutes=1)
        s.O.append(float(o)); s.H.append(float(h)); s.L.append(float(l)); s.C.append(float(c))
        s.V.append(v); s.TS.append(ts)


def injected_series(kind, n, start, seed):
    """synthetic input series for `input_value` tests: None before `start`"""
    rnd = random.Random(f"inj|{kind}|{n}|{start}|{seed}")
    out, v = [None] * n, rnd.uniform(-5, 5) if kind == "zero_cross" else rnd.uniform(20, 80)
    for i in range(start, n):
        if kind == "walk":
            v = v + rnd.gauss(0, 1.5)
        elif kind == "zero_cross":
            v = v + rnd.gauss(0, 2.0) - 0.05 * v
        elif kind == "zeros":
            v = 0.0
        elif kind == "const":
            pass
        elif kind == "grid":  # few distinct values, many exact repeats
            v = float(rnd.choice([1, 2, 2, 3, 5]))
        out[i] = round(v, 6)
    return out


def first_defined(series):
    for i, v in enumerate(series):
        if v is not None:
            return i
    return None


def hexital_frame(exc):
    """(qualified name of the innermost hexital *indicator/utility* function on the traceback,
    its line, candle index being calculated when it raised).  Generator expressions / lambdas are
    attributed to the enclosing function."""
    name = ""
    line = None
    index = None
    calc = None
    for fs, lineno in traceback.walk_tb(exc.__traceback__):
        fn = fs.f_code.co_filename
        if "/hexital/" in fn:
            mod = fn.split("/hexital/", 1)[1][:-3].replace("/", ".")
            qual = getattr(fs.f_code, "co_qualname", fs.f_code.co_name)
            qual = qual.split(".<locals>")[0]
            name, line = f"hexital.{mod}.{qual}", lineno
            if qual.endswith("._calculate_reading"):
                calc = (name, lineno)
            if fs.f_code.co_name == "_calculate_reading" and isinstance(fs.f_locals.get("index"), int):
                index = fs.f_locals["index"]
    if calc is not None:  # prefer the indicator formula over a utility it called
        name, line = calc
    return name, line, index


def short_exc(exc):
    return f"{type(exc).__name__}: {str(exc)[:120]}"


def kw_str(kwargs):
    """stable short rendering of indicator kwargs for case ids"""
    short = {"period": "p", "round_value": "rv", "input_value": "in", "multiplier": "m",
             "fast_period": "f", "slow_period": "sl", "signal_period": "sg", "smoothing_k": "sk",
             "smooth_period": "sp", "period_signal": "ps", "count_value": "cv", "smoothing": "sm",
             "timeframe": "tf", "timeframe_fill": "fill"}
    return ",".join(f"{short.get(k, k)}={v}" for k, v in sorted(kwargs.items()))


class Collector:
    """collects evaluations/failures and renders run.py's result dict"""

    MAX_PER_GROUP = 3

    def __init__(self, prop, seed, focus=None):
        self.prop, self.seed, self.focus = prop, seed, focus
        self.checked = 0
        self.distinct = set()
        self.failures = []
        self.counts = {}
        self.cases = []
        self._sampled = set()
        self.notes = {}
        parts = (focus or "").split(":")
        self.f_ind = parts[2] if len(parts) > 2 and parts[2] else None
        self.f_detail = parts[3] if len(parts) > 3 and parts[3] else None

    # -- focus pruning: an evaluation is identified by (indicator, detail) ----------------------
    def want(self, indicator, detail=None):
        if self.focus is None:
            return True
        if self.f_ind is not None and self.f_ind != indicator:
            return False
        if self.f_detail is not None and detail is not None and not detail.startswith(self.f_detail):
            # a focus may be a strict prefix of the detail or the full detail
            return False
        return True

    def evaluated(self, indicator, detail, nontrivial=True):
        self.checked += 1
        if nontrivial:
            self.distinct.add((indicator, detail))
        if len(self.cases) < 12 and nontrivial and indicator not in self._sampled:
            self._sampled.add(indicator)  # one sample description per indicator
            self.cases.append(f"{indicator} {detail}")

    def note(self, key, n=1):
        self.notes[key] = self.notes.get(key, 0) + n

    def fail(self, group, indicator, detail, function, what, inp):
        case = f"{self.prop}:{group}:{indicator}:{detail}"
        if self.focus is not None and not case.startswith(self.focus):
            return
        key = f"{group}:{indicator}"
        self.counts[key] = self.counts.get(key, 0) + 1
        if self.counts[key] <= self.MAX_PER_GROUP:
            self.failures.append({"case": case, "function": function, "seed": self.seed,
                                  "detail": what, "input": inp})

    def result(self, bound):
        suppressed = {k: v - self.MAX_PER_GROUP for k, v in self.counts.items() if v > self.MAX_PER_GROUP}
        return {
            "status": "ok",
            "checked": self.checked,
            "distinct": len(self.distinct),
            "bound": bound,
            "failures": self.failures,
            "cases": self.cases,
            "failure_counts": dict(sorted(self.counts.items())),
            "suppressed": suppressed,
            "notes": dict(sorted(self.notes.items())),
        }


def field_series(readings, field=None):
    """per-candle list of one output field from Indicator.as_list() style readings"""
    out = []
    for r in readings:
        if field is None:
            out.append(r)
        elif isinstance(r, dict):
            out.append(r.get(field))
        else:
            out.append(None)
    return out


class Mismatch:
    def __init__(self, kind, index, got, want, tol, count):
        self.kind, self.index, self.got, self.want, self.tol, self.count = kind, index, got, want, tol, count

    def text(self):
        if self.kind == "value":
            return (f"index {self.index}: got {self.got!r}, reference {self.want:.10g} "
                    f"(|diff|={abs(self.got - self.want):.3g} > tol {self.tol:.3g}); {self.count} bad indices")
        if self.kind == "early":
            return f"index {self.index}: reading {self.got!r} before enough inputs exist (reference has none); {self.count} bad indices"
        if self.kind == "late":
            return f"index {self.index}: no reading although the statement pins the first reading here (reference {self.want:.10g}); {self.count} bad indices"
        if self.kind == "gap":
            return f"index {self.index}: None after an earlier reading (reference {self.want:.10g}); {self.count} bad indices"
        if self.kind == "never":
            return f"no reading on any candle although the reference has values from index {self.index} ({self.want:.10g})"
        if self.kind == "nonfinite":
            return f"index {self.index}: non-finite or non-numeric reading {self.got!r}"
        if self.kind == "late-data-dependent":
            return (f"index {self.index}: still no reading (reference {self.want:.10g}) although the same configuration "
                    f"has one at this index on ordinary data; first reading {self.count} candle(s) later than its own warm-up")
        return f"index {self.index}: {self.kind}"


def compare(real, ref, tol, pinned=False, stop=None, allow_early=None, rel=1e-9):
    """compare one real series with one reference series.
    tol: callable index -> absolute tolerance.  pinned: the statement fixes the first index, a late
    start is a failure (otherwise a later start is tolerated, reported by the caller as a note).
    stop: first index from which comparison is inconclusive (discontinuous decision within
    rounding error).  allow_early: callable(value) -> True for placeholder values that may appear
    before warm-up (e.g. False).  Returns (Mismatch | None, late_by)."""
    n = len(real)
    first = None
    count = 0
    seen = False
    late_by = 0
    ref_first = None
    for i in range(n):
        if stop is not None and i >= stop:
            break
        g, w = real[i], ref[i] if i < len(ref) else None
        if w is not None and ref_first is None and not is_nan(w):
            ref_first = i
        kind = None
        t = 0.0
        if g is not None and not isinstance(g, bool) and not (isinstance(g, (int, float)) and math.isfinite(g)):
            kind = "nonfinite"
        elif w is None:
            if g is not None and not (allow_early is not None and allow_early(g)):
                kind = "early"
        elif is_nan(w):
            if g is not None:
                seen = True
            continue
        elif g is None:
            if seen:
                kind = "gap"
            elif pinned:
                kind = "late"
            else:
                late_by += 1
        else:
            seen = True
            if isinstance(w, bool) or isinstance(g, bool):
                if bool(g) != bool(w):
                    kind, t = "value", 0.0
            else:
                t = tol(i) + rel * abs(w)
                if abs(g - w) > t:
                    kind = "value"
        if kind is not None:
            count += 1
            if first is None:
                first = Mismatch(kind, i, g, w, t, 0)
    if first is None and not seen and ref_first is not None and late_by > 0:
        # never produced anything although the reference did: not a "later warm-up"
        w = ref[ref_first]
        return Mismatch("never", ref_first, None, w, 0.0, late_by), late_by
    if first is not None:
        first.count = count
    return first, late_by


def unit(round_value):
    """largest error one rounding to round_value decimals can introduce"""
    return 0.5 * 10.0 ** (-round_value)


U4 = unit(4)  # sub-indicators are always built with the default round_value=4


class FieldRef:
    """reference for one output field: series, tolerance(index), options of compare()"""

    def __init__(self, ref, tol, stop=None, allow_early=None, pinned=False):
        self.ref, self.tol, self.stop, self.allow_early, self.pinned = ref, tol, stop, allow_early, pinned


def judge(readings, variants):
    """readings: Indicator.as_list(); variants: [(label, {field or None: FieldRef})].
    The real series passes when it matches ONE variant on every field over the whole stream.
    Returns (None, late) or ((label, field, Mismatch), late) for the best matching variant
    (fewest bad indices), `late` = how many candles later than the definitional minimum the first
    reading came (tolerated unless pinned)."""
    best = None
    best_late = 0
    for label, fields in variants:
        worst = None
        total = 0
        late_max = 0
        for field, fr in fields.items():
            mm, late = compare(field_series(readings, field), fr.ref, fr.tol, pinned=fr.pinned,
                               stop=fr.stop, allow_early=fr.allow_early)
            late_max = max(late_max, late)
            if mm is not None:
                total += mm.count if mm.kind != "never" else len(readings)
                if worst is None or mm.index < worst[1].index:
                    worst = (field, mm)
        if worst is None:
            return None, late_max
        if best is None or total < best[0]:
            best = (total, label, worst[0], worst[1])
            best_late = late_max
    return (best[1], best[2], best[3]), best_late


def const_tol(t):
    return lambda i: t


def run_real(cls, candles, kw, mode="batch"):
    """build the REAL indicator. batch: Ind(candles=..).calculate(); append: one candle at a time"""
    if mode == "batch":
        ind = cls(candles=candles, **kw)
        ind.calculate()
    else:
        ind = cls(**kw)
        for c in candles:
            ind.append(c)
    return ind


_STD_LATE = {}


def _std_late(name, cls, kw, rebuild, mode):
    """how many candles after the definitional minimum the real indicator starts on a plain random
    stream: a warm-up index must depend on the parameters only, so this is the tolerated lateness
    for every other stream of the same configuration (a data dependent later start is a failure)"""
    key = (name, kw_str(kw), mode)
    if key in _STD_LATE:
        return _STD_LATE[key]
    big = max([v for v in kw.values() if isinstance(v, int) and not isinstance(v, bool)] + [5])
    st = Stream("random", 4 * big + 40, 12345)
    late = 0
    try:
        variants_fn, prepare = rebuild(st)
        candles = st.candles()
        extra = prepare(candles) if prepare else None
        variants = variants_fn(extra)
        readings = run_real(cls, candles, kw, mode).as_list()
        lates = []
        for _, fields in variants:
            worst = 0
            for field, fr in fields.items():
                real = field_series(readings, field)
                rf = next((i for i, v in enumerate(fr.ref) if defined(v)), None)
                gf = next((i for i, v in enumerate(real) if v is not None and (fr.allow_early is None or not fr.allow_early(v) or (rf is not None and i >= rf))), None)
                if rf is not None and gf is not None and gf > rf:
                    worst = max(worst, gf - rf)
            lates.append(worst)
        late = min(lates) if lates else 0
    except Exception:
        late = 0
    _STD_LATE[key] = late
    return late


def evaluate(col, name, cls, kw, stream, detail, rebuild, group_fn, mode="batch", extra_inp=None, nan_is_undefined=True):
    """one (indicator, params, stream) evaluation against reference variants.
    rebuild(stream) -> (variants_fn, prepare): variants_fn(extra) -> [(label, {field: FieldRef})];
    prepare(candles) -> extra (runs inner indicators / injects inputs) or None;
    group_fn(kind, field, exc_or_mismatch) -> defect-class slug."""
    if not col.want(name, detail):
        return
    variants_fn, prepare = rebuild(stream)
    candles = stream.candles()
    extra = None
    if prepare is not None:
        try:
            extra = prepare(candles)
        except Exception as e:
            col.note(f"skipped: preparing the input raised {type(e).__name__}")
            return
    variants = variants_fn(extra)
    nontrivial = any(defined(v) for fr in variants[0][1].values() for v in fr.ref)
    col.evaluated(name, detail, nontrivial)
    inp = {"indicator": name, "kwargs": dict(kw), "stream": stream.desc(), "mode": mode}
    if extra_inp:
        inp.update(extra_inp)
    fn_default = f"{cls.__module__}.{cls.__qualname__}._calculate_reading"
    try:
        ind = run_real(cls, candles, kw, mode)
        readings = ind.as_list()
    except Exception as e:
        fn, line, idx = hexital_frame(e)
        vals = [fr.ref[idx] for fr in variants[0][1].values()] if idx is not None and idx < stream.n else []
        if nan_is_undefined and vals and all(v is None or is_nan(v) for v in vals) and any(is_nan(v) for v in vals):
            col.note(f"not judged: {name} raised {type(e).__name__} where the reference is undefined (0/0)")
            return
        inp["first_failing_index"] = idx
        inp["candles_near"] = stream.sample(idx if idx is not None else 0)
        col.fail(group_fn("exception", None, e), name, detail, fn or fn_default,
                 f"{short_exc(e)} at candle index {idx} (line {line})", inp)
        return
    res, late = judge(readings, variants)
    if res is not None and res[2].kind == "never" and res[2].count <= _std_late(name, cls, kw, rebuild, mode):
        # the stream ends before this configuration's own (later, data independent) warm-up index
        col.note(f"tolerated: {name} stream shorter than its own warm-up")
        res = None
        late = 0
    if res is None and late:
        allowed = _std_late(name, cls, kw, rebuild, mode)
        if late > allowed:
            # first reading later than this configuration's own warm-up on ordinary data
            field, fr = next(iter(variants[0][1].items()))
            idx = next((i for i, v in enumerate(fr.ref) if defined(v)), 0) + allowed
            w = fr.ref[idx] if idx < len(fr.ref) and defined(fr.ref[idx]) else 0.0
            res = (variants[0][0], field, Mismatch("late-data-dependent", idx, None, w, 0.0, late - allowed))
        else:
            col.note(f"tolerated: {name} first reading {late} candle(s) later than the definitional minimum (same on ordinary data)")
    if res is not None:
        label, field, mm = res
        mm.readings = readings  # lets group_fn look at the whole real series
        inp["first_failing_index"] = mm.index
        inp["field"] = field
        inp["closest_convention"] = label
        inp["candles_near"] = stream.sample(mm.index)
        col.fail(group_fn(mm.kind, field, mm), name, detail, fn_default,
                 (f"field {field}: " if field else "") + mm.text(), inp)


GENERIC_GROUP = {"value": "value-mismatch", "early": "warmup-early", "late": "warmup-late", "gap": "gap-after-warmup",
                 "late-data-dependent": "warmup-data-dependent",
                 "never": "no-reading", "nonfinite": "non-finite-reading"}
