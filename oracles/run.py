"""Bounded stand-in runner (runs under /venv/bin/python on the REAL code; never counted as proved).

usage: run.py <property> --tier quick|thorough --seed N [--focus <case-prefix>]
prints one JSON object on the last line of stdout:
  {"status": "ok", "checked": <int>, "distinct": <int>, "bound": "<text>",
   "failures": [{"case": "<Cxx>:<group>:<detail>", "function": "<qualified name or ''>", "seed": N,
                 "detail": "<what differed>", "input": {...small reproducer...}}],
   "cases": ["<a few case descriptions actually run>"]}
A property module oracles/cXX.py exposes run(tier, seed, focus) -> that dict.
"""
import argparse
import importlib
import json
import os
import sys
import traceback

sys.path.insert(0, os.path.dirname(os.path.dirname(os.path.abspath(__file__))))


def main():
    ap = argparse.ArgumentParser()
    ap.add_argument("prop")
    ap.add_argument("--tier", default="quick")
    ap.add_argument("--seed", type=int, default=0)
    ap.add_argument("--focus")
    a = ap.parse_args()
    try:
        m = importlib.import_module("oracles." + a.prop.lower())
    except ModuleNotFoundError:
        print(json.dumps({"status": "absent", "checked": 0, "distinct": 0, "failures": [], "cases": [], "bound": "no stand-in"}))
        return 0
    try:
        r = m.run(a.tier, a.seed, a.focus)
        r.setdefault("status", "ok")
        print(json.dumps(r, default=str))
    except Exception:
        print(json.dumps({"status": "error", "stderr": traceback.format_exc()[-3000:], "checked": 0, "failures": []}))
    return 0


if __name__ == "__main__":
    sys.exit(main())
