"""C13 bounded stand-in: indicators sharing candles do not interfere with one another.

Configurations are enumerated from INDICATOR_MAP (small parameters; variants with period 2 / 20 and another input, so
equal periods, names contained in other names and composites with default-named helpers all occur).  For every pair
with distinct names and price inputs only:
  readings of A in Hexital([A]) == in Hexital([A, B]) == in Hexital([B, A]);
  purge(B) / recalculate(B) / remove_indicator(B) leave A's readings unchanged (and vice versa);
  the same with two standalone indicators sharing one candle list (B.purge(), B.recalculate()).
"""
import inspect
from datetime import timedelta
import json
import random
from copy import deepcopy

from hexital import Hexital
from hexital.analysis import movement
from hexital.indicators import INDICATOR_MAP

from oracles import gen

PROP = "C13"


class Col:
    def __init__(self, prop, seed, focus):
        self.prop, self.seed, self.focus = prop, seed, focus
        self.checked = 0
        self.scen = set()
        self.cases = []
        self.f = {}
        self.cnt = {}
        self.shorts = {}

    def tick(self, n=1):
        self.checked += n

    def scenario(self, key):
        self.scen.add(key)

    def note(self, text):
        if len(self.cases) < 12 and text not in self.cases:
            self.cases.append(text)

    def fail(self, group, short, function, detail, inp):
        case = f"{self.prop}:{group}:{short}"
        if self.focus and not case.startswith(self.focus):
            return
        key = (group, function)
        self.cnt[key] = self.cnt.get(key, 0) + 1
        self.shorts.setdefault(key, {}).setdefault(short, 0)
        self.shorts[key][short] += 1
        size = len(json.dumps(inp, default=str))
        cur = self.f.get(case)
        if cur is None:
            if sum(1 for e in self.f.values() if e["_key"] == key) >= 3:
                return
        elif size >= cur["_size"]:
            return
        self.f[case] = {"case": case, "function": function, "seed": self.seed, "detail": str(detail)[:400],
                        "input": inp, "_key": key, "_size": size}

    def result(self, bound):
        fails = []
        for e in sorted(self.f.values(), key=lambda e: e["case"]):
            n = self.cnt[e["_key"]]
            e0 = e
            e = {k: v for k, v in e.items() if not k.startswith("_")}
            e["detail"] += f" [{n} failing evaluations in this (group, function)"
            kept = {x["case"].split(":", 2)[2] for x in self.f.values() if x["_key"] == e0["_key"]}
            rest = [f"{s}({c})" for s, c in sorted(self.shorts[e0["_key"]].items()) if s not in kept]
            e["detail"] += (f"; cases not listed separately: {', '.join(rest[:14])}" + ("..." if len(rest) > 14 else "") if rest else "") + "]"
            fails.append(e)
        return {"status": "ok", "checked": self.checked, "distinct": len(self.scen), "bound": bound,
                "failures": fails, "cases": self.cases}


def stream(kind, n, seed=0, **kw):
    """gen.stream (deterministic per seed); kept as a named entry point because reproducers refer to it"""
    return gen.stream(kind, n, seed=seed, **kw)


SMALL = {"period": 5, "fast_period": 3, "slow_period": 6, "signal_period": 3}
BASE_PARAMS = ("candles", "fullname_override", "name_suffix", "round_value", "timeframe", "timeframe_fill",
               "candles_lifespan", "candlestick_type", "kwargs")


def small_config(cls):
    kw = {}
    for p in inspect.signature(cls).parameters.values():
        if p.name in BASE_PARAMS:
            continue
        if p.name == "analysis":
            kw["analysis"] = movement.rising
            kw["args"] = {"indicator": "close", "length": 3}
        elif p.name == "input_value" and p.default is inspect.Parameter.empty:
            kw["input_value"] = "positive" if cls.__name__ == "Counter" else "close"
        elif p.default is inspect.Parameter.empty:
            return None
        elif "period" in p.name and isinstance(p.default, int):
            kw[p.name] = min(p.default, SMALL.get(p.name, 4))
    return kw


def configs():
    """(label, map key, kwargs) - every class with small parameters, plus period 2 / 20 and input 'high' variants"""
    out = []
    for key, cls in INDICATOR_MAP.items():
        kw = small_config(cls)
        if kw is None:
            continue
        params = inspect.signature(cls).parameters
        out.append((key, key, kw))
        if "input_value" in params and params["input_value"].default is not inspect.Parameter.empty:
            out.append((f"{key}[high]", key, dict(kw, input_value="high")))
        if "period" in params:
            out.append((f"{key}[p2]", key, dict(kw, period=2)))
            out.append((f"{key}[p20]", key, dict(kw, period=20)))
        if key in ("EMA", "SMA", "KC", "RSI", "MACD", "BBANDS", "ATR"):
            # a name that extends another member's name by "_<suffix>" (not a helper of it)
            out.append((f"{key}[sfx]", key, dict(kw, name_suffix="high")))
        if "multiplier" in params:
            extra = {"input_value": "high"} if "input_value" in params and params["input_value"].default is not inspect.Parameter.empty else {}
            out.append((f"{key}[m3]", key, dict(kw, multiplier=3.0, **extra)))
        if key == "Amorph":
            out.append(("Amorph[highest]", key, {"analysis": movement.highest, "args": {"indicator": "high", "length": 4}}))
    return out


def show_kw(kw):
    return {k: (getattr(v, "__name__", v)) for k, v in kw.items()}


def build(cfg, **extra):
    _, key, kw = cfg
    return INDICATOR_MAP[key](**deepcopy(kw), **extra)


def call(fn, *a, **k):
    try:
        return fn(*a, **k), None
    except Exception as e:  # noqa: BLE001
        return None, e


def keys_on(candles):
    ks = set()
    for c in candles:
        ks |= set(c.indicators) | set(c.sub_indicators)
    return ks


def snapshot(candles):
    return [(deepcopy(c.indicators), deepcopy(c.sub_indicators)) for c in candles]


def restore(candles, snap):
    for c, (a, b) in zip(candles, snap):
        c.indicators = deepcopy(a)
        c.sub_indicators = deepcopy(b)


def first_diff(a, b):
    for i, (x, y) in enumerate(zip(a, b)):
        if x != y:
            return f"first difference at candle {i}: {x!r} vs {y!r}"
    return f"lengths {len(a)} vs {len(b)}"


class Ctx:
    def __init__(self, col, candles, stream_text):
        self.col, self.candles, self.stream_text = col, candles, stream_text
        self.alone = {}

    def baseline(self, cfg):
        label = cfg[0]
        if label not in self.alone:
            def go():
                ind = build(cfg)
                h = Hexital("alone", gen.clone(self.candles), [ind])
                h.calculate()
                return {"name": ind.name, "col": list(ind.as_list()), "keys": keys_on(h.candles()), "cls": type(ind)}
            res, exc = call(go)
            self.alone[label] = None if exc is not None else res
        return self.alone[label]


def owner_function(base_a, base_b):
    """the composite that writes an entry under the other indicator's top-level name (its internally named helper)"""
    for x, y in ((base_a, base_b), (base_b, base_a)):
        if y["name"] in x["keys"]:
            cls = x["cls"]
            return f"{cls.__module__}.{cls.__qualname__}._initialise"
    shared = base_a["keys"] & base_b["keys"]
    for base in (base_a, base_b):
        if any(k != base["name"] for k in shared):
            cls = base["cls"]
            return f"{cls.__module__}.{cls.__qualname__}._initialise"
    return "hexital.core.indicator.Indicator._set_reading"


def check_pair(ctx, cfg_a, cfg_b):
    col = ctx.col
    a0, b0 = ctx.baseline(cfg_a), ctx.baseline(cfg_b)
    if a0 is None or b0 is None or a0["name"] == b0["name"]:
        return False
    shared = a0["keys"] & b0["keys"]
    inp = {"A": {"indicator": cfg_a[1], **show_kw(cfg_a[2])}, "B": {"indicator": cfg_b[1], **show_kw(cfg_b[2])},
           "names": [a0["name"], b0["name"]], "stream": ctx.stream_text}
    col.scenario((cfg_a[0], cfg_b[0]))
    for order in ((cfg_a, cfg_b), (cfg_b, cfg_a)):
        inds = [build(c) for c in order]
        by_label = {order[0][0]: inds[0], order[1][0]: inds[1]}
        h = Hexital("pair", gen.clone(ctx.candles), list(inds))
        _, exc = call(h.calculate)
        order_txt = "+".join(c[0] for c in order)
        if exc is not None:
            col.tick()
            col.fail("helper-name-collision" if shared else "presence-interference", f"{a0['name']}+{b0['name']}/calculate-raises",
                     owner_function(a0, b0), f"both calculate alone, together ({order_txt}) calculate raised "
                     f"{type(exc).__name__}: {exc}; shared entries {sorted(shared)}", dict(inp, order=order_txt))
            continue
        for cfg, base in ((cfg_a, a0), (cfg_b, b0)):
            col.tick()
            got = list(by_label[cfg[0]].as_list())
            if got != base["col"]:
                other = b0 if base is a0 else a0
                col.fail("helper-name-collision" if shared else "presence-interference",
                         f"{base['name']}-with-{other['name']}", owner_function(a0, b0),
                         f"{base['name']} alone != with {other['name']} registered (order {order_txt}): "
                         f"{first_diff(base['col'], got)}; entries written by both: {sorted(shared)}", dict(inp, order=order_txt))
        snap = snapshot(h.candles())
        registry = dict(h._indicators)
        good = all(list(by_label[c[0]].as_list()) == b["col"] for c, b in ((cfg_a, a0), (cfg_b, b0)))
        if not good:
            continue  # already reported; operations on an inconsistent pair would only repeat it
        for target_cfg, tbase, victim_cfg, vbase in ((cfg_b, b0, cfg_a, a0), (cfg_a, a0, cfg_b, b0)):
            victim = by_label[victim_cfg[0]]
            for op in ("purge", "recalculate", "remove_indicator"):
                col.tick()
                _, exc = call(getattr(h, op), tbase["name"])
                got, exc2 = call(lambda: list(victim.as_list()))
                exc = exc or exc2
                if exc is not None or got != vbase["col"]:
                    if tbase["name"] != vbase["name"] and tbase["name"] in vbase["name"]:
                        group, fn = "purge-substring", "hexital.core.hexital.Hexital.purge"
                    elif shared:
                        group, fn = "purge-helper-collision", owner_function(a0, b0)
                    else:
                        group, fn = "purge-interference", "hexital.core.hexital.Hexital." + op
                    what = f"raised {type(exc).__name__}: {exc}" if exc is not None else first_diff(vbase["col"], got)
                    col.fail(group, f"{tbase['name']}-wipes-{vbase['name']}", fn,
                             f"Hexital.{op}({tbase['name']!r}) changed the readings of {vbase['name']}: {what}"
                             + (f"; entries written by both: {sorted(shared)}" if shared else ""),
                             dict(inp, order=order_txt, op=f"{op}({tbase['name']})"))
                restore(h.candles(), snap)
                h._indicators.clear()
                h._indicators.update(registry)
    return True


def check_shared_list(ctx, cfg_a, cfg_b):
    """two standalone indicators constructed over the same candle list"""
    col = ctx.col
    a0, b0 = ctx.baseline(cfg_a), ctx.baseline(cfg_b)
    if a0 is None or b0 is None or a0["name"] == b0["name"]:
        return
    shared = a0["keys"] & b0["keys"]
    inp = {"A": {"indicator": cfg_a[1], **show_kw(cfg_a[2])}, "B": {"indicator": cfg_b[1], **show_kw(cfg_b[2])},
           "names": [a0["name"], b0["name"]], "stream": ctx.stream_text, "form": "standalone indicators over one list"}
    lst = gen.clone(ctx.candles)
    a, b = build(cfg_a, candles=lst), build(cfg_b, candles=lst)
    for step, fn in (("calculate both", lambda: (a.calculate(), b.calculate())), ("B.purge()", b.purge),
                     ("B.recalculate()", b.recalculate)):
        col.tick()
        _, exc = call(fn)
        got, exc2 = call(lambda: list(a.as_list()))
        exc = exc or exc2
        if exc is not None or got != a0["col"]:
            what = f"raised {type(exc).__name__}: {exc}" if exc is not None else first_diff(a0["col"], got)
            if step == "calculate both":
                group = "helper-name-collision" if shared else "presence-interference"
            else:
                group = "purge-helper-collision" if shared else "purge-interference"
            col.fail(group, f"shared-list/{b0['name']}-changes-{a0['name']}",
                     owner_function(a0, b0), f"after {step} on {b0['name']}, {a0['name']} differs from running alone: {what}"
                     + (f"; entries written by both: {sorted(shared)}" if shared else ""), dict(inp, step=step))
            return


def check_timeframe_pair(col, cfg_a, cfg_b, seed, tf="T5"):
    """two members on the same derived timeframe: an operation aimed at B (or removing B) in the middle of the stream
    must leave A exactly as in a Hexital that only ever held A and was fed identically"""
    n = 64
    candles = stream("random", n, seed=seed + 5)
    half = 31
    stream_text = f"oracles.c13.stream('random',{n},seed={seed + 5})"

    def feed(h, op=None, target=None):
        h.append(gen.clone(candles[:half]))
        if op is not None:
            getattr(h, op)(target)
        for c in gen.clone(candles[half:]):
            h.append(c)
        h.calculate()
        return h

    a_alone, exc = call(lambda: build(cfg_a, timeframe=tf))
    if exc is not None:
        return
    base, exc = call(lambda: feed(Hexital("alone", [], [a_alone])))
    if exc is not None:
        return
    want_c, want_r = [(c.timestamp, c.open, c.high, c.low, c.close, c.volume) for c in a_alone.candles], list(a_alone.as_list())
    for op in ("purge", "recalculate", "remove_indicator"):
        col.tick()
        # the other member asks for a lifespan of its own: inside a Hexital it adopts the shared manager's configuration
        a, b = build(cfg_a, timeframe=tf), build(cfg_b, timeframe=tf, candles_lifespan=timedelta(minutes=10))
        if a.name == b.name:
            return
        col.scenario(("tf", cfg_a[0], cfg_b[0], op))
        inp = {"A": {"indicator": cfg_a[1], **show_kw(cfg_a[2])}, "B": {"indicator": cfg_b[1], **show_kw(cfg_b[2])}, "timeframe": tf,
               "names": [a.name, b.name], "stream": stream_text, "fed": f"{half} candles, then Hexital.{op}({b.name!r}), then the rest one by one"}
        _, exc = call(lambda: feed(Hexital("pair", [], [a, b]), op, b.name))
        got_c = [(c.timestamp, c.open, c.high, c.low, c.close, c.volume) for c in a.candles] if exc is None else None
        if exc is not None or got_c != want_c or list(a.as_list()) != want_r:
            what = (f"raised {type(exc).__name__}: {exc}" if exc is not None else
                    (f"candles: {first_diff(want_c, got_c)}" if got_c != want_c else first_diff(want_r, list(a.as_list()))))
            col.fail("timeframe-interference", f"{b.name}-{op}-changes-{a.name}", "hexital.core.hexital.Hexital." + op,
                     f"Hexital.{op}({b.name!r}) half way through the stream changed {a.name} (same timeframe {tf}): {what}", inp)


def run(tier, seed, focus=None):
    rnd = random.Random(seed)
    col = Col(PROP, seed, focus)
    thorough = tier == "thorough"
    cfgs = configs()
    by_label = {c[0]: c for c in cfgs}
    n = 46
    kind = "random"
    candles = stream(kind, n, seed=seed, with_ts=False)
    ctx = Ctx(col, candles, f"oracles.c13.stream({kind!r},{n},seed={seed},with_ts=False)")
    usable = [c for c in cfgs if ctx.baseline(c) is not None]
    dropped = [c[0] for c in cfgs if ctx.baseline(c) is None]
    pairs = [(a, b) for i, a in enumerate(usable) for b in usable[i + 1:]]
    must = [("BBANDS", "SMA[high]"), ("BBANDS", "SMA"), ("BBANDS", "STDEV[high]"), ("ATR", "TR"), ("EMA[p2]", "EMA[p20]"),
            ("SMA[p2]", "SMA[p20]"), ("SMA", "SMA[p20]"), ("KC", "TR"), ("Supertrend", "TR"), ("ADX", "ATR"), ("STDEVTHRES", "STDEV"),
            ("EMA", "EMA[sfx]"), ("SMA", "SMA[sfx]"), ("KC", "KC[sfx]"), ("RSI", "RSI[sfx]"), ("MACD", "MACD[sfx]"), ("BBANDS", "BBANDS[sfx]"),
            ("ATR", "ATR[sfx]"), ("KC", "KC[m3]"), ("Supertrend", "Supertrend[m3]"), ("STDEVTHRES", "STDEVTHRES[m3]"), ("KC[sfx]", "KC[m3]")]
    must = [(by_label[a], by_label[b]) for a, b in must if a in by_label and b in by_label]
    if thorough:
        chosen = pairs
    else:
        rest = [p for p in pairs if p not in must]
        chosen = must + rnd.sample(rest, min(len(rest), 1300))
    done = 0
    for a, b in chosen:
        if check_pair(ctx, a, b):
            done += 1
    col.note(f"{done} pairs over {len(usable)} configurations in a Hexital: alone vs together (both orders), then "
             f"purge/recalculate/remove_indicator aimed at either member")
    shared_pairs = must + rnd.sample(pairs, min(len(pairs), 1500 if thorough else 200))
    for a, b in shared_pairs:
        check_shared_list(ctx, a, b)
        check_shared_list(ctx, b, a)
    col.note(f"{len(shared_pairs)} pairs (both roles) as standalone indicators constructed over one shared candle list: "
             f"calculate both, B.purge(), B.recalculate()")
    tf_pairs = [(by_label[x], by_label[y]) for x, y in (("EMA", "SMA"), ("SMA", "EMA"), ("RSI", "MACD"), ("ATR", "KC"), ("BBANDS", "EMA[p2]"), ("MACD", "ATR"))
                if x in by_label and y in by_label]
    tf_pairs += rnd.sample(pairs, min(len(pairs), 60 if thorough else 8))
    for a, b in tf_pairs:
        check_timeframe_pair(col, a, b, seed)
    col.note(f"{len(tf_pairs)} pairs as members on one derived timeframe (T5): purge / recalculate / remove_indicator of B half way through the stream")
    col.note("configurations: " + ", ".join(f"{c[0]}->{ctx.baseline(c)['name']}" for c in usable[:40]))
    if dropped:
        col.note("configurations dropped because they raise on their own: " + ", ".join(dropped))
    bound = (f"{len(usable)} configurations enumerated from INDICATOR_MAP (small parameters; variants input 'high', period 2, "
             f"period 20, a name_suffix extending another member's name, another multiplier; {len(dropped)} dropped for raising alone) -> {len(pairs)} pairs with distinct names, "
             f"{'all' if thorough else len(chosen)} checked in a Hexital (2 orders x 3 operations x 2 targets) and "
             f"{len(shared_pairs)} as standalone indicators on one list, on one {kind} stream of {n} candles; seed {seed}")
    return col.result(bound)
