"""C18 bounded oracle: timeframe bucketing must not depend on the process time zone.

The same collapse jobs (real hexital.core.candle_manager.CandleManager, given at construction and appended one by one)
are executed in SUBPROCESSES started with different TZ environment values; every zone's result is compared with the
UTC run and with ref_store.resample (calendar arithmetic on the naive timestamps, no zone involved).
Candle i carries volume 2**i, so a bucket's volume is the exact set of candles assigned to it.

`python c18.py --worker` is the subprocess entry point (reads jobs as JSON on stdin, prints results as JSON).
"""
from __future__ import annotations

import json
import os
import random
import subprocess
import sys
from datetime import datetime, timedelta

PROP = "C18"
FN_ROUND = "hexital.utils.timeframe.round_down_timestamp"

# zone -> (class slug for its regular offset, expected UTC offset in seconds on 2023-01-10 12:00 local [sanity probe])
ZONES = {
    "UTC": ("utc", 0),
    "Asia/Kolkata": ("halfhour-offset", 19800),
    "Asia/Kathmandu": ("45min-offset", 20700),
    "America/St_Johns": ("halfhour-offset", -12600),
    "Europe/London": ("wholehour-offset", 0),
    "America/New_York": ("wholehour-offset", -18000),
    "Australia/Lord_Howe": ("halfhour-offset", 39600),
}
# (date, zone whose offset changes that day or None)
DATES = [
    ("2023-01-10", None),
    ("2023-06-01", None),
    ("2023-03-26", "Europe/London"),
    ("2023-10-29", "Europe/London"),
    ("2023-03-12", "America/New_York"),
    ("2023-11-05", "America/New_York"),
    ("2023-04-02", "Australia/Lord_Howe"),
    ("2023-10-01", "Australia/Lord_Howe"),
]
TF_QUICK = ["S30", "T1", "T5", "T15", "T45", "H1", "H4", "D1"]
TF_THOROUGH = ["S1", "S30", "S45", "T1", "T5", "T7", "T15", "T30", "T45", "H1", "H2", "H3", "H4", "H6", "H12", "D1", "D2", "D7"]


# ----------------------------------------------------------------------------- worker (runs under the zone)
def worker():
    import calendar
    import time

    from hexital.core.candle import Candle
    from hexital.core.candle_manager import CandleManager

    spec = json.load(sys.stdin)
    probe = datetime(2023, 1, 10, 12, 0, 0)
    out = {"tz": os.environ.get("TZ"), "tzname": list(time.tzname), "probe_offset": calendar.timegm(probe.timetuple()) - probe.timestamp(), "results": {}}

    def mk(rows):
        return [Candle(open=r[1], high=r[2], low=r[3], close=r[4], volume=r[5], timestamp=datetime.fromisoformat(r[0])) for r in rows]

    def dump(m):
        return [[c.timestamp.isoformat(), c.open, c.high, c.low, c.close, c.volume] for c in m.candles]

    for job in spec["jobs"]:
        res = {}
        for sched in ("ctor", "ones", "ctor-str"):
            try:
                if sched == "ctor":
                    m = CandleManager(mk(job["rows"]), timeframe=job["tf"])
                elif sched == "ctor-str":
                    # the same naive wall-clock timestamps handed in as ISO strings (Candle parses them)
                    m = CandleManager([Candle(open=r[1], high=r[2], low=r[3], close=r[4], volume=r[5], timestamp=r[0]) for r in job["rows"]],
                                      timeframe=job["tf"])
                else:
                    m = CandleManager(timeframe=job["tf"])
                    for c in mk(job["rows"]):
                        m.append(c)
                res[sched] = dump(m)
            except Exception as e:  # noqa
                res[sched] = {"error": f"{type(e).__name__}: {e}"[:90]}
        out["results"][job["id"]] = res
    print(json.dumps(out))


# ----------------------------------------------------------------------------- parent
def _jobs(rnd, tfs, thorough):
    from oracles import ref_store as R

    jobs = []
    for date, _zone in DATES:
        day = datetime.fromisoformat(date)
        for tf in tfs:
            tf_s = R.tf_seconds(tf)
            if tf_s <= 1800:
                # straddle the local transition instants 01:00, 01:30, 02:00, 02:30, 03:00 with ~20 buckets of candles
                starts = [("0058", timedelta(minutes=58)), ("0158", timedelta(hours=1, minutes=58)), ("0205", timedelta(hours=2, minutes=5)), ("0128", timedelta(hours=1, minutes=28))]
                if tf_s >= 300:
                    starts = [("0020", timedelta(minutes=20)), ("0150", timedelta(hours=1, minutes=50)), ("0205", timedelta(hours=2, minutes=5))]
                if not thorough:
                    starts = starts[:3]
            else:
                starts = [("prev-day", -timedelta(hours=30))] + ([("2030", -timedelta(hours=3, minutes=30))] if thorough else [])
            for label, off in starts:
                n = 44
                step = max(1, tf_s // 3)
                s = R.wall_seconds(day + off) + rnd.randint(0, step)
                rows = []
                price = 100.0
                for i in range(n):
                    if i:
                        s += rnd.choice((step, step, step, max(1, step // 2), 2 * step, 0))
                    if rnd.random() < 0.15:
                        s = (s // tf_s + 1) * tf_s  # land exactly on a boundary
                    c = price + rnd.uniform(-2, 2)
                    rows.append([R.from_wall(s).isoformat(), price, max(price, c) + 1, min(price, c) - 1, c, 1 << i])
                    price = c
                jobs.append({"id": f"{tf}/{date}/{label}", "tf": tf, "date": date, "rows": rows})
    return jobs


def _run_zone(zone, jobs):
    import hexital

    repo = os.path.dirname(os.path.dirname(os.path.abspath(hexital.__file__)))
    env = dict(os.environ)
    env["TZ"] = zone
    env["PYTHONPATH"] = os.pathsep.join([repo, env.get("PYTHONPATH", "")])
    p = subprocess.run(
        [sys.executable, os.path.abspath(__file__), "--worker"],
        input=json.dumps({"jobs": jobs}),
        capture_output=True,
        text=True,
        env=env,
        timeout=300,
    )
    if p.returncode != 0:
        raise RuntimeError(f"worker for TZ={zone} exited {p.returncode}: {p.stderr[-400:]}")
    return json.loads(p.stdout.strip().splitlines()[-1])


def _members(volume):
    return [i for i in range(volume.bit_length()) if volume >> i & 1]


def _describe(got, want):
    """first difference between two dumped bucket lists in terms of label / membership"""
    if isinstance(got, dict):
        return "exception", got["error"]
    for i in range(min(len(got), len(want))):
        if got[i] != want[i]:
            if got[i][0] != want[i][0] and got[i][5] == want[i][5]:
                return "label", f"bucket {i} holds candles {_members(got[i][5])[:6]} in both runs but is labelled {got[i][0]} instead of {want[i][0]}"
            if got[i][5] != want[i][5]:
                return "assignment", f"bucket {i} (label {got[i][0]} vs {want[i][0]}) holds candles {_members(got[i][5])[:8]} instead of {_members(want[i][5])[:8]}"
            return "values", f"bucket {i}: {got[i]} vs {want[i]}"
    return "count", f"{len(got)} buckets instead of {len(want)}"


def run(tier, seed, focus=None):
    from oracles import ref_store as R

    rep = R.Report(PROP, seed, focus)
    rnd = random.Random(seed)
    thorough = tier == "thorough"
    tfs = TF_THOROUGH if thorough else TF_QUICK
    zonedir = os.environ.get("TZDIR", "/usr/share/zoneinfo")
    zones, missing = [], []
    for z in ZONES:
        (zones if z == "UTC" or os.path.exists(os.path.join(zonedir, z)) else missing).append(z)
    jobs = _jobs(rnd, tfs, thorough)
    jobmap = {j["id"]: j for j in jobs}

    # reference expectations (no zone involved)
    want = {}
    for j in jobs:
        rows = [(datetime.fromisoformat(r[0]),) + tuple(r[1:]) for r in j["rows"]]
        want[j["id"]] = [[b[0].isoformat()] + list(b[1:]) for b in R.resample(rows, R.tf_seconds(j["tf"]))]

    results = {}
    for z in zones:
        try:
            out = _run_zone(z, jobs)
        except Exception as e:  # noqa
            rep.notes.append(f"zone {z}: worker failed ({type(e).__name__}: {str(e)[:120]}), skipped")
            continue
        if abs(out["probe_offset"] - ZONES[z][1]) > 1:
            rep.notes.append(f"zone {z}: TZ not effective in subprocess (offset {out['probe_offset']}), skipped")
            continue
        results[z] = out["results"]
    if missing:
        rep.notes.append("zones missing from " + zonedir + " and skipped: " + ", ".join(missing))

    utc = results.get("UTC", {})
    # pass 1: which (zone, tf) pairs fail on ordinary days -> offset defect, not transition defect
    def bad(z, jid, sched):
        got = results[z][jid][sched]
        return got != want[jid]

    offset_fail = set()
    for z in results:
        for j in jobs:
            if dict(DATES)[j["date"]] is None and any(bad(z, j["id"], s) for s in ("ctor", "ones", "ctor-str")):
                offset_fail.add((z, j["tf"]))

    prio = {tf: i for i, tf in enumerate(["H1", "D1", "H4", "T30", "T45", "T15", "T5", "T1", "S30"])}
    for z in results:
        for j in sorted(jobs, key=lambda j: prio.get(j["tf"], 99)):
            jid = j["id"]
            merges = len(want[jid]) < len(j["rows"])
            failing = []
            for sched in ("ctor", "ones", "ctor-str"):
                if not rep.wants([f"{z}/{jid}/"]):
                    continue
                rep.checked += 1
                if merges and z != "UTC":
                    rep.distinct += 1
                got = results[z][jid][sched]
                ref_ok = got == want[jid]
                utc_ok = z == "UTC" or got == utc.get(jid, {}).get(sched)
                if not (ref_ok and utc_ok):
                    failing.append((sched, got, ref_ok))
            if not failing:
                continue
            sched, got, ref_ok = failing[0]
            did = f"{z}/{jid}/{'+'.join(f[0] for f in failing)}"
            rep.sample(did)
            target = want[jid] if not ref_ok else utc[jid][sched]
            kind, text = _describe(got, target)
            transition_zone = dict(DATES)[j["date"]]
            if z == "UTC":
                group = "utc-differs-from-reference"
            elif transition_zone == z and (z, j["tf"]) not in offset_fail:
                group = "tz-dst-transition"
            else:
                group = "tz-" + ZONES[z][0]
            rep.fail(
                group,
                did,
                FN_ROUND,
                f"TZ={z} {j['tf']} {kind} differs from {'reference' if not ref_ok else 'UTC run'} ({'every schedule' if len(failing) == 3 else '+'.join(f[0] for f in failing)}): {text}",
                {
                    "TZ": z,
                    "timeframe": j["tf"],
                    "schedule": sched,
                    "rows_ts_close": [r[:1] + [r[4]] for r in j["rows"][:8]],
                    "n": len(j["rows"]),
                    "job": jid,
                    "note": "volume of candle i is 2**i; rerun the job under TZ=<zone> and TZ=UTC",
                },
                z,
                dedupe=j["tf"],
            )
    bound = (
        f"subprocess per zone {sorted(results)}; {len(jobs)} collapse jobs = {len(tfs)} timeframes {tfs} x 8 dates (2 ordinary, "
        "DST transition days of Europe/London 2023-03-26/10-29, America/New_York 2023-03-12/11-05, Australia/Lord_Howe "
        "2023-04-02/10-01) x start positions straddling 01:00-03:00 local (small timeframes) or the previous day (hour/day "
        "timeframes); 44 second-resolution candles each, given at construction and appended one by one; bucket membership "
        "(volume bit-sets), labels and OHLC compared with the UTC subprocess and with ref_store.resample."
    )
    return rep.result(bound)


if __name__ == "__main__":
    if "--worker" in sys.argv:
        worker()
    else:
        sys.path.insert(0, os.path.dirname(os.path.dirname(os.path.abspath(__file__))))
        print(json.dumps(run("quick", 0), default=str))
