"""C12 bounded oracle: timeframe_fill=True yields fill(resample(stream)) - contiguous, flat, zero-volume inserts,
real buckets untouched, same outcome for every append schedule.

Real code exercised: CandleManager(timeframe_fill=True) (and Indicator/Hexital routes on a subset), all schedules of C03.
"""
from __future__ import annotations

import random
from datetime import timedelta

from oracles import c03
from oracles import ref_store as R

PROP = "C12"
FN_FILL = "hexital.core.candle_manager.CandleManager.fill_missing_candles"


def _reference(stream, tf_s):
    return R.fill(R.resample(stream, tf_s), tf_s)


def _derived(rep, did, inp, stream, got, tf, tf_s):
    """clauses of the statement restated directly on the observed candles (independent of ref_store.fill)"""
    step = timedelta(seconds=tf_s)
    for i, (a, b) in enumerate(zip(got, got[1:])):
        if b[0] - a[0] != step:
            rep.fail("fill-not-contiguous", did, FN_FILL, f"candles {i}->{i + 1} are {b[0] - a[0]} apart, timeframe {step}", inp, tf[0])
            return
    real = {r[0]: r for r in R.resample(stream, tf_s)}
    for i, r in enumerate(got):
        if r[0] in real:
            if r != real[r[0]]:
                rep.fail("fill-real-bucket-changed", did, FN_FILL, f"candle {i}: {R.short(r)} vs unfilled {R.short(real[r[0]])}", inp, tf[0])
                return
        else:
            pc = got[i - 1][4] if i else None
            if i == 0 or r[1:] != (pc, pc, pc, pc, 0):
                rep.fail("fill-candle-not-flat", did, FN_FILL, f"inserted candle {i}: {R.short(r)} previous close {pc}", inp, tf[0])
                return
    if set(real) - {r[0] for r in got}:
        rep.fail("fill-real-bucket-missing", did, FN_FILL, "a real bucket is absent from the filled series", inp, tf[0])


def run(tier, seed, focus=None):
    R.force_utc()
    rep = R.Report(PROP, seed, focus)
    rnd = random.Random(seed)
    thorough = tier == "thorough"
    tfs = c03.TF_THOROUGH if thorough else c03.TF_QUICK
    n_streams, n_sched, lengths = c03.explore(rep, rnd, thorough, tfs, True, _reference, FN_FILL, _derived)
    bound = (
        f"TZ=UTC; timeframe_fill=True; {len(tfs)} timeframes {tfs} x 4 timestamp modes (mixed/dense/gaps/dups; gaps of 1-5 and 6-40 "
        f"buckets, several gaps per stream) x first candle on/off a boundary x {n_streams} random streams (lengths {lengths}) x "
        f"{3 + 2 * n_sched} schedules (construction, one-by-one, random chunks, prefix + chunks, optional repeated collapse passes) "
        "through CandleManager and a rotating subset of Indicator/Hexital routes; candles compared exactly with "
        "ref_store.fill(ref_store.resample(..)); contiguity, flatness of inserts and equality of real buckets with the unfilled "
        "resample checked directly."
    )
    return rep.result(bound)
