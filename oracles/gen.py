"""Candle stream generators shared by the bounded stand-ins (seeded, deterministic)."""
import random
import zlib
from datetime import datetime, timedelta

from hexital.core.candle import Candle

T0 = datetime(2023, 6, 1, 9, 0, 0)


def mk(o, h, l, c, v, ts=None):
    return Candle(open=o, high=h, low=l, close=c, volume=v, timestamp=ts)


def stream(kind, n, seed=0, step=timedelta(minutes=1), start=T0, with_ts=True):
    """kinds: random, flat, rising, falling, zerovol, volatile_then_flat, small, big, sawtooth, gappy (ts gaps), dup (duplicate ts)"""
    rnd = random.Random((zlib.crc32(kind.encode()) & 0xFFFF) * 1000003 + seed)
    out = []
    price = rnd.uniform(50, 150)
    ts = start
    for i in range(n):
        if kind == "flat":
            o = h = l = c = price
        elif kind == "rising":
            o = price
            c = price + rnd.uniform(0.1, 2)
            h = c + rnd.uniform(0, 1)
            l = o - rnd.uniform(0, min(1, o / 2))
            price = c
        elif kind == "falling":
            o = price
            c = max(price - rnd.uniform(0.1, 2), 1.0)
            h = o + rnd.uniform(0, 1)
            l = max(c - rnd.uniform(0, 1), 0.5)
            price = c
        elif kind == "volatile_then_flat":
            if i < n // 2:
                o = price
                c = max(price * rnd.uniform(0.7, 1.4), 1.0)
                h = max(o, c) * rnd.uniform(1, 1.1)
                l = min(o, c) * rnd.uniform(0.9, 1)
                price = c
            else:
                o = h = l = c = price
        elif kind == "sawtooth":
            o = price
            c = price + (3 if i % 2 == 0 else -3)
            h = max(o, c) + 0.5
            l = min(o, c) - 0.5
            price = c
        else:
            scale = {"small": 1e-4, "big": 1e7}.get(kind, 1.0)
            o = price
            c = max(price + rnd.gauss(0, 2), 1.0)
            h = max(o, c) + abs(rnd.gauss(0, 1))
            l = max(min(o, c) - abs(rnd.gauss(0, 1)), 0.5)
            price = c
            o, h, l, c = (x * scale for x in (o, h, l, c))
        v = 0 if kind == "zerovol" or (kind == "random" and rnd.random() < 0.1) else rnd.randint(1, 1000)
        if kind == "flat" and rnd.random() < 0.5:
            v = 0
        if with_ts:
            if kind == "gappy" and rnd.random() < 0.25:
                ts = ts + step * rnd.randint(2, 12)
            elif kind == "dup" and rnd.random() < 0.3 and i > 0:
                pass
            else:
                ts = ts + step
        out.append(mk(o, h, l, c, v, ts if with_ts else None))
    return out


KINDS = ["random", "flat", "rising", "falling", "zerovol", "volatile_then_flat", "small", "big", "sawtooth"]


def clone(candles):
    return [mk(c.open, c.high, c.low, c.close, c.volume, c.timestamp) for c in candles]


def chunkings(n, rnd, count=3):
    """a few compositions of n: all-at-once, one-by-one, random chunks"""
    out = [[n], [1] * n]
    for _ in range(count):
        parts = []
        left = n
        while left > 0:
            k = rnd.randint(1, max(1, min(left, 7)))
            parts.append(k)
            left -= k
        out.append(parts)
    return out


def readings(candles):
    return [(c.timestamp, c.open, c.high, c.low, c.close, c.volume, dict(c.indicators), dict(c.sub_indicators)) for c in candles]
