"""C07 bounded stand-in: work per appended candle does not grow with history length.

Executed lines (sys.settrace 'line' events) inside hexital/core/indicator.py, hexital/indicators/, hexital/analysis/
and hexital/utils/ are counted during ONE append of one candle after warm-up: with n_small candles of history (taken once as the stream
prefix and once as the n_small candles just before position n_large, so that the recent data and the appended candle
are those of the long run) and with n_large candles of the same stream (same indicator configuration).  The long run
may not exceed both short runs by more than 5% + 20 lines (a difference against only one of them is a data-dependent
branch).  Lines of utils/ executed on behalf of CandleManager (re-collapsing) are counted separately from the
lines executed on behalf of indicators.  Done for every class in INDICATOR_MAP (small and default parameters, with and without a timeframe)
and for Hexitals holding several indicators on several timeframes.
"""
import inspect
import json
import os
import random
import sys
from copy import deepcopy

import hexital
from hexital import Hexital
from hexital.analysis import movement
from hexital.indicators import INDICATOR_MAP

from oracles import gen

PROP = "C07"
# utils/ lines executed on behalf of CandleManager (collapse_candles re-processing the whole candle list on every append)
# are reported as their own group; set to False to judge the work done on behalf of indicators only
REPORT_MANAGER_WORK = False  # C07 is about indicator code; candle-manager work is reported as an observation only
ROOT = os.path.dirname(os.path.abspath(hexital.__file__))
TARGET_FILES = (os.path.join(ROOT, "core", "indicator.py"),)
TARGET_DIRS = tuple(os.path.join(ROOT, d) + os.sep for d in ("indicators", "analysis", "utils"))


class Col:
    def __init__(self, prop, seed, focus):
        self.prop, self.seed, self.focus = prop, seed, focus
        self.checked = 0
        self.scen = set()
        self.cases = []
        self.f = {}
        self.cnt = {}

    def tick(self, n=1):
        self.checked += n

    def scenario(self, key):
        self.scen.add(key)

    def note(self, text):
        if len(self.cases) < 12 and text not in self.cases:
            self.cases.append(text)

    def fail(self, group, short, function, detail, inp):
        case = f"{self.prop}:{group}:{short}"
        if self.focus and not case.startswith(self.focus):
            return
        key = (group, function)
        self.cnt[key] = self.cnt.get(key, 0) + 1
        size = len(json.dumps(inp, default=str))
        cur = self.f.get(case)
        if cur is None:
            if sum(1 for e in self.f.values() if e["_key"] == key) >= 3:
                return
        elif size >= cur["_size"]:
            return
        self.f[case] = {"case": case, "function": function, "seed": self.seed, "detail": str(detail)[:400],
                        "input": inp, "_key": key, "_size": size}

    def result(self, bound):
        fails = []
        for e in sorted(self.f.values(), key=lambda e: e["case"]):
            n = self.cnt[e["_key"]]
            e = {k: v for k, v in e.items() if not k.startswith("_")}
            e["detail"] += f" [{n} failing evaluations in this (group, function)]"
            fails.append(e)
        return {"status": "ok", "checked": self.checked, "distinct": len(self.scen), "bound": bound,
                "failures": fails, "cases": self.cases}


def stream(kind, n, seed=0, **kw):
    """gen.stream (deterministic per seed); kept as a named entry point because reproducers refer to it"""
    return gen.stream(kind, n, seed=seed, **kw)


SMALL = {"period": 5, "fast_period": 3, "slow_period": 6, "signal_period": 3}
BASE_PARAMS = ("candles", "fullname_override", "name_suffix", "round_value", "timeframe", "timeframe_fill",
               "candles_lifespan", "candlestick_type", "kwargs")


def config(cls, small):
    kw = {}
    for p in inspect.signature(cls).parameters.values():
        if p.name in BASE_PARAMS:
            continue
        if p.name == "analysis":
            kw["analysis"] = movement.rising
            kw["args"] = {"indicator": "close", "length": 3 if small else 20}
        elif p.name == "input_value" and p.default is inspect.Parameter.empty:
            kw["input_value"] = "positive" if cls.__name__ == "Counter" else "close"
        elif p.default is inspect.Parameter.empty:
            return None
        elif small and "period" in p.name and isinstance(p.default, int):
            kw[p.name] = min(p.default, SMALL.get(p.name, 4))
    return kw


def build(key, small, **extra):
    return INDICATOR_MAP[key](**deepcopy(config(INDICATOR_MAP[key], small)), **extra)


def wanted(filename):
    return filename in TARGET_FILES or filename.startswith(TARGET_DIRS)


CM_FILE = os.path.join(ROOT, "core", "candle_manager.py")


def count_lines(fn):
    """lines executed in the target files, split by who asked for them:
    'indicator' = reached from indicator code, 'manager' = reached from inside CandleManager (collapse / trim / convert).
    returns ({bucket: total}, {bucket: {qualified function: lines}}, exception or None)"""
    per = {"indicator": {}, "manager": {}}
    total = {"indicator": 0, "manager": 0}
    depth = [0]

    def local(frame, event, arg):
        if event == "line":
            bucket = "manager" if depth[0] else "indicator"
            total[bucket] += 1
            code = frame.f_code
            per[bucket][code] = per[bucket].get(code, 0) + 1
        return local

    def inside_manager(frame, event, arg):
        if event == "return":
            depth[0] -= 1
        return inside_manager

    def tracer(frame, event, arg):
        if event != "call":
            return None
        filename = frame.f_code.co_filename
        if filename == CM_FILE:
            depth[0] += 1
            return inside_manager
        if wanted(filename):
            return local
        return None

    exc = None
    old = sys.gettrace()
    sys.settrace(tracer)
    try:
        fn()
    except Exception as e:  # noqa: BLE001
        exc = e
    finally:
        sys.settrace(old)
    names = {}
    for bucket, codes in per.items():
        names[bucket] = {}
        for code, n in codes.items():
            mod = os.path.relpath(code.co_filename, os.path.dirname(ROOT))[:-3].replace(os.sep, ".")
            nm = f"{mod}.{getattr(code, 'co_qualname', code.co_name)}"
            names[bucket][nm] = names[bucket].get(nm, 0) + n
    return total, names, exc


def measure(make, candles, start, end):
    """warm up on candles[start:end] (untraced), then trace one append of candles[end]"""
    obj = make(gen.clone(candles[start:end]))
    obj.calculate()
    nxt = gen.clone([candles[end]])[0]
    return count_lines(lambda: obj.append(nxt))


def compare(col, label, make, candles, n_small, n_large, inp):
    """three traced appends: after candles[:n_small] (same stream prefix), after the last n_small candles before
    n_large (same recent data and same appended candle as the long run) and after candles[:n_large].  Work grows with
    history only if the long run exceeds BOTH short runs beyond the tolerance - a difference against one of them
    alone is a data-dependent branch, not a dependence on n."""
    col.tick()
    runs = []
    for start, end in ((0, n_small), (n_large - n_small, n_large), (0, n_large)):
        res, exc = _safe(measure, make, candles, start, end)
        if exc is not None or res[2] is not None:
            return None  # building or the append itself raised: other properties' subject
        runs.append(res)
    (t_p, p_p, _), (t_s, p_s, _), (t_l, p_l, _) = runs
    for bucket in ("indicator", "manager") if REPORT_MANAGER_WORK else ("indicator",):
        c_p, c_s, c_l = t_p[bucket], t_s[bucket], t_l[bucket]
        base = max(c_p, c_s)
        allowed = 0.05 * base + 20
        if c_l - base <= allowed:
            continue
        per_s, per_l = p_s[bucket], p_l[bucket]
        growth = sorted(((per_l.get(k, 0) - per_s.get(k, 0), k) for k in set(per_s) | set(per_l)), reverse=True)
        worst = growth[0][1]
        if bucket == "manager":
            # utils/ code driven by CandleManager (re-collapsing the candle list), not by any indicator
            group, fn = "collapse-rescans-history", "hexital.core.candle_manager.CandleManager.collapse_candles"
            where = "utils code called from CandleManager"
        else:
            group, fn = "work-grows-with-history", worst
            where = "indicator/analysis/utils code called from the indicators"
        short = label if bucket == "indicator" else ("hexital" if label.startswith("hexital") else "indicator-with-timeframe")
        col.fail(group, short, fn,
                 f"one append executed {c_p} / {c_s} lines of {where} with {n_small} candles of history (stream prefix / "
                 f"last {n_small} candles) and {c_l} with {n_large} (allowed difference {allowed:.0f}); largest change in "
                 f"{worst} ({per_s.get(worst, 0)} -> {per_l.get(worst, 0)} lines)", dict(inp, n_small=n_small, n_large=n_large))
    return t_p["indicator"], t_s["indicator"], t_l["indicator"]


def _safe(fn, *a):
    try:
        return fn(*a), None
    except Exception as e:  # noqa: BLE001
        return None, e


def run(tier, seed, focus=None):
    rnd = random.Random(seed)
    col = Col(PROP, seed, focus)
    thorough = tier == "thorough"
    pairs = [(150, 600)] if not thorough else [(150, 600), (300, 1200), (160, 1000)]
    kinds = ["random"] if not thorough else ["random", "sawtooth", "rising"]
    keys = [k for k, c in INDICATOR_MAP.items() if config(c, True) is not None]
    samples = []
    for kind in kinds:
        longest = max(b for _, b in pairs) + 1
        candles = stream(kind, longest, seed=seed)
        text = f"oracles.c07.stream({kind!r},{longest},seed={seed})"
        for n_small, n_large in pairs:
            for key in keys:
                for small in (True, False):
                    for tf in ((None, "T5") if small else (None,)):  # default periods (up to 100) are not warm on 30 T5 candles
                        label = f"{key}/{'small' if small else 'default'}-params{'/' + tf if tf else ''}"
                        extra = {"timeframe": tf} if tf else {}
                        res = compare(col, label, lambda cs, key=key, small=small, extra=extra: build(key, small, candles=cs, **extra),
                                      candles, n_small, n_large,
                                      {"indicator": key, "params": "small" if small else "default", "timeframe": tf, "stream": text})
                        col.scenario((label, kind, n_small))
                        if res and len(samples) < 6:
                            samples.append(f"{label}: {res[0]}/{res[1]} lines at n={n_small}, {res[2]} at n={n_large}")
            # Hexitals holding several indicators
            for h in range(6 if thorough else 3):
                picks = []
                for k in rnd.sample(keys, 5):
                    tf = rnd.choice([None, None, "T5", "T10"])
                    picks.append((k, tf, tf is not None or rnd.random() < 0.6))  # default periods only on the base timeframe

                def make(cs, picks=picks):
                    inds = {}
                    for k, tf, small in picks:
                        ind = build(k, small, **({"timeframe": tf} if tf else {}))
                        inds[ind.name] = ind
                    return Hexital("c07", cs, list(inds.values()))
                label = "Hexital[" + ",".join(f"{k}{'' if s else '*'}@{tf or '-'}" for k, tf, s in picks) + "]"
                res = compare(col, f"hexital-{h}", make, candles, n_small, n_large,
                              {"hexital": label, "note": "* = default parameters", "stream": text})
                col.scenario((label, kind, n_small))
                if res:
                    col.note(f"{label}: {res[0]}/{res[1]} lines at n={n_small}, {res[2]} at n={n_large}")
    for s in samples:
        col.note(s)
    bound = (f"{len(keys)} INDICATOR_MAP classes x small/default parameters x timeframe none/T5 and {6 if thorough else 3} Hexitals "
             f"of 5 indicators on default/T5/T10 per setting; history pairs {pairs}; streams {kinds}; executed lines counted "
             f"with sys.settrace in core/indicator.py, indicators/, analysis/, utils/ during one append; tolerance 5% + 20 "
             f"lines; seed {seed}")
    return col.result(bound)
