"""C05 stand-in: TR, ATR, STDEV, BBANDS, KC, Donchian, HighestLowest, HighLowAverage, Supertrend,
STDEVTHRES and Counter against independent references (oracles.ref_indicators).

Tolerances (u = 0.5*10^-round_value of the indicator itself, u4 = 0.5e-4 for its sub-indicators,
which hexital always builds with the default round_value=4):
  TR, Donchian, HL, HLA   u                      (one rounding of a directly computed value)
  ATR                     u4 + u*min(1+steps, p) (rounded TR input, Wilder contraction)
  STDEV                   u + float slack of a running variance (see _slack_series)
  BBANDS                  mid: u4*(1+steps) + u ; bands: that + 2*(u4 + slack)
  KC                      band: u4*(p+1)/2 + u ; lower/upper: that + mult*u4*(1+p)
  Supertrend              u + u4 + mult*u4*(1+p); comparison stops at the first candle whose close is
                          within that distance of a previous band (flip decision inside rounding error)
  STDEVTHRES              exact flag, candles whose |dx| is within rounding error of mult*sigma skipped
  Counter                 exact
Warm-up: the statement gives no numbers, so the references use the definitional minimum (TR 1,
ATR p, STDEV/BBANDS/Donchian s+p-1, KC/Supertrend p, HL/HLA 0).  A LATER first reading is only
noted (hexital's STDEV/BBANDS start one candle later); wrong values, gaps after warm-up, readings
before enough inputs exist and indicators that never produce a value are failures.
"""
from __future__ import annotations

import random

from oracles import ref_indicators as R
from oracles.ref_indicators import FieldRef, const_tol

PROP = "C05"


def _I():
    import hexital.indicators as I

    return I


def _steps_tol(first, per_step, cap, base=0.0):
    def tol(i):
        st = max(0, i - first) if first is not None else 0
        return base + per_step * min(1 + st, cap) + 1e-12

    return tol


def _input_prepare(spec, stream):
    """-> prepare(candles) returning the input series; spec: ('price', field) | ('inj', kind, start)"""

    def prepare(candles):
        if spec[0] == "price":
            return list(getattr(stream, {"open": "O", "high": "H", "low": "L", "close": "C"}[spec[1]]))
        xs = R.injected_series(spec[1], stream.n, spec[2], stream.seed)
        for c, v in zip(candles, xs):
            if v is not None:
                c.indicators["X"] = v
        return xs

    return prepare


def _in_name(spec):
    return spec[1] if spec[0] == "price" else "X"


def _in_str(spec):
    return spec[1] if spec[0] == "price" else f"inj-{spec[1]}@{spec[2]}"


def _slack_series(x, sd):
    """float (not rounding) slack of a standard deviation obtained from a running variance: the
    variance carries an absolute float error d ~ 64*eps*max|x|^2*(i+1), and
    |sqrt(v+d) - sqrt(v)| <= min(sqrt(d), d/sqrt(v)).  Negligible unless the window is (nearly) constant."""
    out, m = [], 0.0
    for i in range(len(x)):
        if x[i] is not None:
            m = max(m, abs(x[i]))
        d = 64 * 2.3e-16 * m * m * (i + 1)
        s = sd[i] if R.defined(sd[i]) else 0.0
        out.append(min(d ** 0.5, d / s) if s > 0 else d ** 0.5)
    return out


# ---- group slugs (assigned after reading the hexital code for every failure seen) -------------

def _group(name):
    def g(kind, field, obj):
        if kind == "exception":
            if isinstance(obj, ValueError) and "math domain" in str(obj):
                # stdev.py: sqrt(variance) with a running variance that float cancellation drove below 0
                return "stdev-sqrt-negative"
            if isinstance(obj, ZeroDivisionError):
                return "zero-division"
            return "exception-" + type(obj).__name__
        if name in ("KC", "Supertrend") and kind in ("never", "gap", "late-data-dependent"):
            # kc.py `all([ema, atr])`, supertrend.py `if self.reading(atr)`: ATR == 0.0 reads as missing
            return "truthiness-zero-reading"
        return R.GENERIC_GROUP.get(kind, kind)

    return g


# ---- per indicator variant builders ---------------------------------------------------------------

def _v_tr(kw, st):
    u = R.unit(kw.get("round_value", 4))
    return lambda extra: [("tr", {None: FieldRef(R.true_range(st.H, st.L, st.C), const_tol(u + 1e-12))})]


def _v_atr(kw, st):
    u, p = R.unit(kw.get("round_value", 4)), kw["period"]
    return lambda extra: [("atr", {None: FieldRef(R.atr(st.H, st.L, st.C, p), _steps_tol(p, u, p, base=R.U4))})]


def _v_stdev(kw, st):
    u, p = R.unit(kw.get("round_value", 4)), kw["period"]

    def f(x):
        sd = R.stdev(x, p)
        sl = _slack_series(x, sd)
        return [("stdev", {None: FieldRef(sd, lambda i: u + sl[i] + 1e-12)})]

    return f


def _v_bbands(kw, st):
    u, p = R.unit(kw.get("round_value", 4)), kw["period"]

    def f(x):
        ref = R.bbands(x, p, 2.0)
        sd = R.stdev(x, p)
        sl = _slack_series(x, sd)
        first = R.first_defined(ref["BBM"])
        e_sma = _steps_tol(first, R.U4, 10 ** 9)
        band = lambda i: e_sma(i) + 2 * (R.U4 + sl[i]) + u
        return [("bbands", {"BBM": FieldRef(ref["BBM"], lambda i: e_sma(i) + u),
                            "BBL": FieldRef(ref["BBL"], band), "BBU": FieldRef(ref["BBU"], band)})]

    return f


def _v_kc(kw, st):
    u, p, m = R.unit(kw.get("round_value", 4)), kw["period"], kw["multiplier"]

    def f(extra):
        ref = R.kc(st.H, st.L, st.C, p, m)
        e_mid = R.U4 * (p + 1) / 2.0 + u + 1e-12
        e_band = e_mid + m * R.U4 * (1 + p)
        return [("kc", {"band": FieldRef(ref["band"], const_tol(e_mid)),
                        "lower": FieldRef(ref["lower"], const_tol(e_band)),
                        "upper": FieldRef(ref["upper"], const_tol(e_band))})]

    return f


def _v_donchian(kw, st):
    u, p = R.unit(kw.get("round_value", 4)), kw["period"]

    def f(extra):
        ref = R.donchian(st.H, st.L, p)
        return [("donchian", {k: FieldRef(ref[k], const_tol(u + 1e-12)) for k in ("DCL", "DCM", "DCU")})]

    return f


def _v_hl(kw, st):
    u, p = R.unit(kw.get("round_value", 4)), kw["period"]

    def f(extra):
        out = []
        for bars in (p + 1, p):  # "N periods back": N back plus the current candle, or N candles
            ref = R.highest_lowest(st.H, st.L, p, bars)
            out.append((f"window={bars} candles", {k: FieldRef(ref[k], const_tol(u + 1e-12)) for k in ("high", "low")}))
        return out

    return f


def _v_hla(kw, st):
    u = R.unit(kw.get("round_value", 4))
    return lambda extra: [("hla", {None: FieldRef(R.hla(st.H, st.L), const_tol(u + 1e-12))})]


def _v_supertrend(kw, st):
    u, p, m = R.unit(kw.get("round_value", 4)), kw["period"], kw["multiplier"]

    def f(extra):
        eb = R.U4 + m * R.U4 * (1 + p)
        out = []
        for init in (1, -1):
            ref = R.supertrend(st.H, st.L, st.C, p, m, init)
            stop = None
            for i, mg in enumerate(ref["margin"]):
                if mg is not None and mg <= 2 * eb + 1e-9 * abs(st.C[i]):
                    stop = i
                    break
            t = const_tol(eb + u + 1e-12)
            out.append((f"first direction {init:+d}", {
                "trend": FieldRef(ref["trend"], t, stop=stop),
                "direction": FieldRef(ref["direction"], const_tol(1e-9), stop=stop, allow_early=lambda g: g in (1, -1)),
                "long": FieldRef(ref["long"], t, stop=stop),
                "short": FieldRef(ref["short"], t, stop=stop)}))
        return out

    return f


def _v_stdevthres(kw, st):
    p, m = kw["period"], kw["multiplier"]

    def f(x):
        flag, margin = R.stdev_threshold(x, p, m)
        sd = R.stdev(x, p)
        sl = _slack_series(x, sd)
        ref = list(flag)
        first = R.first_defined(flag)
        for i, mg in enumerate(margin):
            if mg is not None and abs(mg) <= m * (R.U4 + sl[i]) + 1e-9 * abs(x[i]):
                ref[i] = R.NAN  # decision inside rounding error
        if first is not None:
            ref[first] = R.NAN  # a sigma that starts one candle later leaves the placeholder False here
        return [("stdevthres", {None: FieldRef(ref, const_tol(0.0), allow_early=lambda g: g is False)})]

    return f


def _bool_series(n, start, seed, values=(True, False)):
    rnd = random.Random(f"bools|{n}|{start}|{seed}|{values}")
    out, cur = [None] * n, rnd.choice(values)
    for i in range(start, n):
        if rnd.random() < 0.3:
            cur = rnd.choice(values)
        out[i] = cur
    return out


def _counter_case(col, st, spec, rv):
    """Counter over injected bool/int inputs and over real indicator outputs on the same candles"""
    I = _I()
    kind = spec[0]
    kw = {"round_value": rv}
    if kind == "bools":
        kw.update(input_value="X", count_value=spec[2])
        desc = f"bools@{spec[1]}"

        def prepare(candles):
            xs = _bool_series(st.n, spec[1], st.seed)
            for c, v in zip(candles, xs):
                if v is not None:
                    c.indicators["X"] = v
            return xs
    elif kind == "ints":
        kw.update(input_value="X", count_value=spec[2])
        desc = f"ints@{spec[1]}"

        def prepare(candles):
            xs = _bool_series(st.n, spec[1], st.seed, values=(0, 1, 2, 2, 3))
            for c, v in zip(candles, xs):
                if v is not None:
                    c.indicators["X"] = v
            return xs
    elif kind == "thres":
        kw.update(input_value=f"STDEVTHRES_{spec[1]}", count_value=spec[2])
        desc = f"STDEVTHRES_{spec[1]}"

        def prepare(candles):
            inner = I.StandardDeviationThreshold(candles=candles, period=spec[1], multiplier=1.0)
            inner.calculate()
            return inner.as_list()
    else:  # supertrend direction
        kw.update(input_value=f"Supertrend_{spec[1]}.direction", count_value=spec[2])
        desc = f"Supertrend_{spec[1]}.direction"

        def prepare(candles):
            inner = I.Supertrend(candles=candles, period=spec[1], multiplier=2.0)
            inner.calculate()
            return inner.as_list(f"Supertrend_{spec[1]}.direction")

    def variants(x):
        return [("counter", {None: FieldRef([float(v) for v in R.counter(x, kw["count_value"])], const_tol(1e-9))})]

    detail = f"cv={kw['count_value']},rv={rv};in={desc};{st.key()}"
    R.evaluate(col, "Counter", I.Counter, kw, st, detail, lambda s_: (variants, prepare), _group("Counter"),
               extra_inp={"input": desc})


def run(tier, seed, focus=None):
    I = _I()
    col = R.Collector(PROP, seed, focus)
    rnd = random.Random(seed)
    thorough = tier == "thorough"
    if thorough:
        periods = [2, 3, 4, 5, 6, 7, 9, 10, 12, 14, 20, 30]
        lengths = [30, 90, 260]
        rvs = [2, 4, 8, 10]
        mults = [2.0, 2.5, 3.0, 4.0]
        kinds = R.STREAM_KINDS + ["gen:random", "gen:rising", "gen:falling", "gen:volatile_then_flat"]
        nseeds = 2
        in_specs = [("price", "close"), ("price", "high"), ("price", "low"), ("inj", "walk", 0), ("inj", "walk", 3),
                    ("inj", "zero_cross", 1), ("inj", "grid", 2), ("inj", "const", 0)]
    else:
        periods = [2, 3, 5, 7, 14]
        lengths = [40, 120]
        rvs = [4, 10]
        mults = [2.0, 3.0]
        kinds = ["random", "rising", "falling", "flat", "flat_vol", "volatile_then_flat", "flat_then_volatile",
                 "small", "big", "sawtooth", "gapflat", "spiky", "gapping", "gen:random", "gen:volatile_then_flat"]
        nseeds = 2
        in_specs = [("price", "close"), ("price", "high"), ("inj", "walk", 3), ("inj", "grid", 2)]
    base = seed * 1000

    def streams(p, salt=0):
        for kind in kinds:
            for k in range(nseeds):
                yield R.Stream(kind, lengths[(p + k + salt + len(kind)) % len(lengths)], base + k)

    def ev(name, cls, kw, st, vb, spec=None):
        in_s = _in_str(spec) if spec else None
        detail = f"{R.kw_str(kw)};{('in=' + in_s + ';') if in_s else ''}{st.key()}"
        rebuild = lambda s_: (vb(kw, s_), _input_prepare(spec, s_) if spec else None)
        R.evaluate(col, name, cls, kw, st, detail, rebuild, _group(name), extra_inp={"input": in_s} if in_s else None,
                   nan_is_undefined=(name != "STDEVTHRES"))

    for rv in rvs:
        for st in streams(0):
            ev("TR", I.TR, {"round_value": rv}, st, _v_tr)
            ev("HLA", I.HighLowAverage, {"round_value": rv}, st, _v_hla)
        for p in periods:
            kw = {"period": p, "round_value": rv}
            for st in streams(p):
                ev("ATR", I.ATR, kw, st, _v_atr)
                ev("donchian", I.Donchian, kw, st, _v_donchian)
                ev("HL", I.HighestLowest, kw, st, _v_hl)
            for m in mults:
                kwm = {"period": p, "multiplier": m, "round_value": rv}
                for st in streams(p, 1):
                    ev("KC", I.KC, kwm, st, _v_kc)
                    ev("Supertrend", I.Supertrend, kwm, st, _v_supertrend)
            for spec in in_specs:
                kwi = {"period": p, "round_value": rv, "input_value": _in_name(spec)}
                sts = list(streams(p, 2)) if spec[0] == "price" else [R.Stream("random", lengths[p % len(lengths)], base + 30)]
                for st in sts:
                    ev("STDEV", I.StandardDeviation, kwi, st, _v_stdev, spec=spec)
                    ev("BBANDS", I.BBANDS, kwi, st, _v_bbands, spec=spec)
                    for m in mults[:2]:
                        kwt = dict(kwi, multiplier=m)
                        ev("STDEVTHRES", I.StandardDeviationThreshold, kwt, st, _v_stdevthres, spec=spec)
    # Counter
    for n in lengths:
        for k in range(nseeds + 1):
            st = R.Stream("random", n, base + 40 + k)
            for spec in [("bools", 0, True), ("bools", 3, True), ("bools", 0, False), ("ints", 0, 2), ("ints", 2, 0),
                         ("thres", 5, True), ("thres", 3, False), ("st", 3, 1), ("st", 5, -1)]:
                _counter_case(col, st, spec, 4)
        for kind in ("rising", "flat", "sawtooth", "spiky"):
            st = R.Stream(kind, n, base + 41)
            for spec in [("thres", 4, True), ("st", 3, 1), ("st", 3, -1)]:
                _counter_case(col, st, spec, 4)
    # seed dependent extra draws
    for _ in range(80 if thorough else 20):
        p = rnd.randint(2, 40 if thorough else 20)
        m = rnd.choice([2.0, 2.2, 3.5, 5.0])
        rv = rnd.choice([3, 5, 6])
        st = R.Stream(rnd.choice(kinds), rnd.randint(2 * p + 5, 220), base + rnd.randint(0, 999))
        kwm = {"period": p, "multiplier": m, "round_value": rv}
        kw = {"period": p, "round_value": rv}
        ev("KC", I.KC, kwm, st, _v_kc)
        ev("Supertrend", I.Supertrend, kwm, st, _v_supertrend)
        ev("ATR", I.ATR, kw, st, _v_atr)
        kwi = dict(kw, input_value="close")
        ev("BBANDS", I.BBANDS, kwi, st, _v_bbands, spec=("price", "close"))
        ev("STDEV", I.StandardDeviation, kwi, st, _v_stdev, spec=("price", "close"))

    bound = (f"tier={tier}: TR, HLA, ATR, Donchian, HL, KC, Supertrend, STDEV, BBANDS, STDEVTHRES, Counter; periods {periods} "
             f"(+random up to {40 if thorough else 20}); multipliers {mults} (+2.2,3.5,5.0); round_value {rvs} (+3,5,6); stream kinds {kinds}; "
             f"lengths {lengths} (+random up to 220); STDEV/BBANDS/STDEVTHRES inputs {[_in_str(s) for s in in_specs]}; Counter over "
             f"injected bool/int runs (late start too), STDEVTHRES flags and Supertrend direction; batch calculate()")
    return col.result(bound)
