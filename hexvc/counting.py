"""Filtered symbolic lists: emptiness, length and extremum with a default (E2 summarisation rules)."""
from __future__ import annotations

import z3

from . import values as vals
from .state import QAssume, fresh_name
from .values import SInt, SV, V, to_real_term, zand, zbool


def make_nonempty(ex, st, n, keep):
    """a Bool that holds iff some element 0 <= k < n passes the filter (skolemised both ways)"""
    ne = z3.Bool(fresh_name("nonempty"))
    w = z3.Int(fresh_name("w"))
    st.assume(z3.Implies(ne, z3.And(w >= 0, w < n, zbool(keep(w)))))
    st.qassumes.append(QAssume(lambda j: z3.Implies(z3.And(j >= 0, j < n, zbool(keep(j))), ne), "filtered-list-nonempty"))
    st.inst_terms.append(("term", w))
    return ne


def count_of(ex, st, alist):
    from .iteration import canonical_range, find_or_make_sum

    body = lambda k: z3.If(zbool(alist.keep(k)), z3.RealVal(1), z3.RealVal(0))
    lo, hi, body = canonical_range(alist, body)
    t = find_or_make_sum(ex, st, body, lo, hi)
    c = z3.ToInt(t)
    st.assume(z3.And(t == z3.ToReal(c), c >= 0, c <= alist.n))
    if getattr(alist, "nonempty", None) is not None:
        st.assume(alist.nonempty == (c > 0))
    return SInt(c)


def minmax_filtered(ex, st, sp, is_max, default, node):
    """max(filtered, default=d): d when nothing passes the filter, else the extremum of the kept elements"""
    n, keep, elem = sp.n, sp.keep, sp.elem
    k = z3.Int(fresh_name("k"))
    ek = elem(k)
    if isinstance(ek, SV):
        ex.ctx.oblige(st, "noraise:TypeError", "min/max element", z3.Implies(z3.And(k >= 0, k < n, zbool(keep(k))), vals.v_is_numlike(ek.t)), node)
    ne = make_nonempty(ex, st, n, keep)
    # the extremum is one of the kept elements (with its own type), and bounds all of them
    w = z3.Int(fresh_name("w"))
    st.inst_terms.append(("term", w))
    ew = elem(w)
    m = to_real_term(ew)
    st.assume(z3.Implies(ne, z3.And(w >= 0, w < n, zbool(keep(w)))))
    rel = (lambda a, b: a >= b) if is_max else (lambda a, b: a <= b)
    st.qassumes.append(QAssume(lambda j: z3.Implies(z3.And(ne, j >= 0, j < n, zbool(keep(j))), rel(m, to_real_term(elem(j)))), "filtered-extremum-bounds-all"))
    dv = vals.to_V(default, st.heap)
    yield st, vals.from_V_term(z3.If(ne, vals.to_V(ew, st.heap), dv))
