"""datetime / timedelta as integer seconds (A4: timestamps are whole seconds unless stated)."""
from __future__ import annotations

import z3

from .values import SBool, SInt, Unsupported, concretize, wrap_bool


# L3: datetime.timestamp() of a naive value = wall seconds minus the local zone's offset at that wall time;
# fromtimestamp(u) = u plus the zone's offset at that instant.  The offsets are arbitrary (environment chosen):
# a result that depends on them depends on the process time zone.
tzoff = z3.Function("tzoff", z3.IntSort(), z3.IntSort())
tzoff_back = z3.Function("tzoff_back", z3.IntSort(), z3.IntSort())


class DateTimeV:
    pyclass = "datetime"

    def __init__(self, sec, micro=0, tz=None):
        self.sec = sec  # z3 Int term / python int: wall-clock seconds since 1970-01-01 (naive axis)
        self.micro = micro
        self.tz = tz

    def truthy(self):
        return True

    def eq_term(self, other):
        if isinstance(other, DateTimeV):
            return z3.And(_t(self.sec) == _t(other.sec), _t(self.micro) == _t(other.micro))
        return False

    def cmp_term(self):
        return _t(self.sec) * 1000000 + _t(self.micro)

    def arith(self, op, a, b, ex, st, node):
        if op == "+" and isinstance(a, DateTimeV) and isinstance(b, TimeDeltaV):
            return DateTimeV(_simp(_t(a.sec) + _t(b.sec)), a.micro, a.tz)
        if op == "+" and isinstance(b, DateTimeV) and isinstance(a, TimeDeltaV):
            return DateTimeV(_simp(_t(b.sec) + _t(a.sec)), b.micro, b.tz)
        if op == "-" and isinstance(a, DateTimeV) and isinstance(b, TimeDeltaV):
            return DateTimeV(_simp(_t(a.sec) - _t(b.sec)), a.micro, a.tz)
        if op == "-" and isinstance(a, DateTimeV) and isinstance(b, DateTimeV):
            return TimeDeltaV(_simp(_t(a.sec) - _t(b.sec)), _simp(_t(a.micro) - _t(b.micro)))
        raise Unsupported(f"datetime arithmetic {op}")

    def getattr(self, name, ex, st, node):
        from .exec import Builtin

        if name == "replace":
            def f(ex, st, args, kwargs, node):
                if args or not set(kwargs) <= {"hour", "minute", "second", "microsecond"}:
                    raise Unsupported("datetime.replace")
                # time-of-day fields on the naive wall-clock axis: sec = day * 86400 + hour * 3600 + minute * 60 + second
                from .values import to_int_term
                sec = _t(self.sec)
                day, tod = sec / 86400, sec % 86400  # SMT-LIB div / mod: floor for a positive divisor, like the calendar
                parts = {"hour": tod / 3600, "minute": (tod % 3600) / 60, "second": tod % 60}
                for k in ("hour", "minute", "second"):
                    if k in kwargs:
                        v = to_int_term(kwargs[k])
                        ex.need(st, z3.And(v >= 0, v < (24 if k == "hour" else 60)), "ValueError", node)
                        parts[k] = v
                micro = self.micro
                if "microsecond" in kwargs:
                    micro = kwargs["microsecond"]
                    if not isinstance(micro, int):
                        micro = to_int_term(micro)
                    ex.need(st, z3.And(_t(micro) >= 0, _t(micro) < 1000000), "ValueError", node)
                new_sec = sec if not (set(kwargs) & {"hour", "minute", "second"}) else _simp(day * 86400 + parts["hour"] * 3600 + parts["minute"] * 60 + parts["second"])
                yield st, DateTimeV(new_sec, micro, self.tz)
            yield st, Builtin("datetime.replace", f)
            return
        if name in ("hour", "minute", "second", "microsecond"):
            tod = _t(self.sec) % 86400
            yield st, SInt(_simp({"hour": tod / 3600, "minute": (tod % 3600) / 60, "second": tod % 60, "microsecond": _t(self.micro)}[name]))
            return
        if name == "tzinfo":
            yield st, self.tz
            return
        if name == "timestamp":
            from .values import SFloat

            def f(ex, st, args, kwargs, node):
                s_ = _t(self.sec)
                yield st, SFloat(z3.ToReal(s_ - tzoff(s_)) + z3.ToReal(_t(self.micro)) / 1000000)
            yield st, Builtin("datetime.timestamp", f)
            return
        raise Unsupported(f"datetime.{name}")


class TimeDeltaV:
    pyclass = "timedelta"

    def __init__(self, sec, micro=0):
        self.sec = sec
        self.micro = micro

    def truthy(self):
        return z3.Or(_t(self.sec) != 0, _t(self.micro) != 0)

    def eq_term(self, other):
        if isinstance(other, TimeDeltaV):
            return z3.And(_t(self.sec) == _t(other.sec), _t(self.micro) == _t(other.micro))
        return False

    def cmp_term(self):
        return _t(self.sec) * 1000000 + _t(self.micro)

    def arith(self, op, a, b, ex, st, node):
        if isinstance(a, DateTimeV) or isinstance(b, DateTimeV):
            return (a if isinstance(a, DateTimeV) else b).arith(op, a, b, ex, st, node)
        if op in "+-" and isinstance(a, TimeDeltaV) and isinstance(b, TimeDeltaV):
            f = (lambda x, y: x + y) if op == "+" else (lambda x, y: x - y)
            return TimeDeltaV(_simp(f(_t(a.sec), _t(b.sec))), _simp(f(_t(a.micro), _t(b.micro))))
        if op == "%" and isinstance(a, TimeDeltaV) and isinstance(b, TimeDeltaV):
            # python: remainder has the sign of the divisor; whole-second divisor assumed
            ex.need(st, _t(b.sec) != 0, "ZeroDivisionError", node)
            st.assume(_t(b.micro) == 0)
            tot = _t(a.sec)
            bs = _t(b.sec)
            q = z3.If(bs > 0, tot / bs, (-tot) / (-bs))
            return TimeDeltaV(_simp(tot - bs * q), a.micro)
        if op == "*" and isinstance(a, TimeDeltaV):
            from .values import to_int_term
            return TimeDeltaV(_simp(_t(a.sec) * to_int_term(b)), 0)
        raise Unsupported(f"timedelta arithmetic {op}")

    def getattr(self, name, ex, st, node):
        from .exec import Builtin
        from .values import SFloat

        if name == "total_seconds":
            def f(ex, st, args, kwargs, node):
                yield st, SFloat(z3.ToReal(_t(self.sec)))
            yield st, Builtin("timedelta.total_seconds", f)
            return
        if name in ("days", "seconds", "microseconds"):
            # python keeps a timedelta normalised: 0 <= microseconds < 10**6, 0 <= seconds < 86400, days carries the sign
            from .values import SInt

            total = _t(self.sec) * 1000000 + _t(self.micro)
            whole = total / 1000000  # SMT-LIB integer division: floor for a positive divisor
            if name == "microseconds":
                yield st, SInt(_simp(total % 1000000))
            elif name == "seconds":
                yield st, SInt(_simp(whole % 86400))
            else:
                yield st, SInt(_simp(whole / 86400))
            return
        raise Unsupported(f"timedelta.{name}")


def _t(x):
    return z3.IntVal(x) if isinstance(x, int) else x


def _simp(t):
    return z3.simplify(t)
