"""Execution state: path condition, heap of mutable python objects, call frames."""
from __future__ import annotations

import copy
import itertools

import z3

from .values import Ref, Unsupported


class ListP:
    is_list = True

    def __init__(self, items):
        self.items = list(items)

    def clone(self):
        return ListP(self.items)


class DictP:
    def __init__(self, items=None):
        self.items = dict(items or {})

    def clone(self):
        return DictP(self.items)


class SetP:
    def __init__(self, items=None):
        self.items = list(items or [])

    def clone(self):
        return SetP(self.items)


class ObjP:
    def __init__(self, cls, fields=None):
        self.cls = cls
        self.fields = dict(fields or {})

    def clone(self):
        return ObjP(self.cls, self.fields)


class Obligation:
    __slots__ = ("id", "kind", "func", "label", "lineno", "pc", "goal", "props", "qassumes", "sums", "note", "path")

    def __init__(self, **kw):
        for k in self.__slots__:
            setattr(self, k, kw.get(k))


class QAssume:
    """universally quantified hypothesis, instantiated by the engine (no quantifier reaches the solver)"""

    __slots__ = ("_fn", "name", "cache")

    def __init__(self, fn, name=""):
        self._fn = fn  # python callable: z3 Int term -> z3 Bool (or python bool)
        self.name = name
        self.cache = {}

    def fn(self, t):
        k = t.get_id()
        r = self.cache.get(k)
        if r is None:
            r = self._fn(t)
            self.cache[k] = (r, t)  # keep t alive so ids are not reused
            return r
        return r[0]


class QAssume2:
    """hypothesis universally quantified over two integers (e.g. monotonicity of timestamps along a list),
    instantiated by the engine over pairs of the candle positions in the query"""

    __slots__ = ("_fn", "name", "cache")
    arity = 2

    def __init__(self, fn, name=""):
        self._fn = fn
        self.name = name
        self.cache = {}

    def fn2(self, a, b):
        k = (a.get_id(), b.get_id())
        r = self.cache.get(k)
        if r is None:
            r = (self._fn(a, b), a, b)
            self.cache[k] = r
        return r[0]


_fresh = itertools.count()


def fresh_name(base):
    return f"{base}!{next(_fresh)}"


class State:
    def __init__(self):
        self.pc = []  # z3 Bool terms
        self.qassumes = []  # QAssume
        self.heap = {}
        self.frames = []
        self.next_oid = 1
        self.trail = []  # branch decisions, for path digests
        self.ghost = {}  # engine bookkeeping that must fork with the path (write logs etc.)
        self.inst_terms = []  # extra Int terms at which quantified hypotheses are instantiated

    def fork(self):
        s = State.__new__(State)
        s.pc = list(self.pc)
        s.qassumes = list(self.qassumes)
        s.heap = {k: v.clone() for k, v in self.heap.items()}
        s.frames = [dict(f) for f in self.frames]
        s.next_oid = self.next_oid
        s.trail = list(self.trail)
        s.ghost = {k: (v.clone() if hasattr(v, 'clone') else v) for k, v in self.ghost.items()}
        s.inst_terms = list(self.inst_terms)
        return s

    def alloc(self, payload):
        oid = self.next_oid
        self.next_oid += 1
        self.heap[oid] = payload
        return Ref(oid)

    def assume(self, cond):
        if isinstance(cond, bool):
            if not cond:
                self.pc.append(z3.BoolVal(False))
            return
        self.pc.append(cond)

    def get(self, ref):
        return self.heap[ref.oid]
