"""Per-class indicator tasks (DESIGN.md 5.2-5.4).

For one indicator class the task executes the REAL loop body of `Indicator.calculate`
(set active index, skip test, `_calculate_reading`, `round_values`, `_set_reading`) for a
symbolic index i on a symbolic candle list of unbounded length, under the hypothesis that
the class invariant Inv(j) holds for all j < i (and the invariants of prior sub-indicators
for j <= i), and proves Inv(i), the read frame (no look-ahead, no wrap-around), the write
frame (own namespace, index i only), `frame-read-own`, and that nothing raises.
This is the inv-preserve obligation of the driver loop specialised to the class.
"""
from __future__ import annotations

import ast

import z3

from . import values as vals
from .contracts import SpecEval, assume_spec, oblige_spec
from .exec import ClassVal, FuncVal
from .objects import instantiate
from .series import SeriesP
from .state import ObjP, QAssume, State
from .tasks import new_series
from .values import Atom, Ref, SBool, SFloat, SInt, SNum, Tmpl, Unsupported, to_int_term


class IndSpec:
    def __init__(self, cls, params=None, lets=None, inv=None, inputs=None, helpers=None, prior=None,
                 variants=None, props=None, window=None, ctor=None, extra_pre=None, post=None,
                 name_kwargs=None, managed=None, hints=None, notes=None, subs=None, general_pre=None, lemmas=None):
        self.cls = cls  # qualname of the class
        self.params = params or {}  # name -> (type, constraint src | None)
        self.lets = lets or {}
        self.inv = inv or {}  # label -> (clause over j, [props])
        self.inputs = inputs or {}  # env name -> (ctor kwarg | None, start var, kind)
        self.helpers = helpers or []  # names (spec exprs) of managed-helper keys written by this class
        self.prior = prior or {}  # label -> clause over j assumed for j <= i (prior sub-indicators)
        self.variants = variants or [{}]
        self.props = props or []
        self.window = window  # spec expr: look-back W (reads within [i-W, i])
        self.ctor = ctor or {}
        self.extra_pre = extra_pre or {}
        self.post = post or {}
        self.managed = managed or {}
        self.hints = hints or []
        self.notes = notes or []
        # case split on a parameter: {param: clause} is assumed in every variant that leaves the parameter symbolic; the
        # remaining values are covered by variants that fix it ("const:<int>"); together they cover extra_pre
        self.general_pre = general_pre or {}
        # arithmetic lemmas (label -> clause over j = i): the clause with every non-arithmetic subterm (readings, sums)
        # replaced by a fresh variable must be VALID in real arithmetic - that is an obligation of its own ("lemma") - and
        # the instance over the actual terms is then added to the hypotheses of the step (nonlinear identities that the
        # solver does not find by itself, e.g. the running-variance update)
        self.lemmas = lemmas or {}
        self.subs = subs or {}  # spec expr -> {role: prior|helper, ghost: {param: src}, parent: spec expr}


def sym_param(name, ty):
    if ty == "int":
        return SInt(z3.Int(name))
    if ty == "float":
        return SFloat(z3.Real(name))
    if ty == "bool":
        return SBool(z3.Bool(name))
    if ty == "name":
        return Tmpl((Atom(name, "str"),))
    if ty == "dotted":
        return Tmpl((Atom(name, "str"), ".val"))
    if ty.startswith("lit:"):
        return ty[4:]
    if ty.startswith("const:"):
        return int(ty[6:])
    if ty.startswith("func:"):
        return ("__func__", ty[5:])
    raise Unsupported(f"param type {ty}")


def loop_body_of(source, qualname, ordinal=0):
    m, c, fn, kind = source.function(qualname)
    loops = [n for n in ast.walk(fn) if isinstance(n, (ast.For, ast.While))]
    loops.sort(key=lambda n: (n.lineno, n.col_offset))
    return m, c, loops[ordinal]


def build_indicator_task(spec, variant):
    """returns builder(ex, st0) for tasks.run_task_custom"""

    def builder(ex, st0):
        source = ex.ctx.source
        series = new_series(st0, "c")
        ser = st0.heap[series.oid]
        r = source.function(spec.cls + "._calculate_reading")
        if r is None:
            raise Unsupported("class has no _calculate_reading")
        module, cls, _, _ = r
        source.resolve_class_bases(cls)
        kwargs = {"candles": series}
        env = {"c": series}
        for pname, (ty, cons) in spec.params.items():
            ty = variant.get(pname, ty)
            v = sym_param(pname, ty)
            if isinstance(v, tuple) and v and v[0] == "__func__":
                from .exec import FuncVal as _FV

                fm, _c, fn_node, _k = source.function(v[1])
                v = _FV(fm, fn_node)
            env[pname] = v
            if pname in spec.ctor.get("skip", ()):
                continue
            kwargs[pname] = v
        for k, v in spec.ctor.get("fixed", {}).items():
            kwargs[k] = v
        i = z3.Int("i")
        env["i"] = SInt(i)
        # parameter preconditions hold while the constructor and _initialise run
        for label, src in spec.extra_pre.items():
            if "forall" in src:
                continue  # needs the lets (evaluated once the instance exists)
            try:
                v = SpecEval(ex, st0, env).ev(src)
            except Unsupported:
                continue
            assume_spec(ex, st0, v, f"pre:{label}")
        for pname, src in spec.general_pre.items():
            if not str(variant.get(pname, "")).startswith("const:"):
                assume_spec(ex, st0, SpecEval(ex, st0, env).ev(src), f"pre:case:{pname}")
        for st1, obj in instantiate(ex, cls, [], kwargs, st0, None):
            p = st1.heap[series.oid]
            st1.assume(z3.And(i >= 0, i < p.length))
            if not ex.ctx.feasible(st1):
                continue
            # real _initialise builds the helper graph
            o = st1.heap[obj.oid]
            c0, init = o.cls.find("methods", "_initialise")
            for st2, _ in ex.call_function(FuncVal(c0.module, init, c0), [obj], {}, st1, None):
                st2.heap[obj.oid].fields["_initialised"] = True
                env2 = dict(env)
                env2["self"] = obj
                env2["N"] = st2.heap[obj.oid].fields["_output_name"]
                yield st2, obj, env2, i

    return builder


_ARITH_KINDS = None


def abstract_arith(t):
    """the formula with every maximal subterm that is not built from real / integer arithmetic, comparisons, ite and boolean
    connectives replaced by a fresh constant of its sort (the same subterm -> the same constant)"""
    keep = {z3.Z3_OP_ADD, z3.Z3_OP_SUB, z3.Z3_OP_MUL, z3.Z3_OP_DIV, z3.Z3_OP_UMINUS, z3.Z3_OP_LE, z3.Z3_OP_LT, z3.Z3_OP_GE, z3.Z3_OP_GT,
            z3.Z3_OP_EQ, z3.Z3_OP_DISTINCT, z3.Z3_OP_ITE, z3.Z3_OP_AND, z3.Z3_OP_OR, z3.Z3_OP_NOT, z3.Z3_OP_IMPLIES, z3.Z3_OP_TO_REAL,
            z3.Z3_OP_ANUM, z3.Z3_OP_TRUE, z3.Z3_OP_FALSE, z3.Z3_OP_IFF if hasattr(z3, "Z3_OP_IFF") else z3.Z3_OP_EQ}
    memo = {}

    def go(e):
        k = e.get_id()
        if k in memo:
            return memo[k]
        if z3.is_app(e) and e.decl().kind() in keep and (e.num_args() > 0 or z3.is_rational_value(e) or z3.is_int_value(e) or z3.is_true(e) or z3.is_false(e)):
            r = e.decl()(*[go(c) for c in e.children()]) if e.num_args() else e
        else:
            r = z3.Const(f"abs!{len(memo)}", e.sort())
        memo[k] = r
        return r

    return go(t)


SPEC_REGISTRY = {}  # class qualname -> IndSpec


class Bound:
    """an IndSpec bound to one instance (the indicator under verification, or one of its helpers)"""

    def __init__(self, ex, st, spec, env, role, inst):
        self.ex, self.spec, self.env, self.role, self.inst = ex, spec, env, role, inst
        self.N = env["N"]
        o = st.heap[inst.oid]
        self.which = "S" if o.fields.get("_sub_indicator", False) is True else "I"
        self.children = []

    def clause(self, st, src, j, old=None, tight=False):
        """tight: the clause with the input perturbation bound `xeps` set to 0 (what a computation establishes
        with respect to the inputs as they are stored at that moment)"""
        env = self.env
        if tight and "xeps" in env:
            env = dict(env)
            env["xeps"] = 0
        v = SpecEval(self.ex, st, dict(env, j=SInt(j) if z3.is_expr(j) else j), old).ev(src)
        return vals.zbool(vals.truthy_term(v, st.heap))

    def clause_value(self, st, src, j, old=None, tight=False):
        """the clause as a specification value (may contain quantifiers: goal position only)"""
        env = self.env
        if tight and "xeps" in env:
            env = dict(env)
            env["xeps"] = 0
        return SpecEval(self.ex, st, dict(env, j=SInt(j) if z3.is_expr(j) else j), old).ev(src)

    def contiguity(self, st, j):
        ser = st.heap[self.env["c"].oid]
        out = []
        for xname, (start, kind) in self.spec.inputs.items():
            X = self.env[xname]
            s = self.env[start] if isinstance(start, str) and start in self.env else SpecEval(self.ex, st, self.env).ev(start)
            s_t = to_int_term(s)
            v = ser.lookup_V(X, j)
            num = vals.V.is_vnum(v) if kind == "num" else z3.And(vals.V.is_vnum(v), vals.V.isf(v))
            out.append(z3.And(z3.Implies(j < s_t, vals.V.is_vnone(v)), z3.Implies(j >= s_t, num)))
        return z3.And(*out) if out else z3.BoolVal(True)

    def inv_items(self, assume_only=False):
        for label, tup in self.spec.inv.items():
            if len(tup) > 2 and tup[2].get("defer"):
                continue  # written down, not yet discharged: decided by the bounded stand-in only
            if len(tup) > 2 and getattr(self, "mode", None) in tup[2].get("defer_in", ()):
                continue  # not discharged in this mode (e.g. the recompute step): neither proved nor assumed there
            if assume_only and len(tup) > 2 and not tup[2].get("assume", True):
                continue
            yield label, tup[0], (tup[1] if len(tup) > 1 else None)


def bind_spec(ex, st, spec, base_env, inst, role, ghost, parent_env, label_prefix=""):
    """evaluate parameters of `spec` from the real instance object (and ghost bindings), its lets, and
    check (sub) or assume (top) its parameter preconditions"""
    o = st.heap[inst.oid]
    env = dict(base_env)
    env["self"] = inst
    env["N"] = o.fields["_output_name"]
    for pname in spec.params:
        if pname in env and role == "top":
            continue
        if pname in o.fields:
            env[pname] = o.fields[pname]
        elif pname in ghost:
            env[pname] = SpecEval(ex, st, parent_env).ev(ghost[pname])
        elif pname == "xeps":
            env[pname] = 0
        else:
            raise Unsupported(f"no binding for parameter {pname} of {spec.cls}")
    for k, src in spec.lets.items():
        if k in ghost and role != "top":
            env[k] = SpecEval(ex, st, parent_env).ev(ghost[k])
        else:
            env[k] = SpecEval(ex, st, env).ev(src)
    ev = SpecEval(ex, st, env)
    for label, src in spec.extra_pre.items():
        if role == "top" or label.startswith("eps"):
            assume_spec(ex, st, ev.ev(src), f"pre:{label}")
        else:
            oblige_spec(ex, st, "pre@sub", f"{label_prefix}{label}", ev.ev(src), None)
            assume_spec(ex, st, ev.ev(src), f"pre:{label}")
    for xname, (start, kind) in spec.inputs.items():
        s = env[start] if isinstance(start, str) and start in env else SpecEval(ex, st, env).ev(start)
        if role == "top":
            st.assume(to_int_term(s) >= 0)
    return Bound(ex, st, spec, env, role, inst)


def _short(key):
    return key if isinstance(key, str) else repr(key)


def helper_effect(ex, st, b, start, whole=False):
    """contract of helper.calculate_index(start) / helper.calculate() at index 0, from the helper class's own
    (separately proved) step invariant: requires Inv_h below start and the helper's inputs to be well formed up
    to start; havocs the helper's key at start; ensures Inv_h(start) and that the key is present."""
    ser = st.heap[b.env["c"].oid]
    s_t = to_int_term(start)
    site = ex.ctx.site("helper", _short(b.N))
    j0 = z3.Int(vals_fresh("jh"))
    st_q = st.fork()
    st_q.inst_terms.append(("term", j0))
    for label, src, _ in b.inv_items(assume_only=True):
        ex.ctx.oblige(st_q, "pre@call", f"{_short(b.N)}.calculate_index:Inv-below:{label}#{site}",
                      z3.Implies(z3.And(j0 >= 0, j0 < s_t), b.clause(st_q, src, j0)), None)
    ex.ctx.oblige(st_q, "pre@call", f"{_short(b.N)}.calculate_index:inputs-well-formed#{site}",
                  z3.Implies(z3.And(j0 >= 0, j0 <= s_t), b.contiguity(st_q, j0)), None)
    # a helper driven twice for the same index with unchanged inputs computes the same value again
    # (it is deterministic): keep the first result instead of an unrelated fresh one
    sig = (z3.simplify(s_t).sexpr(),) + tuple(z3.simplify(ser.lookup_V(b.env[x], s_t)).sexpr() for x in b.spec.inputs)
    memo = st.ghost.setdefault("helper-memo", HelperMemo())
    if not whole and memo.items.get(_short(b.N)) == sig:
        return
    memo.items[_short(b.N)] = sig
    if whole:
        ser.havoc_all(b.which, b.N, vals_fresh("hv"))
    else:
        ser.havoc_at(b.which, b.N, s_t, vals_fresh("hv"))
    ser.written_now.add(b.N)
    st.heap[b.inst.oid].fields["_active_index"] = concretize_int(start)
    for label, src, _ in b.inv_items(assume_only=True):
        st.assume(b.clause(st, src, s_t, tight=True))
    st.assume(ser.has(b.which, b.N, s_t))
    if whole:
        # everything the helper computes beyond the candle being processed is computed from
        # inputs that do not exist yet: those entries are None (and are overwritten later)
        snap = ser.clone()
        st.qassumes.append(QAssume(lambda j, ser=snap, b=b, s_t=s_t: z3.Implies(j > s_t, vals.V.is_vnone(ser.lookup_V(b.N, j))), "helper-future-none"))
    for ch in b.children:
        o = st.heap[ch.inst.oid]
        if o.fields.get("_sub_calc_prior", True) is False:
            helper_effect(ex, st, ch, start, whole)


class HelperMemo:
    def __init__(self, items=None):
        self.items = dict(items or {})

    def clone(self):
        return HelperMemo(self.items)


def vals_fresh(base):
    from .state import fresh_name

    return fresh_name(base)


def concretize_int(v):
    from .values import concretize

    return concretize(v) if not isinstance(v, int) else v


def hook_calculate_index(ex, st, args, kwargs, node):
    b = getattr(ex.ctx, "bindings", {}).get(args[0].oid if isinstance(args[0], Ref) else None)
    if b is None or b.role == "top":
        return None
    start = args[1] if len(args) > 1 else kwargs.get("start_index")
    end = args[2] if len(args) > 2 else kwargs.get("end_index")
    if end is not None:
        d = z3.simplify(to_int_term(end) - to_int_term(start))
        if not (z3.is_int_value(d) and d.as_long() == 1):
            raise Unsupported("helper.calculate_index over more than one index")

    def gen():
        helper_effect(ex, st, b, start)
        yield st, None

    return gen()


def hook_calculate(ex, st, args, kwargs, node):
    b = getattr(ex.ctx, "bindings", {}).get(args[0].oid if isinstance(args[0], Ref) else None)
    if b is None or b.role == "top":
        return None

    def gen():
        # only reached through `_calculate_sub_indicators` with start_index == 0
        i = b.env["i"]
        ex.ctx.oblige(st, "pre@call", f"{_short(b.N)}.calculate:only-at-index-0", to_int_term(i) == 0, node)
        st.assume(to_int_term(i) == 0)
        helper_effect(ex, st, b, 0, whole=True)
        yield st, None

    return gen()


HOOKS = {
    "hexital.core.indicator.Indicator.calculate_index": hook_calculate_index,
    "hexital.core.indicator.Indicator.calculate": hook_calculate,
}


def run_indicator_task(source, contracts, loops, spec, variant, natives=None, timeout_ms=10000):
    from .exec import Ctx, Exec
    from .solve import check
    from .tasks import TaskResult
    import time, traceback

    variant = dict(variant)
    mode = variant.pop("mode", "calculate")
    vname = ",".join(f"{k}={v}" for k, v in variant.items())
    qn = spec.cls + (".calculate-step" if mode == "calculate" else ".recompute-step") + (f"[{vname}]" if vname else "")
    res = TaskResult(qn)
    res.describe = source.describe(spec.cls + "._calculate_reading")
    ctx = Ctx(source, contracts, loops)
    ctx.func = qn
    ctx.props = list(spec.props)
    ctx.natives = dict(natives or {})
    ctx.natives.update(HOOKS)
    ctx.raised = []
    ctx.bindings = {}
    ex = Exec(ctx)
    t0 = time.time()
    try:
        if mode == "calculate":
            dm, dc, loop = loop_body_of(source, "hexital.core.indicator.Indicator.calculate", 0)
            fname = "hexital.core.indicator.Indicator.calculate"
        else:
            dm, dc, loop = loop_body_of(source, "hexital.core.indicator.Indicator.calculate_index", 0)
            fname = "hexital.core.indicator.Indicator.calculate_index"
        st0 = State()
        st0.frames.append({"__module__": dm})
        for st, obj, env, i in build_indicator_task(spec, variant)(ex, st0):
            res.variants += 1
            ser = st.heap[env["c"].oid]
            top = bind_spec(ex, st, spec, env, obj, "top", {}, env)
            env = top.env
            if not ctx.feasible(st):
                continue
            ctx.bindings[obj.oid] = top
            top.mode = mode
            from .replay import indicator_extractor

            ctx.extract = indicator_extractor(spec, variant, env, mode)
            bounds = [top]
            missing_helper = False
            # helper graph: specs of the sub / managed indicators, bound to the real instances
            for path, info in spec.subs.items():
                inst = SpecEval(ex, st, env).ev(path)
                if not isinstance(inst, Ref):
                    # the class contract names its helpers (own name + "_..."): a helper that is not registered under that
                    # name breaks the namespace premise of C13 - an obligation, not a limit of the engine
                    ctx.oblige(st, "namespace", f"helper-registered-under-its-own-prefixed-name:{path}", False, None, props=["C13", "C14"])
                    missing_helper = True
                    break
                sspec = SPEC_REGISTRY.get(st.heap[inst.oid].cls.qualname)
                if sspec is None:
                    raise Unsupported(f"no spec for helper class {st.heap[inst.oid].cls.qualname}")
                sb = bind_spec(ex, st, sspec, {"c": env["c"], "i": env["i"]}, inst, info.get("role", "prior"),
                               info.get("ghost", {}), env, label_prefix=f"{path}:")
                ctx.bindings[inst.oid] = sb
                parent = info.get("parent")
                if parent:
                    pinst = SpecEval(ex, st, env).ev(parent)
                    ctx.bindings[pinst.oid].children.append(sb)
                bounds.append(sb)
            if missing_helper:
                continue
            N = env["N"]
            # hypotheses are statements about the PRE-state: evaluate them against a frozen snapshot,
            # never against the state object that the execution goes on mutating
            pre_st = st.fork()
            ser_pre = pre_st.heap[env["c"].oid]
            for b in bounds:
                if b.role == "prior" or mode != "calculate":
                    lim = (lambda j: z3.And(j >= 0, j <= i))
                else:
                    lim = (lambda j: z3.And(j >= 0, j < i))
                for label, src, _ in b.inv_items(assume_only=True):
                    lim_c = lim
                    tup = b.spec.inv.get(label)
                    if mode != "calculate" and b.role != "prior" and len(tup) > 2 and tup[2].get("assume_below_only"):
                        # a weaker hypothesis (sound): the stale entry at i is never read by the step (frame-read-own), and its
                        # nonlinear instance only distracts the solver
                        lim_c = (lambda j: z3.And(j >= 0, j < i))
                    st.qassumes.append(QAssume(lambda j, b=b, src=src, lim=lim_c: z3.Implies(lim(j), b.clause(pre_st, src, j)),
                                               f"Inv[{_short(b.N)}]:{label}"))
                if b.role == "helper":
                    st.qassumes.append(QAssume(lambda j, b=b, lim=lim: z3.Implies(lim(j), b.contiguity(pre_st, j)), f"inputs[{_short(b.N)}]"))
                    lo_f = i if mode == "calculate" else i + 1
                    st.qassumes.append(QAssume(lambda j, b=b, lo_f=lo_f: z3.Implies(z3.And(j >= lo_f, j < ser_pre.length), vals.V.is_vnone(ser_pre.lookup_V(b.N, j))), f"future-none[{_short(b.N)}]"))
                else:
                    st.qassumes.append(QAssume(lambda j, b=b: z3.Implies(z3.And(j >= 0, j < ser_pre.length), b.contiguity(pre_st, j)), f"inputs[{_short(b.N)}]"))
            which = top.which
            data_keys = [SpecEval(ex, st, env).ev(h) for h in spec.helpers]
            if mode == "calculate":
                for kk in [N] + data_keys:
                    st.qassumes.append(QAssume(lambda j, kk=kk: z3.Implies(z3.And(j >= i, j < ser_pre.length), z3.And(z3.Not(ser_pre.has("I", kk, j)), z3.Not(ser_pre.has("S", kk, j)))), f"absent-from-i[{_short(kk)}]"))
            # every key is written to one of the two per-candle dicts only (no other indicator shares the
            # name: premise of C13); data keys and helper keys live in sub_indicators
            single = [(N, "S" if which == "I" else "I")] + [(kk, "I") for kk in data_keys] + [(b.N, "S" if b.which == "I" else "I") for b in bounds[1:]]
            for kk, other in single:
                st.qassumes.append(QAssume(lambda j, kk=kk, other=other: z3.Implies(z3.And(j >= 0, j < ser_pre.length), z3.Not(ser_pre.has(other, kk, j))), f"single-dict[{_short(kk)}]"))
            # frames
            helpers = data_keys + [b.N for b in bounds[1:] if b.role == "helper"]
            ser.read_frame = (0, i)
            if spec.window is not None:
                W = to_int_term(SpecEval(ex, st, env).ev(spec.window))
                ser.read_frame = (z3.If(i - W > 0, i - W, 0), i)
            if spec.window is not None:
                # work bound: iteration spaces inside the step have at most window + 2 elements
                ctx.cost_bound = to_int_term(SpecEval(ex, st, env).ev(spec.window)) + 2
                ctx.props_cost = True
            # C13: every key this indicator (or one of its helpers) writes is its own name or its name followed
            # by "_...": two indicators with different names then write disjoint key sets unless one name
            # extends the other with an underscore suffix that happens to be a helper name
            for kk in helpers + [b.N for b in bounds[1:]]:
                ok = vals.str_has_own_prefix(kk, N)
                ctx.oblige(st, "namespace", f"own-prefix:{_short(kk)}", z3.BoolVal(bool(ok)), None, props=["C13"])
            ser.write_keys = set([N] + helpers)
            ser.write_index = i
            ser.own_keys = set([N] + helpers)
            ser.written_now = set()
            st.inst_terms.append(("term", i))
            st.inst_terms.append(("term", i - 1))
            for hk in spec.helpers:
                pass
            old = st.fork()
            ctx.base_state = old
            frame = {"__module__": dm, "__func__": fname, "self": obj, "index": SInt(i)}
            st.frames.append(frame)
            for st1, sig in ex.exec_block(loop.body, st):
                res.paths += 1
                if sig[0] == "raise":
                    ctx.oblige(st1, f"noraise:{sig[1]}", f"raise at line {sig[2]}", False, loop)
                    continue
                if sig[0] not in ("next", "continue"):
                    raise Unsupported(f"signal {sig[0]} out of the driver loop body")
                ser1 = st1.heap[env["c"].oid]
                lemma_for = {}
                for label, (src, clauses) in spec.lemmas.items():
                    inst = top.clause(st1, src, i, old)
                    ctx.oblige(State(), "lemma", label, abstract_arith(inst), loop)
                    for cl in clauses:  # the instance is a hypothesis of the named clauses only (keeps the other queries linear)
                        lemma_for.setdefault(cl, []).append(inst)
                for b in bounds:
                    if b.role == "prior":
                        continue
                    pre = "" if b is top else f"helper[{_short(b.N)}]:"
                    for label, src, props in b.inv_items(assume_only=(b is not top)):
                        st_o = st1
                        if b is top and label in lemma_for:
                            st_o = st1.fork()
                            for inst in lemma_for[label]:
                                st_o.assume(inst)
                        oblige_spec(ex, st_o, "inv-preserve", pre + label, b.clause_value(st_o, src, i, old, tight=(b is top)), loop, props=props or None)
                    if b.role == "helper":
                        ex.ctx.oblige(st1, "inv-preserve", pre + "inputs-well-formed", b.contiguity(st1, i), loop)
                        jf = z3.Int(vals_fresh("jf"))
                        st_f = st1.fork()
                        st_f.inst_terms.append(("term", jf))
                        ex.ctx.oblige(st_f, "inv-preserve", pre + "future-none",
                                      z3.Implies(z3.And(jf > i, jf < ser1.length), vals.V.is_vnone(ser1.lookup_V(b.N, jf))), loop)
                ctx.oblige(st1, "inv-preserve", "own-key-written", ser1.has(which, N, i), loop)
    except Unsupported as e:
        res.out_of_reach = f"unsupported: {e}"
    except RecursionError:
        res.out_of_reach = "unsupported: recursion depth"
    except Exception as e:
        res.out_of_reach = f"engine-error: {type(e).__name__}: {e}\n{traceback.format_exc()[-2500:]}"
    res.gen_s = time.time() - t0
    res.edges = sorted(ctx.edges)
    res.assumptions = sorted(ctx.assumptions)
    t1 = time.time()
    from .solve import solve_all

    res.obligations = solve_all(ctx, ctx.obligations, timeout_ms)
    res.solve_s = time.time() - t1
    res._ctx = ctx
    return res
