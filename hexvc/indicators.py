"""Per-class indicator tasks (DESIGN.md 5.2-5.4).

For one indicator class the task executes the REAL loop body of `Indicator.calculate`
(set active index, skip test, `_calculate_reading`, `round_values`, `_set_reading`) for a
symbolic index i on a symbolic candle list of unbounded length, under the hypothesis that
the class invariant Inv(j) holds for all j < i (and the invariants of prior sub-indicators
for j <= i), and proves Inv(i), the read frame (no look-ahead, no wrap-around), the write
frame (own namespace, index i only), `frame-read-own`, and that nothing raises.
This is the inv-preserve obligation of the driver loop specialised to the class.
"""
from __future__ import annotations

import ast

import z3

from . import values as vals
from .contracts import SpecEval, assume_spec, oblige_spec
from .exec import ClassVal, FuncVal
from .objects import instantiate
from .series import SeriesP
from .state import ObjP, QAssume, State
from .tasks import new_series
from .values import Atom, Ref, SBool, SFloat, SInt, SNum, Tmpl, Unsupported, to_int_term


class IndSpec:
    def __init__(self, cls, params=None, lets=None, inv=None, inputs=None, helpers=None, prior=None,
                 variants=None, props=None, window=None, ctor=None, extra_pre=None, post=None,
                 name_kwargs=None, managed=None, hints=None, notes=None):
        self.cls = cls  # qualname of the class
        self.params = params or {}  # name -> (type, constraint src | None)
        self.lets = lets or {}
        self.inv = inv or {}  # label -> (clause over j, [props])
        self.inputs = inputs or {}  # env name -> (ctor kwarg | None, start var, kind)
        self.helpers = helpers or []  # names (spec exprs) of managed-helper keys written by this class
        self.prior = prior or {}  # label -> clause over j assumed for j <= i (prior sub-indicators)
        self.variants = variants or [{}]
        self.props = props or []
        self.window = window  # spec expr: look-back W (reads within [i-W, i])
        self.ctor = ctor or {}
        self.extra_pre = extra_pre or {}
        self.post = post or {}
        self.managed = managed or {}
        self.hints = hints or []
        self.notes = notes or []


def sym_param(name, ty):
    if ty == "int":
        return SInt(z3.Int(name))
    if ty == "float":
        return SFloat(z3.Real(name))
    if ty == "bool":
        return SBool(z3.Bool(name))
    if ty == "name":
        return Tmpl((Atom(name, "str"),))
    if ty == "dotted":
        return Tmpl((Atom(name, "str"), ".val"))
    if ty.startswith("lit:"):
        return ty[4:]
    raise Unsupported(f"param type {ty}")


def loop_body_of(source, qualname, ordinal=0):
    m, c, fn, kind = source.function(qualname)
    loops = [n for n in ast.walk(fn) if isinstance(n, (ast.For, ast.While))]
    loops.sort(key=lambda n: (n.lineno, n.col_offset))
    return m, c, loops[ordinal]


def build_indicator_task(spec, variant):
    """returns builder(ex, st0) for tasks.run_task_custom"""

    def builder(ex, st0):
        source = ex.ctx.source
        series = new_series(st0, "c")
        ser = st0.heap[series.oid]
        r = source.function(spec.cls + "._calculate_reading")
        if r is None:
            raise Unsupported("class has no _calculate_reading")
        module, cls, _, _ = r
        source.resolve_class_bases(cls)
        kwargs = {"candles": series}
        env = {"c": series}
        for pname, (ty, cons) in spec.params.items():
            ty = variant.get(pname, ty)
            v = sym_param(pname, ty)
            env[pname] = v
            if pname in spec.ctor.get("skip", ()):
                continue
            kwargs[pname] = v
        for k, v in spec.ctor.get("fixed", {}).items():
            kwargs[k] = v
        i = z3.Int("i")
        env["i"] = SInt(i)
        for st1, obj in instantiate(ex, cls, [], kwargs, st0, None):
            p = st1.heap[series.oid]
            st1.assume(z3.And(i >= 0, i < p.length))
            if not ex.ctx.feasible(st1):
                continue
            # real _initialise builds the helper graph
            o = st1.heap[obj.oid]
            c0, init = o.cls.find("methods", "_initialise")
            for st2, _ in ex.call_function(FuncVal(c0.module, init, c0), [obj], {}, st1, None):
                st2.heap[obj.oid].fields["_initialised"] = True
                env2 = dict(env)
                env2["self"] = obj
                env2["N"] = st2.heap[obj.oid].fields["_output_name"]
                yield st2, obj, env2, i

    return builder


def run_indicator_task(source, contracts, loops, spec, variant, natives=None, timeout_ms=10000):
    from .exec import Ctx, Exec
    from .solve import check
    from .tasks import TaskResult
    import time, traceback

    vname = ",".join(f"{k}={v}" for k, v in variant.items())
    qn = spec.cls + ".calculate-step" + (f"[{vname}]" if vname else "")
    res = TaskResult(qn)
    res.describe = source.describe(spec.cls + "._calculate_reading")
    ctx = Ctx(source, contracts, loops)
    ctx.func = qn
    ctx.props = list(spec.props)
    ctx.natives = dict(natives or {})
    ctx.raised = []
    ex = Exec(ctx)
    t0 = time.time()
    try:
        dm, dc, loop = loop_body_of(source, "hexital.core.indicator.Indicator.calculate", 0)
        st0 = State()
        st0.frames.append({"__module__": dm})
        for st, obj, env, i in build_indicator_task(spec, variant)(ex, st0):
            res.variants += 1
            ser = st.heap[env["c"].oid]
            # lets
            for k, src in spec.lets.items():
                env[k] = SpecEval(ex, st, env).ev(src)
            ev = SpecEval(ex, st, env)
            for label, src in spec.extra_pre.items():
                assume_spec(ex, st, ev.ev(src), f"pre:{label}")
            # inputs: None before the start, numbers from it on
            for xname, (start, kind) in spec.inputs.items():
                X = env[xname]
                s = env[start] if isinstance(start, str) and start in env else SpecEval(ex, st, env).ev(start)
                s_t = to_int_term(s)
                st.assume(s_t >= 0)

                def contiguous(j, X=X, s_t=s_t, kind=kind):
                    v = ser.lookup_V(X, j)
                    num = vals.V.is_vnum(v) if kind == "num" else z3.And(vals.V.is_vnum(v), vals.V.isf(v))
                    return z3.Implies(z3.And(j >= 0, j < ser.length),
                                      z3.And(z3.Implies(j < s_t, vals.V.is_vnone(v)), z3.Implies(j >= s_t, num)))

                st.qassumes.append(QAssume(contiguous, f"input-contiguous:{xname}"))
            N = env["N"]
            # Inv(j) for j < i ; own key present below i and absent from i on
            for label, tup in spec.inv.items():
                src = tup[0]
                if len(tup) > 2 and not tup[2].get("assume", True):
                    continue  # goal-only clause: proved at i, not needed as a hypothesis below i
                fn = (lambda j, src=src: SpecEval(ex, st, dict(env, j=SInt(j))).ev(src))
                st.qassumes.append(QAssume(lambda j, fn=fn: z3.Implies(z3.And(j >= 0, j < i), vals.zbool(vals.truthy_term(fn(j), st.heap))), f"Inv:{label}"))
            for label, src in spec.prior.items():
                fn = (lambda j, src=src: SpecEval(ex, st, dict(env, j=SInt(j))).ev(src))
                st.qassumes.append(QAssume(lambda j, fn=fn: z3.Implies(z3.And(j >= 0, j <= i), vals.zbool(vals.truthy_term(fn(j), st.heap))), f"Prior:{label}"))
            top = not st.heap[obj.oid].fields.get("_sub_indicator", False)
            which = "I" if top else "S"
            st.qassumes.append(QAssume(lambda j: z3.Implies(z3.And(j >= 0, j < i), ser.has(which, N, j)), "own-present-below"))
            st.qassumes.append(QAssume(lambda j: z3.Implies(z3.And(j >= i, j < ser.length), z3.And(z3.Not(ser.has("I", N, j)), z3.Not(ser.has("S", N, j)))), "own-absent-from-i"))
            other = "S" if top else "I"
            st.qassumes.append(QAssume(lambda j: z3.Implies(z3.And(j >= 0, j < ser.length), z3.Not(ser.has(other, N, j))), "own-key-single-dict"))
            # frames
            helpers = [SpecEval(ex, st, env).ev(h) for h in spec.helpers]
            ser.read_frame = (0, i)
            if spec.window is not None:
                W = to_int_term(SpecEval(ex, st, env).ev(spec.window))
                ser.read_frame = (z3.If(i - W > 0, i - W, 0), i)
            ser.write_keys = set([N] + helpers)
            ser.write_index = i
            ser.own_keys = set([N] + helpers)
            ser.written_now = set()
            st.inst_terms.append(("term", i))
            st.inst_terms.append(("term", i - 1))
            old = st.fork()
            frame = {"__module__": dm, "__func__": "hexital.core.indicator.Indicator.calculate", "self": obj, "index": SInt(i)}
            st.frames.append(frame)
            for st1, sig in ex.exec_block(loop.body, st):
                res.paths += 1
                if sig[0] == "raise":
                    ctx.oblige(st1, f"noraise:{sig[1]}", f"raise at line {sig[2]}", False, loop)
                    continue
                if sig[0] not in ("next", "continue"):
                    raise Unsupported(f"signal {sig[0]} out of the driver loop body")
                ser1 = st1.heap[env["c"].oid]
                for label, tup in spec.inv.items():
                    src, props = tup[0], tup[1]
                    ev1 = SpecEval(ex, st1, dict(env, j=SInt(i)), old)
                    oblige_spec(ex, st1, "inv-preserve", label, ev1.ev(src), loop, props=props or None)
                ctx.oblige(st1, "inv-preserve", "own-key-written", ser1.has(which, N, i), loop)
    except Unsupported as e:
        res.out_of_reach = f"unsupported: {e}"
    except RecursionError:
        res.out_of_reach = "unsupported: recursion depth"
    except Exception as e:
        res.out_of_reach = f"engine-error: {type(e).__name__}: {e}\n{traceback.format_exc()[-2500:]}"
    res.gen_s = time.time() - t0
    res.edges = sorted(ctx.edges)
    res.assumptions = sorted(ctx.assumptions)
    t1 = time.time()
    for ob in ctx.obligations:
        r = check(ob, ctx, timeout_ms=timeout_ms)
        d = {"id": ob.id, "kind": ob.kind, "label": ob.label, "lineno": ob.lineno, "path": ob.path,
             "props": ob.props, "status": r["status"], "backend": r.get("backend"), "time": round(r["time"], 4)}
        if "model" in r:
            d["model"] = r["model"]
        if "reason" in r:
            d["reason"] = r["reason"]
        res.obligations.append(d)
    res.solve_s = time.time() - t1
    res._ctx = ctx
    return res
