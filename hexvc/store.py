"""Heap model for the candle store (CandleManager): lists of candle references that are popped,
appended, extended and inserted into, and candle objects whose fields are rewritten in place.

* a candle is an integer id; one z3 array per field (Boogie-style heap);
* a list is (arr: position -> id, lo, hi): its elements are arr[lo .. hi-1]; pop(0) is lo+1, append is a
  store at hi; extend / insert introduce a fresh array with frame axioms (engine-instantiated);
* the ids of the input list are its positions (object identity is arbitrary, so this is w.l.o.g.), which
  makes "distinct positions hold distinct objects" (A3) arithmetic.
Candle methods (merge, save/recover_clean_values, reset_candle, tag) act on this model through the
contracts that are proved separately on the real method bodies (contracts/store.py, candle-object tasks).
"""
from __future__ import annotations

import z3

from . import values as vals
from .state import QAssume, fresh_name
from .timevals import DateTimeV
from .values import PathDead, Ref, SBool, SFloat, SInt, SNum, Unsupported, concretize, to_int_term, to_real_term, wrap_bool

REAL_FIELDS = ("open", "high", "low", "close", "volume", "c_open", "c_high", "c_low", "c_close", "c_volume")
INT_FIELDS = ("ts", "c_ts", "tag", "rd")
BOOL_FIELDS = ("clean",)


class CandleStoreP:
    def __init__(self, name="cs"):
        self.name = name
        self.arr = {}
        for f in REAL_FIELDS:
            self.arr[f] = z3.Array(f"{name}.{f}", z3.IntSort(), z3.RealSort())
        for f in INT_FIELDS:
            self.arr[f] = z3.Array(f"{name}.{f}", z3.IntSort(), z3.IntSort())
        for f in BOOL_FIELDS:
            self.arr[f] = z3.Array(f"{name}.{f}", z3.IntSort(), z3.BoolSort())
        self.gen = 0
        self.next_id = z3.Int(f"{name}.next")
        self.allowed = None  # frame: ids whose fields may be written (list of z3 Int terms) or None
        self.frame_hook = None

    def clone(self):
        c = CandleStoreP.__new__(CandleStoreP)
        c.name = self.name
        c.arr = dict(self.arr)
        c.gen = self.gen
        c.next_id = self.next_id
        c.allowed = None if self.allowed is None else list(self.allowed)
        c.frame_hook = self.frame_hook
        return c

    def get(self, f, i):
        return z3.Select(self.arr[f], to_int_term(i))

    def set(self, f, i, v, ex=None, st=None, node=None):
        it = to_int_term(i)
        if self.allowed is not None and ex is not None:
            ids = []
            for a in self.allowed:
                if isinstance(a, str):  # name of a local variable holding a candle, looked up at write time
                    for fr in reversed(st.frames):
                        if a in fr and isinstance(fr[a], HCandle):
                            ids.append(fr[a].i)
                            break
                else:
                    ids.append(a)
            goal = z3.Or(*[it == a for a in ids]) if ids else z3.BoolVal(False)
            ex.ctx.oblige(st, "frame-write", f"candle field {f} written outside the frame", goal, node)
            st.assume(goal)
        self.arr[f] = z3.Store(self.arr[f], it, v)
        self.gen += 1

    def havoc(self, tag):
        for f in list(self.arr):
            a = self.arr[f]
            self.arr[f] = z3.Array(f"{self.name}.{f}#{tag}", z3.IntSort(), a.range())
        self.next_id = z3.Int(f"{self.name}.next#{tag}")
        self.gen += 1

    def alloc(self, st):
        i = self.next_id
        self.next_id = z3.simplify(self.next_id + 1)
        self.gen += 1
        return i


class HCandle:
    pyclass = "Candle"

    def __init__(self, store, i):
        self.store = store  # Ref to CandleStoreP
        self.i = i  # z3 Int term

    def __repr__(self):
        return f"HCandle({self.i})"

    def eq_term(self, other):
        raise Unsupported("candle == candle on the heap model")

    def getattr(self, name, ex, st, node):
        from .exec import Builtin

        cs = st.heap[self.store.oid]
        if name in ("open", "high", "low", "close"):
            yield st, SFloat(cs.get(name, self.i))
            return
        if name == "volume":
            yield st, SNum(cs.get("volume", self.i), z3.BoolVal(False))
            return
        if name == "timestamp":
            yield st, DateTimeV(cs.get("ts", self.i), 0)
            return
        if name == "tag":
            yield st, TagV(cs.get("tag", self.i))
            return
        if name == "clean_values":
            yield st, CleanView(self.store, self.i)
            return
        if name in CANDLE_METHODS:
            fn = CANDLE_METHODS[name]

            def call(ex, st, args, kwargs, node, fn=fn):
                fn(ex, st, self, args, node)
                yield st, None

            yield st, Builtin("Candle." + name, call)
            return
        raise Unsupported(f"heap candle attribute {name}")

    def setattr(self, name, value, ex, st, node):
        cs = st.heap[self.store.oid]
        if name == "timestamp":
            if not isinstance(value, DateTimeV):
                raise Unsupported("timestamp assignment of a non datetime")
            cs.set("ts", self.i, to_int_term(value.sec), ex, st, node)
            yield st
            return
        if name in ("open", "high", "low", "close", "volume"):
            cs.set(name, self.i, to_real_term(value), ex, st, node)
            yield st
            return
        if name == "tag":
            # the tag setter raises CandleAlreadyTagged when a tag is already set
            ex.need(st, cs.get("tag", self.i) == 0, "CandleAlreadyTagged", node)
            code = tag_code(value) if isinstance(value, str) else to_int_term(value.t if isinstance(value, TagV) else value)
            cs.set("tag", self.i, code, ex, st, node)
            yield st
            return
        raise Unsupported(f"heap candle attribute store {name}")


class CleanView:
    """candle.clean_values of a heap candle: the raw values saved by save_clean_values (present iff `clean`)"""

    pyclass = "dict"
    KEYS = {"open": "c_open", "high": "c_high", "low": "c_low", "close": "c_close", "volume": "c_volume"}

    def __init__(self, store, i):
        self.store, self.i = store, i

    def truthy(self):
        raise Unsupported("truthiness of clean_values on the heap model")

    def getattr(self, name, ex, st, node):
        from .exec import Builtin

        if name != "get":
            raise Unsupported(f"clean_values.{name}")

        def get(ex, st_, args, kwargs, node_):
            cs = st_.heap[self.store.oid]
            key = args[0]
            if key not in self.KEYS:
                raise Unsupported(f"clean_values.get({key!r})")
            default = args[1] if len(args) > 1 else None
            if default is None:
                # dict.get(key): None unless the raw values were saved
                from .values import SOpt

                yield st_, SOpt(z3.Not(cs.get("clean", self.i)), SFloat(cs.get(self.KEYS[key], self.i)))
                return
            t = z3.If(cs.get("clean", self.i), cs.get(self.KEYS[key], self.i), to_real_term(default))
            yield st_, SFloat(t)

        yield st, Builtin("clean_values.get", get)


def tag_code(s):
    """candlestick-type names as non-zero integers (0 is None)"""
    import zlib

    return z3.IntVal(1 + (zlib.crc32(s.encode()) % 1000003))


class TagV:
    """candle.tag: 0 is None, any other integer a candlestick type name"""

    def __init__(self, t):
        self.t = t

    def truthy(self):
        return to_int_term(self.t) != 0

    def eq_term(self, other):
        if isinstance(other, TagV):
            return to_int_term(self.t) == to_int_term(other.t)
        if other is None:
            return to_int_term(self.t) == 0
        if isinstance(other, str):
            return to_int_term(self.t) == tag_code(other)
        return False


def _raw(cs, i, f):
    """the raw (pre-conversion) value of a field: the saved clean value when there is one"""
    return z3.If(cs.get("clean", i), cs.get("c_" + f, i), cs.get(f, i))


def m_merge(ex, st, c, args, node):
    """Candle.merge contract: raw values recovered, high=max, low=min, volume summed, close taken, open and
    timestamp kept (raw), clean values dropped, readings and tag reset"""
    cs = st.heap[c.store.oid]
    o = args[0]
    i, j = c.i, o.i
    rh, rl, rv, ro, rts = (_raw(cs, i, f) for f in ("high", "low", "volume", "open", "ts"))
    oh, ol, ov, oc = (cs.get(f, j) for f in ("high", "low", "volume", "close"))
    cs.set("open", i, ro, ex, st, node)
    cs.set("high", i, z3.If(rh >= oh, rh, oh), ex, st, node)
    cs.set("low", i, z3.If(rl <= ol, rl, ol), ex, st, node)
    cs.set("volume", i, rv + ov, ex, st, node)
    cs.set("close", i, oc, ex, st, node)
    cs.set("ts", i, rts, ex, st, node)
    cs.set("clean", i, z3.BoolVal(False), ex, st, node)
    cs.set("rd", i, z3.IntVal(0), ex, st, node)
    cs.set("tag", i, z3.IntVal(0), ex, st, node)


def m_save_clean(ex, st, c, args, node):
    cs = st.heap[c.store.oid]
    i = c.i
    for f in ("open", "high", "low", "close", "volume", "ts"):
        cs.set("c_" + f, i, cs.get(f, i), ex, st, node)
    cs.set("clean", i, z3.BoolVal(True), ex, st, node)


def m_recover_clean(ex, st, c, args, node):
    cs = st.heap[c.store.oid]
    i = c.i
    for f in ("open", "high", "low", "close", "volume", "ts"):
        cs.set(f, i, _raw(cs, i, f), ex, st, node)


def m_reset(ex, st, c, args, node):
    cs = st.heap[c.store.oid]
    cs.set("rd", c.i, z3.IntVal(0), ex, st, node)
    cs.set("tag", c.i, z3.IntVal(0), ex, st, node)


CANDLE_METHODS = {"merge": m_merge, "save_clean_values": m_save_clean, "recover_clean_values": m_recover_clean, "reset_candle": m_reset}


class HListP:
    is_list = True
    pyclass = "list"

    def __init__(self, name, store, arr=None, lo=None, hi=None):
        self.name = name
        self.store = store
        self.arr = arr if arr is not None else z3.Array(name + ".arr", z3.IntSort(), z3.IntSort())
        self.lo = lo if lo is not None else z3.IntVal(0)
        self.hi = hi if hi is not None else z3.Int(name + ".hi")
        self.gen = 0

    def clone(self):
        c = HListP(self.name, self.store, self.arr, self.lo, self.hi)
        c.gen = self.gen
        return c

    def length(self):
        return z3.simplify(self.hi - self.lo)

    def length_value(self, ex, st):
        return concretize(SInt(self.length()))

    def truthy(self):
        return self.hi > self.lo

    def havoc(self, tag):
        self.arr = z3.Array(f"{self.name}.arr#{tag}", z3.IntSort(), z3.IntSort())
        self.lo = z3.Int(f"{self.name}.lo#{tag}")
        self.hi = z3.Int(f"{self.name}.hi#{tag}")
        self.gen += 1

    def at(self, k):
        return HCandle(self.store, z3.Select(self.arr, z3.simplify(self.lo + to_int_term(k))))

    def getitem(self, ref, idx, ex, st, node):
        n = self.length()
        j = ex.list_index(st, n, idx, node)
        yield st, self.at(j)

    def space(self, ref, ex, st):
        from .iteration import Space

        return Space(n=self.length(), elem=lambda k: self.at(k))


def hlist_method(ex, obj, p, name):
    from .exec import Builtin

    def mk(fn):
        return Builtin("list." + name, fn)

    if name == "pop":
        def f(ex, st, args, kwargs, node):
            l = st.heap[obj.oid]
            idx = args[0] if args else -1
            ex.need(st, l.hi > l.lo, "IndexError", node, label="pop from empty list")
            if idx == 0:
                c = l.at(0)
                l.lo = z3.simplify(l.lo + 1)
            elif idx == -1:
                c = HCandle(l.store, z3.Select(l.arr, z3.simplify(l.hi - 1)))
                l.hi = z3.simplify(l.hi - 1)
            else:
                raise Unsupported("pop at a symbolic position")
            l.gen += 1
            yield st, c
        return mk(f)
    if name == "append":
        def f(ex, st, args, kwargs, node):
            l = st.heap[obj.oid]
            c = args[0]
            if not isinstance(c, HCandle):
                raise Unsupported("append of a non candle")
            l.arr = z3.Store(l.arr, l.hi, c.i)
            l.hi = z3.simplify(l.hi + 1)
            l.gen += 1
            yield st, None
        return mk(f)
    if name == "extend":
        def f(ex, st, args, kwargs, node):
            l = st.heap[obj.oid]
            o = args[0]
            op = st.heap[o.oid] if isinstance(o, Ref) else None
            if not isinstance(op, HListP):
                raise Unsupported("extend with a non heap list")
            n2 = op.length()
            old_arr, old_lo, old_hi = l.arr, l.lo, l.hi
            new = z3.Array(fresh_name(l.name + ".ext"), z3.IntSort(), z3.IntSort())
            o_arr, o_lo = op.arr, op.lo
            st.qassumes.append(QAssume(lambda j: z3.Implies(z3.And(j >= old_lo, j < old_hi), new[j] == old_arr[j]), "extend-keeps-prefix"))
            st.qassumes.append(QAssume(lambda j: z3.Implies(z3.And(j >= old_hi, j < old_hi + n2), new[j] == o_arr[o_lo + (j - old_hi)]), "extend-appends"))
            l.arr = new
            l.hi = z3.simplify(old_hi + n2)
            l.gen += 1
            yield st, None
        return mk(f)
    if name == "insert":
        def f(ex, st, args, kwargs, node):
            l = st.heap[obj.oid]
            k = to_int_term(args[0])
            c = args[1]
            if not isinstance(c, HCandle):
                raise Unsupported("insert of a non candle")
            n = l.length()
            ex.ctx.assumptions.add("list.insert index inside [0, len] (no clamping needed)")
            st.assume(z3.And(k >= 0, k <= n))
            old_arr, lo, hi = l.arr, l.lo, l.hi
            new = z3.Array(fresh_name(l.name + ".ins"), z3.IntSort(), z3.IntSort())
            st.qassumes.append(QAssume(lambda j: z3.Implies(z3.And(j >= lo, j < lo + k), new[j] == old_arr[j]), "insert-keeps-prefix"))
            st.qassumes.append(QAssume(lambda j: z3.Implies(z3.And(j > lo + k, j <= hi), new[j] == old_arr[j - 1]), "insert-shifts-suffix"))
            st.assume(new[lo + k] == c.i)
            l.arr = new
            l.hi = z3.simplify(hi + 1)
            l.gen += 1
            yield st, None
        return mk(f)
    return None
