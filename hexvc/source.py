"""Front end: reads the *real* Hexital sources from the repository working tree on
every run (never a copy, never a hand-written look-alike) and indexes functions,
classes, dataclass fields, properties and imports for the executor.

What is kept / dropped is listed in DESIGN.md section 3.8.
"""
from __future__ import annotations

import ast
import hashlib
import os

REPO = os.environ.get("HEXITAL_REPO", "/repo")


class ClassInfo:
    def __init__(self, module, node):
        self.module = module
        self.node = node
        self.name = node.name
        self.qualname = f"{module.name}.{node.name}"
        self.base_names = []
        for b in node.bases:
            if isinstance(b, ast.Name):
                self.base_names.append(b.id)
            elif isinstance(b, ast.Attribute):
                self.base_names.append(b.attr)
        self.methods = {}
        self.properties = {}
        self.setters = {}
        self.classmethods = set()
        self.staticmethods = set()
        self.fields = []  # (name, default_expr|None, init, factory_expr|None)
        self.class_attrs = {}  # name -> expr
        self.is_dataclass = any(
            (isinstance(d, ast.Call) and getattr(d.func, "id", "") == "dataclass")
            or (isinstance(d, ast.Name) and d.id == "dataclass")
            for d in node.decorator_list
        )
        for st in node.body:
            if isinstance(st, ast.FunctionDef):
                decos = []
                for d in st.decorator_list:
                    if isinstance(d, ast.Name):
                        decos.append(d.id)
                    elif isinstance(d, ast.Attribute):
                        decos.append(d.attr)
                if "property" in decos:
                    self.properties[st.name] = st
                elif "setter" in decos:
                    self.setters[st.name] = st
                else:
                    self.methods[st.name] = st
                    if "classmethod" in decos:
                        self.classmethods.add(st.name)
                    if "staticmethod" in decos:
                        self.staticmethods.add(st.name)
            elif isinstance(st, ast.AnnAssign) and isinstance(st.target, ast.Name):
                name = st.target.id
                default = st.value
                init = True
                factory = None
                if (
                    isinstance(default, ast.Call)
                    and isinstance(default.func, ast.Name)
                    and default.func.id == "field"
                ):
                    kw = {k.arg: k.value for k in default.keywords}
                    if "init" in kw and isinstance(kw["init"], ast.Constant):
                        init = bool(kw["init"].value)
                    factory = kw.get("default_factory")
                    default = kw.get("default")
                self.fields.append((name, default, init, factory))
                if default is not None:
                    self.class_attrs[name] = default
            elif isinstance(st, ast.Assign) and len(st.targets) == 1 and isinstance(st.targets[0], ast.Name):
                self.class_attrs[st.targets[0].id] = st.value

    # resolved lazily by Source
    bases: list = None

    def mro(self):
        out = [self]
        for b in self.bases or []:
            for c in b.mro():
                if c not in out:
                    out.append(c)
        return out

    def find(self, kind, name):
        for c in self.mro():
            d = getattr(c, kind)
            if name in d:
                return c, d[name]
        return None, None

    def all_fields(self):
        """dataclass fields in definition order, base classes first, overrides in place"""
        order = []
        seen = {}
        for c in reversed(self.mro()):
            for f in c.fields:
                if f[0] in seen:
                    order[seen[f[0]]] = (f, c)
                else:
                    seen[f[0]] = len(order)
                    order.append((f, c))
        return order

    def issubclass_of(self, name):
        return any(c.name == name for c in self.mro())


class ModuleInfo:
    def __init__(self, name, path):
        self.name = name
        self.path = path
        with open(path) as fh:
            self.src = fh.read()
        self.tree = ast.parse(self.src, filename=path)
        self.functions = {}
        self.classes = {}
        self.imports = {}  # local name -> ("mod", modname) | ("sym", modname, symbol)
        self.globals = {}  # name -> expr
        pkg = name.rsplit(".", 1)[0] if "." in name else name
        is_pkg = os.path.basename(path) == "__init__.py"
        for st in self.tree.body:
            if isinstance(st, ast.FunctionDef):
                self.functions[st.name] = st
            elif isinstance(st, ast.ClassDef):
                self.classes[st.name] = ClassInfo(self, st)
            elif isinstance(st, ast.Import):
                for a in st.names:
                    self.imports[a.asname or a.name.split(".")[0]] = ("mod", a.name)
            elif isinstance(st, ast.ImportFrom):
                if st.level:
                    base = name if is_pkg else pkg
                    for _ in range(st.level - 1):
                        base = base.rsplit(".", 1)[0]
                    mod = f"{base}.{st.module}" if st.module else base
                else:
                    mod = st.module
                for a in st.names:
                    self.imports[a.asname or a.name] = ("sym", mod, a.name)
            elif isinstance(st, ast.Assign) and len(st.targets) == 1 and isinstance(st.targets[0], ast.Name):
                self.globals[st.targets[0].id] = st.value

    def segment(self, node):
        return ast.get_source_segment(self.src, node) or ""


class Source:
    def __init__(self, root=None):
        self.root = root or REPO
        self.modules = {}

    def module(self, name):
        if name in self.modules:
            return self.modules[name]
        rel = name.replace(".", "/")
        cand = [os.path.join(self.root, rel + ".py"), os.path.join(self.root, rel, "__init__.py")]
        for p in cand:
            if os.path.exists(p):
                m = ModuleInfo(name, p)
                self.modules[name] = m
                for c in m.classes.values():
                    c.bases = None
                return m
        return None

    def resolve_class_bases(self, cls):
        if cls.bases is not None:
            return
        cls.bases = []
        for bn in cls.base_names:
            b = self.lookup(cls.module, bn)
            if isinstance(b, ClassInfo):
                self.resolve_class_bases(b)
                cls.bases.append(b)

    def lookup(self, module, name, _depth=0):
        """resolve a global name of `module` to FunctionDef/ClassInfo/ModuleInfo/('expr', module, expr)"""
        if _depth > 8:
            return None
        if name in module.functions:
            return ("func", module, module.functions[name])
        if name in module.classes:
            c = module.classes[name]
            self.resolve_class_bases(c)
            return c
        if name in module.globals:
            return ("expr", module, module.globals[name])
        if name in module.imports:
            imp = module.imports[name]
            if imp[0] == "mod":
                m = self.module(imp[1])
                return m if m else ("extmod", imp[1])
            m = self.module(imp[1])
            if m is None:
                return ("ext", imp[1], imp[2])
            # symbol may itself be a submodule
            sub = self.module(f"{imp[1]}.{imp[2]}")
            r = self.lookup(m, imp[2], _depth + 1)
            if r is None and sub is not None:
                return sub
            return r
        return None

    def function(self, qualname):
        """qualname 'pkg.mod.func' or 'pkg.mod.Class.method' -> (module, class|None, FunctionDef, kind)"""
        parts = qualname.split(".")
        for cut in range(len(parts) - 1, 0, -1):
            m = self.module(".".join(parts[:cut]))
            if m is None:
                continue
            rest = parts[cut:]
            if len(rest) == 1 and rest[0] in m.functions:
                return m, None, m.functions[rest[0]], "function"
            if len(rest) == 2 and rest[0] in m.classes:
                c = m.classes[rest[0]]
                self.resolve_class_bases(c)
                if rest[1].endswith("__setter") and rest[1][:-8] in c.setters:  # "<property>__setter" names the setter
                    return m, c, c.setters[rest[1][:-8]], "setters"
                for kind in ("methods", "properties", "setters"):
                    d = getattr(c, kind)
                    if rest[1] in d:
                        return m, c, d[rest[1]], kind
            return None
        return None

    def describe(self, qualname):
        r = self.function(qualname)
        if r is None:
            return None
        m, c, fn, kind = r
        seg = m.segment(fn)
        return {
            "function": qualname,
            "file": os.path.relpath(m.path, self.root),
            "lines": [fn.lineno, fn.end_lineno],
            "sha256": hashlib.sha256(seg.encode()).hexdigest()[:16],
        }
