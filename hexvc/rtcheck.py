"""Run-time contract cross-check (bounded; never counted as proved).

Every class invariant of contracts/ind_*.py - including clauses the engine only defers - is evaluated by
hexvc.concrete on the candles produced by REAL runs of the indicator (batch, one-by-one append, chunked append,
calculate + recalculate) over the streams of oracles.ref_indicators.  A clause that is definitely False at some
candle is a failure of the properties the clause is labelled with.  This both widens the bounded search with the
very contracts that are proved, and guards the engine: a clause that is "proved" but violated at run time means the
engine (or the contract's reading of the code) is wrong.

usage: python3-vt hexvc/rtcheck.py <property> --tier quick|thorough --seed N      (prints one JSON object)
The repository code runs under the tooling interpreter (CPython 3.11) here; hexital is pure python.
"""
from __future__ import annotations

import itertools
import json
import os
import random
import sys
import time
import traceback

ROOT = os.path.dirname(os.path.dirname(os.path.abspath(__file__)))
REPO = os.environ.get("HEXITAL_REPO", "/repo")
for p in (ROOT, REPO):
    if p not in sys.path:
        sys.path.insert(0, p)

from hexvc import concrete as C  # noqa: E402

SCHEDULE_PROPS = {"C01": "append", "C02": "chunks", "C14": "recalc"}


def load_specs():
    import registry  # noqa: F401  (fills SPEC_REGISTRY)

    registry.load()
    from hexvc.indicators import SPEC_REGISTRY

    return SPEC_REGISTRY


def import_class(qual):
    import importlib

    mod, name = qual.rsplit(".", 1)
    return getattr(importlib.import_module(mod), name)


def param_grid(spec, variant, thorough, rnd):
    """concrete constructor arguments satisfying the declared parameter types (preconditions are checked later)"""
    ints = [2, 3, 5] + ([4, 7, 14] if thorough else [])
    axes = {}
    for pname, (ty, _c) in spec.params.items():
        ty = variant.get(pname, ty)
        if pname in spec.ctor.get("skip", ()):
            continue
        if pname == "round_value":
            axes[pname] = [4] + ([0, 8] if thorough else [])
        elif ty == "int":
            axes[pname] = ints
        elif ty == "float":
            axes[pname] = [2.0, 3.0] if pname == "multiplier" else [2.0, 1.0]
        elif ty == "bool":
            axes[pname] = [True, False]
        elif ty in ("name", "dotted"):
            axes[pname] = ["close", "@X0", "@X3"] if ty == "name" else ["@D2"]
        elif ty.startswith("lit:"):
            axes[pname] = [ty[4:]]
        elif ty.startswith("const:"):
            axes[pname] = [int(ty[6:])]
        elif ty.startswith("func:"):
            axes[pname] = [import_class(ty[5:])]
        else:
            return []
    names = list(axes)
    combos = list(itertools.product(*[axes[n] for n in names]))
    rnd.shuffle(combos)
    limit = 14 if thorough else 5
    out = []
    for combo in combos:
        out.append(dict(zip(names, combo)))
        if len(out) >= limit:
            break
    return out


def inject(candles, kw, spec, seed):
    """turn '@X<start>' / '@D<start>' input names into readings stored on the candles (a user-supplied series that
    starts late); returns the constructor kwargs"""
    rnd = random.Random(seed)
    out = dict(kw)
    for k, v in kw.items():
        if isinstance(v, str) and v.startswith("@"):
            start = int(v[2:])
            dotted = v[1] == "D"
            boolean = "count_value" in spec.params
            x = 50.0
            for t, c in enumerate(candles):
                if t < start:
                    continue
                x = round(x + rnd.uniform(-2, 2), 3)
                val = (rnd.random() < 0.6) if boolean else (0.0 if rnd.random() < 0.08 else x)
                if dotted:
                    c.indicators["inj"] = {"val": val, "other": 1.0}
                else:
                    c.indicators["X"] = val
            out[k] = "inj.val" if dotted else "X"
    return out


def run_real(cls, kw, candles, mode):
    if mode == "batch":
        ind = cls(candles=candles, **kw)
        ind.calculate()
    elif mode == "append":
        ind = cls(**kw)
        for c in candles:
            ind.append(c)
    elif mode == "chunks":
        ind = cls(candles=candles[:3], **kw)
        ind.calculate()
        k = 3
        step = 1
        while k < len(candles):
            ind.append(candles[k:k + step])
            k += step
            step = step % 4 + 1
    elif mode == "recalc":
        ind = cls(candles=candles, **kw)
        ind.calculate()
        ind.recalculate()
        ind.calculate_index(len(candles) // 2)
        ind.calculate()
    else:
        raise ValueError(mode)
    return ind


def bind_env(spec, ind, candles):
    env = {"c": candles, "self": ind, "N": getattr(ind, "_output_name", None) or ind.name, "xeps": 0}
    extra = getattr(ind, "_analysis_kwargs", {}) or {}
    for pname in spec.params:
        if pname in spec.ctor.get("skip", ()):
            continue
        if hasattr(ind, pname):
            env[pname] = getattr(ind, pname)
        elif pname in extra:
            env[pname] = extra[pname]
        elif pname == "analysis":
            env[pname] = ind._analysis_method
    # ghost start indices of the inputs: first candle that carries the input
    for xname, (start, kind) in spec.inputs.items():
        if xname in spec.lets and isinstance(start, str):
            X = C.ceval(spec.lets[xname], env)
            first = next((t for t in range(len(candles)) if C.rd_candle(candles[t], X) is not None), len(candles))
            env[start] = first
    for k, src in spec.lets.items():
        env[k] = C.ceval(src, env)
    return env


def inputs_well_formed(spec, env, candles):
    for xname, (start, kind) in spec.inputs.items():
        X, s = env[xname], env[start] if isinstance(start, str) else None
        for t, c in enumerate(candles):
            v = C.rd_candle(c, X)
            if t < s and v is not None:
                return False
            if t >= s and not C.is_num(v):
                return False
    return True


def check_prop(prop, tier, seed, focus=None):
    t0 = time.time()
    specs = load_specs()
    from oracles import ref_indicators as R

    thorough = tier == "thorough"
    rnd = random.Random(1000 + seed)
    kinds = ["random", "flat", "rising", "volatile_then_flat", "zerovol", "plateau", "gapping"] + (["falling", "sawtooth", "spiky", "small", "big"] if thorough else [])
    kinds = [k for k in kinds if k in R.STREAM_KINDS]
    n = 70 if thorough else 45
    failures, cases = [], []
    drawn = itertools.count()
    stats = {"runs": 0, "clause_instances": 0, "definite_true": 0, "uncertain": 0, "classes": 0, "skipped_pre": 0}
    for qual, spec in specs.items():
        labelled = [(lab, tup[0]) for lab, tup in spec.inv.items() if prop in (tup[1] if len(tup) > 1 and tup[1] else [])]
        mode = "batch"
        if not labelled and prop in SCHEDULE_PROPS and prop in spec.props:
            labelled = [(lab, tup[0]) for lab, tup in spec.inv.items()]
            mode = SCHEDULE_PROPS[prop]
        if not labelled:
            continue
        stats["classes"] += 1
        cls = import_class(qual)
        short = qual.rsplit(".", 1)[-1]
        for variant in spec.variants:
            if variant.get("mode"):
                continue
            for kw0 in param_grid(spec, variant, thorough, rnd):
                for kind in (kinds if thorough else rnd.sample(kinds, 3)):
                    k = next(drawn)
                    st = R.Stream(kind, n, seed * 1000 + k % 7)
                    candles = st.candles()
                    kw = inject(candles, kw0, spec, seed * 77 + k)
                    label_kw = {k: getattr(v, "__name__", v) for k, v in kw.items()}
                    case = f"{prop}:rt-contract:{short}:{json.dumps(label_kw, sort_keys=True)};{st.key()};{mode}"
                    if focus and not case.startswith(focus):
                        continue
                    # preconditions that do not need the instance (parameter ranges) are checked on the kwargs
                    penv = dict(kw, c=candles, xeps=0)
                    try:
                        pre_ok = all(C.verdict(src, penv) is True for src in spec.extra_pre.values() if "forall" not in src)
                    except Exception:
                        pre_ok = False
                    if not pre_ok:
                        stats["skipped_pre"] += 1
                        continue
                    inp = {"indicator": short, "class": qual, "kwargs": label_kw, "stream": st.desc(), "mode": mode,
                           "injected_input": [k for k, v in kw0.items() if isinstance(v, str) and v.startswith("@")]}
                    try:
                        # data-dependent preconditions (e.g. ROC: non-zero inputs) are evaluated on a probe instance
                        # over a copy of the inputs before anything is calculated
                        import copy as _copy

                        probe_c = _copy.deepcopy(candles)
                        probe = cls(candles=probe_c, **kw)
                        penv2 = bind_env(spec, probe, probe_c)
                        if not inputs_well_formed(spec, penv2, probe_c) or not all(C.verdict(src, penv2) is True for src in spec.extra_pre.values()):
                            stats["skipped_pre"] += 1
                            continue
                    except Exception as e:
                        cases.append(f"not evaluable: {short}: {type(e).__name__}: {e}")
                        continue
                    try:
                        ind = run_real(cls, kw, candles, mode)
                    except Exception as e:
                        if "C09" in spec.props and prop in ("C09",):
                            failures.append({"case": case, "function": qual + "._calculate_reading", "seed": seed,
                                             "detail": f"raised {type(e).__name__}: {e}", "input": inp})
                        continue
                    stats["runs"] += 1
                    cs = ind.candles
                    try:
                        env = bind_env(spec, ind, cs)
                        if not inputs_well_formed(spec, env, cs):
                            stats["skipped_pre"] += 1
                            continue
                        if not all(C.verdict(src, env) is True for src in spec.extra_pre.values()):
                            stats["skipped_pre"] += 1
                            continue
                    except Exception as e:
                        cases.append(f"not evaluable: {short}: {type(e).__name__}: {e}")
                        continue
                    if len(cases) < 6:
                        cases.append(case)
                    bad = None
                    for j in range(len(cs)):
                        env["j"] = j
                        for lab, src in labelled:
                            try:
                                v = C.verdict(src, env)
                            except Exception as e:
                                v = None
                                if len(cases) < 12:
                                    cases.append(f"clause not evaluable: {short}:{lab}: {type(e).__name__}: {e}")
                            stats["clause_instances"] += 1
                            if v is True:
                                stats["definite_true"] += 1
                            elif v is None:
                                stats["uncertain"] += 1
                            elif bad is None:
                                bad = (j, lab)
                        if bad:
                            break
                    if bad:
                        j, lab = bad
                        near = [[cs[t].open, cs[t].high, cs[t].low, cs[t].close, cs[t].volume] for t in range(max(0, j - 3), j + 1)]
                        inp.update({"first_failing_index": j, "clause": lab, "candles_near": near,
                                    "readings_at_index": {k: v for k, v in list(cs[j].indicators.items()) + list(cs[j].sub_indicators.items())}})
                        failures.append({"case": case, "function": qual + "._calculate_reading", "seed": seed,
                                         "detail": f"class invariant clause '{lab}' of {short} is false at candle {j} of a real {mode} run", "input": inp})
    bound = (f"tier={tier}: run-time check of the class invariants labelled {prop} on real runs: {stats['classes']} classes, "
             f"{stats['runs']} runs (mode {SCHEDULE_PROPS.get(prop, 'batch') if prop in SCHEDULE_PROPS else 'batch'}), streams {kinds} of {n} candles, "
             f"{stats['clause_instances']} clause instances of which {stats['definite_true']} definitely true and {stats['uncertain']} uncertain "
             f"(float noise / unspecified); {stats['skipped_pre']} parameter draws outside the contracts' preconditions skipped")
    return {"status": "ok", "checked": stats["runs"], "distinct": stats["runs"], "failures": failures, "cases": cases, "bound": bound,
            "stats": stats, "wall": round(time.time() - t0, 2)}


FUNC_TYPES = {"series", "name", "int", "int|None", "candle", "nat", "bool"}


def _func_inputs(contract, n, rnd, R, kind):
    """one random argument tuple for a function contract: a candle list with two injected reading columns (missing
    readings in the middle, ties on a coarse grid), names, lengths and indices (valid, negative, invalid, None)"""
    st = R.Stream(kind, n, rnd.randrange(10**6))
    candles = st.candles()
    grid = rnd.choice([1.0, 0.5, 0.01])
    for col in ("X", "Y"):
        start = rnd.choice([0, 0, 1, 3])
        x = 20.0
        for t, c in enumerate(candles):
            if t < start:
                continue
            x += rnd.choice([-2, -1, 0, 0, 1, 2]) * grid
            r = rnd.random()
            if r < 0.12:
                continue  # reading absent
            if r < 0.17:
                c.indicators[col] = None
                continue
            c.indicators[col] = round(x, 2) if rnd.random() < 0.9 else int(x)
    args = {}
    for pname, ty in contract.types.items():
        if ty == "series":
            args[pname] = candles
        elif ty == "name":
            args[pname] = rnd.choice(["X", "Y", "X", "close", "high"])
        elif ty == "candle":
            args[pname] = rnd.choice(candles) if candles else None
        elif ty == "bool":
            args[pname] = rnd.random() < 0.5
        elif ty in ("int", "int|None", "nat"):
            if pname in ("index", "start_index"):
                opts = [-1, 0, n - 1, -n, n // 2, -2, 1, n, -n - 1, n - 2]
            elif pname in ("length", "period", "lookback"):
                opts = [1, 2, 3, 4, 5, 10, n, n + 3]
            elif pname == "default":
                opts = [0, n - 1, -1]
            else:
                opts = [0, 1, 2, n]
            if ty == "int|None":
                opts = opts + [None, None]
            v = rnd.choice(opts)
            args[pname] = abs(v) if ty == "nat" and v is not None else v
    return st, candles, args


def check_functions(prop, tier, seed, focus=None, explicit=None):
    """the function contracts (movement / pattern / geometry / index helpers) evaluated on real calls"""
    import registry
    from oracles import ref_indicators as R

    reg = registry.load()
    rnd = random.Random(4242 + seed)
    thorough = tier == "thorough"
    per_fn = 400 if thorough else 120
    failures, cases = [], []
    stats = {"functions": 0, "calls": 0, "clause_instances": 0, "definite_true": 0, "uncertain": 0, "skipped_pre": 0}
    kinds = [k for k in ["random", "flat", "plateau", "rising", "gapping", "sawtooth"] if k in R.STREAM_KINDS]
    for q, contract in reg.contracts.items():
        if contract.assumed or prop not in contract.props or not contract.ensures and not contract.returns:
            continue
        if not set(contract.types.values()) <= FUNC_TYPES or "self" in contract.types and contract.types["self"] != "candle":
            continue
        if contract.ghost or any("old(" in e for e in contract.ensures.values()):
            continue
        mod, name = q.rsplit(".", 1)
        try:
            owner = import_class(mod)
        except Exception:
            continue
        stats["functions"] += 1
        evaluable = True
        for k in range(per_fn):
            n = rnd.choice([1, 2, 3, 5, 8, 12, 16, 30])
            st, candles, args = _func_inputs(contract, n, rnd, R, rnd.choice(kinds))
            case = f"{prop}:rt-contract:{q.replace('hexital.', '')}:{k}"
            if focus and not case.startswith(focus):
                continue
            env = dict(args)
            try:
                for lk, src in contract.lets.items():
                    env[lk] = C.ceval(src, env)
                pre = all(C.verdict(src, env) is True for src in contract.requires.values())
            except Exception as e:
                if evaluable and len(cases) < 20:
                    cases.append(f"contract not evaluable: {q}: {type(e).__name__}: {e}")
                evaluable = False
                break
            if not pre:
                stats["skipped_pre"] += 1
                continue
            shown = {kk: (f"<{len(v)} candles>" if isinstance(v, list) else ("<candle>" if hasattr(v, "indicators") else v)) for kk, v in args.items()}
            inp = {"function": q, "args": shown, "stream": st.desc(),
                   "columns": {c: [cc.indicators.get(c, "absent") for cc in candles] for c in ("X", "Y")} if n <= 16 else "see generator", "draw": k}
            try:
                if "self" in args:
                    selfv = args["self"]
                    attr = getattr(selfv, name)
                    result = attr() if callable(attr) else attr
                else:
                    result = getattr(owner, name)(**args)
            except Exception as e:
                failures.append({"case": case, "function": q, "seed": seed, "detail": f"raised {type(e).__name__}: {e}", "input": inp})
                continue
            stats["calls"] += 1
            env["result"] = result
            bad = None
            clauses = list(contract.ensures.items())
            if contract.returns:
                clauses.append(("returns", f"same(result, {contract.returns}) or result == ({contract.returns})"))
            for lab, src in clauses:
                try:
                    v = C.verdict(src, env)
                except Exception as e:
                    v = None
                    if len(cases) < 20:
                        cases.append(f"clause not evaluable: {q}:{lab}: {type(e).__name__}: {e}")
                stats["clause_instances"] += 1
                if v is True:
                    stats["definite_true"] += 1
                elif v is None:
                    stats["uncertain"] += 1
                elif bad is None:
                    bad = lab
            if bad:
                inp["result"] = result
                failures.append({"case": case, "function": q, "seed": seed,
                                 "detail": f"postcondition '{bad}' of {name} is false for a real call returning {result!r}", "input": inp})
    bound = (f"tier={tier}: run-time check of the function contracts labelled {prop}: {stats['functions']} functions, {stats['calls']} real calls "
             f"(lists of 1..30 candles, two injected reading columns with gaps and ties, valid / negative / invalid / default indices), "
             f"{stats['clause_instances']} postcondition instances of which {stats['definite_true']} definitely true, {stats['uncertain']} uncertain; "
             f"{stats['skipped_pre']} draws outside the preconditions skipped")
    return {"status": "ok", "checked": stats["calls"], "distinct": stats["calls"], "failures": failures, "cases": cases, "bound": bound, "stats": stats}


def check_explicit(data):
    """run the REAL class on a reproducer extracted from a counter-model (hexvc/replay.py) and evaluate every clause of
    its class invariant (and no-raise) on the result.  Attempt 0 uses the model's data wherever it is well-typed;
    further attempts keep the model's parameters, list length and input start and redraw the data (the ground query
    constrains only the positions it mentions: the rest of the model is arbitrary)."""
    if data.get("kind") == "function":
        # attempt 0: the model's data; then the model's arguments (length, index, list length) with redrawn columns
        last = None
        for attempt in range(8):
            d = data
            if attempt:
                rnd = random.Random(attempt)
                d = dict(data, columns={})
                grid = rnd.choice([1.0, 0.5])
                for col, vals in data["columns"].items():
                    x, out = 20.0, []
                    for _ in vals:
                        x += rnd.choice([-2, -1, 0, 0, 1, 2]) * grid
                        r = rnd.random()
                        out.append("absent" if r < 0.1 else (None if r < 0.15 else round(x, 2)))
                    d["columns"][col] = out
            r = _explicit_function(d)
            if r.get("failed"):
                r["attempt"] = attempt
                return r
            last = last or r
        return last
    last = None
    for attempt in range(6):
        r = _explicit_once(data, attempt)
        if r.get("failed"):
            r["attempt"] = attempt
            return r
        last = last or r
    return last


def _explicit_function(data):
    """a real call of a function under contract on the arguments reconstructed from a counter-model"""
    from datetime import datetime, timedelta

    import registry
    from hexital.core.candle import Candle

    reg = registry.load()
    contract = reg.contracts[data["function"]]
    mod, name = data["function"].rsplit(".", 1)
    owner = import_class(mod)
    t0 = datetime(2024, 1, 1)
    candles = []
    for k, (o, h, l, c, v) in enumerate(data["candles"]):
        if not (l > 0 and l <= o <= h and l <= c <= h and v >= 0):
            o = h = l = c = 1.0
            v = 0
        candles.append(Candle(open=o, high=h, low=l, close=c, volume=v, timestamp=t0 + timedelta(minutes=k)))
    for col, vals in data["columns"].items():
        for c, x in zip(candles, vals):
            if x == "absent":
                continue
            c.indicators[col] = None if isinstance(x, dict) else x
    args = {}
    for k, v in data["args"].items():
        if v == "@series":
            args[k] = candles
        elif isinstance(v, str) and v.startswith("@name:"):
            args[k] = v[6:]
        else:
            args[k] = v
    inp = {"function": data["function"], "args": {k: (f"<{len(v)} candles>" if isinstance(v, list) else v) for k, v in args.items()},
           "candles_ohlcv": data["candles"], "columns": data["columns"], "from": "counter-model of the refuted obligation"}
    env = dict(args)
    try:
        for lk, src in contract.lets.items():
            env[lk] = C.ceval(src, env)
        if not all(C.verdict(src, env) is True for src in contract.requires.values()):
            return {"status": "ok", "failed": False, "reason": "the reconstructed arguments are outside the contract's precondition", "input": inp}
    except Exception as e:
        return {"status": "ok", "failed": False, "reason": f"not evaluable: {type(e).__name__}: {e}", "input": inp}
    try:
        result = getattr(owner, name)(**args)
    except Exception as e:
        return {"status": "ok", "failed": True, "function": data["function"],
                "detail": f"{name} raised {type(e).__name__}: {e} on the arguments reconstructed from the counter-model", "input": inp}
    env["result"] = result
    inp["result"] = result
    for lab, src in contract.ensures.items():
        try:
            v = C.verdict(src, env)
        except Exception:
            v = None
        if v is False:
            return {"status": "ok", "failed": True, "function": data["function"],
                    "detail": f"postcondition '{lab}' of {name} is false for the real call on the arguments reconstructed from the counter-model (returned {result!r})",
                    "input": inp}
    return {"status": "ok", "failed": False, "reason": "the real call on the reconstructed arguments satisfies every postcondition", "input": inp}


def _explicit_once(data, attempt):
    from datetime import datetime, timedelta

    from hexital.core.candle import Candle

    specs = load_specs()
    spec = specs[data["class"]]
    cls = import_class(data["class"])
    rows = data["candles"]
    # repair positions the ground query left unconstrained: 0 < low <= open, close <= high, volume >= 0
    rnd = random.Random(attempt)
    fixed, px = [], 100.0
    for o, h, l, c, v in rows:
        ok = attempt == 0 and l > 0 and l <= o <= h and l <= c <= h and v >= 0 and all(abs(x) < 1e12 for x in (o, h, l, c, v))
        if not ok:
            o = px
            c = round(max(1.0, px + rnd.uniform(-3, 3)), 3)
            h = round(max(o, c) + rnd.uniform(0, 2), 3)
            l = round(max(0.5, min(o, c) - rnd.uniform(0, 2)), 3)
            v = rnd.choice([0, 5, 10, 20])
            px = c
        fixed.append([o, h, l, c, v])
    t0 = datetime(2024, 1, 1)
    candles = [Candle(open=o, high=h, low=l, close=c, volume=v, timestamp=t0 + timedelta(minutes=k)) for k, (o, h, l, c, v) in enumerate(fixed)]
    kw = {}
    for k, v in data["kwargs"].items():
        if v == "@explicit":
            col = data["inputs"][k]
            vals = list(col["values"])
            s0 = data.get("ghosts", {}).get("s")
            if s0 is None:
                s0 = next((t for t, x in enumerate(vals) if x is not None and x != {}), len(vals))
            boolean = "count_value" in spec.params
            walk = 50.0
            for t, c in enumerate(candles):
                x = vals[t]
                if t < s0:
                    continue
                well_typed = isinstance(x, bool) if boolean else C.is_num(x)
                if attempt > 0 or not well_typed or (not boolean and abs(x) > 1e12):
                    # repaired / redrawn: inputs are contiguous and of the declared kind from their first value on
                    walk = round(walk + rnd.uniform(-2, 2), 3)
                    x = (rnd.random() < 0.6) if boolean else walk
                if col["dotted"]:
                    c.indicators["inj"] = {"val": x, "other": 1.0}
                else:
                    c.indicators["X"] = x
            kw[k] = "inj.val" if col["dotted"] else "X"
        elif isinstance(v, str) and v.startswith("func:"):
            kw[k] = import_class(v[5:])
        else:
            kw[k] = v
    mode = data.get("mode", "batch")
    label_kw = {k: getattr(v, "__name__", v) for k, v in kw.items()}
    inp = {"class": data["class"], "kwargs": label_kw, "mode": mode, "candles_ohlcv": fixed,
           "input_column": {k: v["values"] for k, v in data.get("inputs", {}).items()}, "from": "counter-model of the refuted obligation"}
    short = data["class"].rsplit(".", 1)[-1]
    try:
        import copy as _copy

        probe_c = _copy.deepcopy(candles)
        probe = cls(candles=probe_c, **kw)
        penv = bind_env(spec, probe, probe_c)
        if not inputs_well_formed(spec, penv, probe_c) or not all(C.verdict(src, penv) is True for src in spec.extra_pre.values()):
            return {"status": "ok", "failed": False, "reason": "the repaired counter-model is outside the contract's precondition", "input": inp}
    except Exception as e:
        return {"status": "ok", "failed": False, "reason": f"not evaluable: {type(e).__name__}: {e}", "input": inp}
    try:
        ind = run_real(cls, kw, candles, mode)
    except Exception as e:
        return {"status": "ok", "failed": True, "function": data["class"] + "._calculate_reading",
                "detail": f"{short} raised {type(e).__name__}: {e} on the input reconstructed from the counter-model", "input": inp}
    cs = ind.candles
    env = bind_env(spec, ind, cs)
    for j in range(len(cs)):
        env["j"] = j
        for lab, tup in spec.inv.items():
            try:
                v = C.verdict(tup[0], env)
            except Exception:
                v = None
            if v is False:
                inp["first_failing_index"] = j
                inp["clause"] = lab
                inp["readings_at_index"] = {k: v for k, v in list(cs[j].indicators.items()) + list(cs[j].sub_indicators.items())}
                return {"status": "ok", "failed": True, "function": data["class"] + "._calculate_reading",
                        "detail": f"class invariant clause '{lab}' of {short} is false at candle {j} of a real {mode} run on the input reconstructed from the counter-model",
                        "input": inp}
    return {"status": "ok", "failed": False, "reason": "the real run on the reconstructed input satisfies every clause", "input": inp}


def main():
    import argparse

    ap = argparse.ArgumentParser()
    ap.add_argument("prop")
    ap.add_argument("--tier", default="quick")
    ap.add_argument("--seed", type=int, default=0)
    ap.add_argument("--focus")
    ap.add_argument("--explicit", help="JSON file with a reproducer extracted from a counter-model")
    a = ap.parse_args()
    if a.explicit:
        try:
            r = check_explicit(json.load(open(a.explicit)))
        except Exception:
            r = {"status": "error", "failed": False, "stderr": traceback.format_exc()[-3000:]}
        print(json.dumps(r, default=str))
        return
    try:
        r = check_prop(a.prop, a.tier, a.seed, a.focus)
        f = check_functions(a.prop, a.tier, a.seed, a.focus)
        if f["stats"]["functions"]:
            r["failures"] = r["failures"] + f["failures"]
            r["checked"] += f["checked"]
            r["distinct"] += f["distinct"]
            r["cases"] = r["cases"][:4] + f["cases"][:8]
            r["bound"] = (r["bound"] + " || " if r["stats"]["runs"] else "") + f["bound"]
            r["stats"]["functions"] = f["stats"]
            r["stats"]["runs"] += f["stats"]["calls"]
    except Exception:
        r = {"status": "error", "stderr": traceback.format_exc()[-3000:], "checked": 0, "failures": []}
    print(json.dumps(r, default=str))


if __name__ == "__main__":
    main()
