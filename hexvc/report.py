"""Property-level driver: cone selection, discharge, known findings, replay, stand-ins, evidence."""
from __future__ import annotations

import hashlib
import json
import os
import subprocess
import sys
import time

ROOT = os.path.dirname(os.path.dirname(os.path.abspath(__file__)))
VENV_PY = "/venv/bin/python"
REPO = os.environ.get("HEXITAL_REPO", "/repo")


def load_known():
    path = os.path.join(ROOT, "known_findings.jsonl")
    out = []
    if os.path.exists(path):
        for line in open(path):
            line = line.strip()
            if line and not line.startswith("#"):
                out.append(json.loads(line))
    return out


def ob_key(o):
    return f"{o['id']}"


def matches_known(o, prop, known):
    for k in known:
        if k.get("status") != "known":
            continue
        if k.get("property") != prop and prop not in k.get("also", []):
            continue
        pat = k.get("obligation")
        if pat and (o["id"] == pat or o["id"].startswith(pat)):
            return k
    return None


def run_oracle(prop, tier, seed, focus=None, timeout=1500):
    """bounded stand-in / replay search: executable contracts on the REAL code under the test interpreter"""
    path = os.path.join(ROOT, "oracles", "run.py")
    if not os.path.exists(path):
        return None
    cmd = [VENV_PY, path, prop, "--tier", tier, "--seed", str(seed)]
    if focus:
        cmd += ["--focus", focus]
    env = dict(os.environ)
    env["PYTHONPATH"] = REPO + os.pathsep + ROOT
    env.setdefault("TZ", "UTC")
    try:
        out = subprocess.run(cmd, capture_output=True, text=True, timeout=timeout, env=env, cwd=ROOT)
    except subprocess.TimeoutExpired:
        return {"status": "timeout", "checked": 0, "failures": [], "cases": []}
    line = out.stdout.strip().splitlines()[-1] if out.stdout.strip() else ""
    try:
        return json.loads(line)
    except Exception:
        return {"status": "error", "stderr": out.stderr[-3000:], "stdout": out.stdout[-2000:], "checked": 0, "failures": []}


def run_rtcheck(prop, tier, seed, focus=None, timeout=1500):
    """second bounded stand-in: the proved class invariants evaluated on real runs (hexvc/rtcheck.py)"""
    cmd = [sys.executable, "-W", "ignore", os.path.join(ROOT, "hexvc", "rtcheck.py"), prop, "--tier", tier, "--seed", str(seed)]
    if focus:
        cmd += ["--focus", focus]
    env = dict(os.environ)
    env["HEXITAL_REPO"] = REPO
    env.setdefault("TZ", "UTC")
    try:
        out = subprocess.run(cmd, capture_output=True, text=True, timeout=timeout, env=env, cwd=ROOT)
    except subprocess.TimeoutExpired:
        return {"status": "timeout", "checked": 0, "failures": [], "cases": [], "bound": "run-time contract check timed out"}
    line = out.stdout.strip().splitlines()[-1] if out.stdout.strip() else ""
    try:
        return json.loads(line)
    except Exception:
        return {"status": "error", "stderr": out.stderr[-3000:], "stdout": out.stdout[-2000:], "checked": 0, "failures": []}


def replay_model(prop, o, rp):
    """run the reproducer reconstructed from the counter-model of a refuted obligation on the real code"""
    xp = rp[:-5] + ".input.json"
    json.dump(o["concrete"], open(xp, "w"))
    r = run_explicit(xp)
    if r and r.get("failed"):
        return {"case": f"{prop}:model-replay:{o['id']}", "explicit": os.path.relpath(xp, ROOT), "function": r.get("function"),
                "detail": r.get("detail"), "input": r.get("input"), "seed": 0}
    o["replay_note"] = (r or {}).get("reason") or (r or {}).get("stderr", "")[-300:]
    return None


def run_explicit(path, timeout=300):
    cmd = [sys.executable, "-W", "ignore", os.path.join(ROOT, "hexvc", "rtcheck.py"), "X", "--explicit", path if os.path.isabs(path) else os.path.join(ROOT, path)]
    env = dict(os.environ)
    env["HEXITAL_REPO"] = REPO
    env.setdefault("TZ", "UTC")
    try:
        out = subprocess.run(cmd, capture_output=True, text=True, timeout=timeout, env=env, cwd=ROOT)
        return json.loads(out.stdout.strip().splitlines()[-1])
    except Exception as e:
        return {"status": "error", "failed": False, "stderr": f"{type(e).__name__}: {e}"}


def run_bounded(prop, tier, seed, focus=None):
    """both bounded stand-ins merged into one record (reference oracles + run-time contract check)"""
    if focus and ":rt-contract:" in focus:
        return run_rtcheck(prop, tier, seed, focus)
    oracle = run_oracle(prop, tier, seed, focus)
    if focus:
        return oracle
    rt = run_rtcheck(prop, tier, seed)
    if oracle is None:
        return rt
    if rt.get("status") == "error":
        oracle["status"] = "error" if oracle.get("status") == "ok" else oracle.get("status")
        oracle["stderr"] = (oracle.get("stderr") or "") + "\nrtcheck: " + str(rt.get("stderr"))
        return oracle
    if rt.get("stats", {}).get("runs"):
        oracle["failures"] = list(oracle.get("failures", [])) + list(rt.get("failures", []))
        oracle["checked"] = int(oracle.get("checked") or 0) + int(rt.get("checked") or 0)
        oracle["distinct"] = int(oracle.get("distinct") or 0) + int(rt.get("distinct") or 0)
        oracle["bound"] = str(oracle.get("bound")) + " || " + str(rt.get("bound"))
        oracle["cases"] = list(oracle.get("cases", []))[:5] + list(rt.get("cases", []))[:3]
        oracle["rt_contract"] = rt.get("stats")
    return oracle


def run_property(prop, tier, replay, jobs):
    import registry
    from hexvc.cli import run_tasks, select_tasks
    from hexvc.source import Source

    t0 = time.time()
    seed = int(os.environ.get("VERIF_SEED", "0") or 0)
    if replay:
        return do_replay(prop, replay)
    reg = registry.load()
    if prop not in reg.properties:
        print(f"unknown property {prop}")
        return 2
    meta = reg.properties[prop]
    timeout_ms = 10000 if tier == "quick" else 60000
    items = select_tasks(reg, prop)
    done = {}
    results = []
    pending = list(items)
    while pending:
        rs = run_tasks(pending, timeout_ms, jobs)
        results.extend(rs)
        for it in pending:
            done[it] = True
        # callee closure: every function whose contract was used must have its own proof in the cone
        nxt = []
        for r in rs:
            for (_f, g, how) in r.get("edges", []):
                if how == "contract" and g in reg.func_tasks and ("func", g) not in done and ("func", g) not in nxt:
                    nxt.append(("func", g))
        pending = nxt
    known = load_known()
    obligations = []
    for r in results:
        for o in r["obligations"]:
            o["task"] = r["task"]
            obligations.append(o)
    n_ob = len(obligations)
    discharged = [o for o in obligations if o["status"] == "unsat"]
    refuted = [o for o in obligations if o["status"] == "sat"]
    undecided = [o for o in obligations if o["status"] not in ("sat", "unsat")]
    oor = [r for r in results if r.get("out_of_reach")]
    faults = [r for r in oor if str(r["out_of_reach"]).startswith(("engine-error", "vacuous"))]

    lines = []
    violations = []
    known_hit = {}
    for o in refuted:
        k = matches_known(o, prop, known)
        if k is not None:
            known_hit.setdefault(k["id"], (k, []))[1].append(o)
        else:
            violations.append(o)

    # bounded stand-in on the real code (never counted as proved)
    oracle = run_bounded(prop, tier, seed)
    oracle_fail = []
    if oracle is not None:
        for f in oracle.get("failures", []):
            k = None
            for kk in known:
                if kk.get("status") == "known" and (kk.get("property") == prop or prop in kk.get("also", [])) and kk.get("oracle_case") and f.get("case", "").startswith(kk["oracle_case"]):
                    k = kk
            if k is not None:
                known_hit.setdefault(k["id"], (k, []))[1].append({"id": "oracle:" + f.get("case", ""), "status": "sat"})
            else:
                oracle_fail.append(f)

    os.makedirs(os.path.join(ROOT, "replay", prop), exist_ok=True)
    exit_code = 0
    reported = set()
    replays_tried, replays_won = {}, set()
    for o in violations:
        key = o["id"]
        if key in reported:
            continue
        reported.add(key)
        rp = os.path.join(ROOT, "replay", prop, hashlib.sha1(key.encode()).hexdigest()[:12] + ".json")
        # 1. the verifier's own counter-model, reconstructed as a concrete input and run on the real code
        witness = None
        if o.get("concrete") and replays_tried.get(o.get("task"), 0) < 4 and o.get("task") not in replays_won:
            replays_tried[o.get("task")] = replays_tried.get(o.get("task"), 0) + 1
            w = replay_model(prop, o, rp)
            if w is not None:
                witness = w
                replays_won.add(o.get("task"))
        # 2. otherwise a failing input of the bounded search on the real code for the same function / class
        if witness is None and oracle is not None:
            fn = o["id"].split(":")[0]
            for f in oracle.get("failures", []):
                base = f.get("function") or ""
                if base.endswith("._calculate_reading"):
                    base = base.rsplit(".", 1)[0]
                if base and base in fn:
                    witness = f
                    break
        json.dump({"property": prop, "obligation": o, "found_by": "deductive", "witness": witness,
                   "solver_output": {"status": o["status"], "model": o.get("model"), "backend": o.get("backend")},
                   "rerun": f"./check {prop} --replay {os.path.relpath(rp, ROOT)}"}, open(rp, "w"), indent=1)
        tail = "" if witness else " no-failing-input-found"
        lines.append(f"VIOLATION property={prop} replay={os.path.relpath(rp, ROOT)}{tail}")
        print(f"  refuted obligation: {o['id']} (line {o.get('lineno')}) model={json.dumps(o.get('model', {}))[:300]}")
        exit_code = 1
    for f in oracle_fail:
        key = "oracle:" + f.get("case", "")
        if key in reported:
            continue
        reported.add(key)
        rp = os.path.join(ROOT, "replay", prop, hashlib.sha1(key.encode()).hexdigest()[:12] + ".json")
        json.dump({"property": prop, "found_by": "bounded", "witness": f,
                   "rerun": f"./check {prop} --replay {os.path.relpath(rp, ROOT)}"}, open(rp, "w"), indent=1)
        lines.append(f"VIOLATION property={prop} replay={os.path.relpath(rp, ROOT)}")
        print(f"  bounded stand-in failure: {f.get('case')}: {str(f.get('detail'))[:300]}")
        exit_code = 1
    for kid, (k, obs) in known_hit.items():
        print(f"KNOWN-FINDING: property={prop} {k['what']}")
    for ln in lines:
        print(ln)
    if faults and exit_code == 0:
        for r in faults:
            print(f"CHECKER-FAULT task={r['task']}: {str(r['out_of_reach'])[:500]}")
        exit_code = 3
    if oracle is not None and oracle.get("status") == "error" and exit_code == 0:
        print("CHECKER-FAULT oracle: " + str(oracle.get("stderr"))[-800:])
        exit_code = 3
    if n_ob == 0 and exit_code == 0:
        print(f"UNDECIDED property={prop}: no obligations were generated")
        exit_code = 2

    write_evidence(reg, prop, tier, seed, results, obligations, discharged, refuted, undecided, oor, known_hit,
                   oracle, time.time() - t0, len(violations) + len(oracle_fail))
    print(f"{prop}: tasks={len(results)} obligations={n_ob} discharged={len(discharged)} refuted={len(refuted)} "
          f"(known={sum(len(v[1]) for v in known_hit.values())}) undecided={len(undecided)} out_of_reach={len(oor)} "
          f"oracle={'-' if oracle is None else oracle.get('checked')} wall={time.time() - t0:.1f}s exit={exit_code}")
    return exit_code


def write_evidence(reg, prop, tier, seed, results, obligations, discharged, refuted, undecided, oor, known_hit, oracle, wall, nviol):
    meta = reg.properties[prop]
    by_backend = {}
    for o in discharged:
        by_backend[o.get("backend") or "z3"] = by_backend.get(o.get("backend") or "z3", 0) + 1
    slow = sorted(obligations, key=lambda o: -o.get("time", 0))[:5]
    funcs = []
    for r in results:
        d = r.get("describe") or {}
        funcs.append({"task": r["task"], "function": d.get("function"), "file": d.get("file"), "lines": d.get("lines"),
                      "sha256": d.get("sha256"), "paths": r.get("paths"), "variants": r.get("variants"),
                      "gen_s": r.get("gen_s"), "solve_s": r.get("solve_s"), "cached": bool(r.get("cached")),
                      "obligations": len(r["obligations"]),
                      "discharged": sum(1 for o in r["obligations"] if o["status"] == "unsat"),
                      "out_of_reach": r.get("out_of_reach")})
    samples = []
    for o in obligations[:: max(1, len(obligations) // 6)][:6]:
        samples.append({"obligation": o["id"], "line": o.get("lineno"), "verdict": o["status"], "backend": o.get("backend"), "time_s": o.get("time")})
    assumptions = sorted(set(a for r in results for a in r.get("assumptions", [])) | set(meta.get("assumptions", [])))
    n_known = sum(1 for v in known_hit.values() for o in v[1] if not str(o.get("id", "")).startswith("oracle:"))
    all_proved = len(obligations) > 0 and len(discharged) + n_known == len(obligations) and not oor
    level = meta.get("level", "proof") if all_proved else "other"
    cov = {
        "obligations": len(obligations),
        "discharged": len(discharged),
        "refuted": len(refuted),
        "refuted_listed_as_known_findings": n_known,
        "undecided": [{"id": o["id"], "status": o["status"], "reason": o.get("reason")} for o in undecided][:50],
        "checker_cmd": f"./check {prop} --tier {tier}",
        "trusted_base": reg.trusted_base,
        "functions": funcs,
        "by_backend": by_backend,
        "solver_s": round(sum(o.get("time", 0) for o in obligations), 3),
        "generation_s": round(sum(r.get("gen_s", 0) for r in results), 3),
        "slowest": [{"id": o["id"], "time_s": o.get("time")} for o in slow],
        "out_of_reach": [{"task": r["task"], "reason": str(r["out_of_reach"])[:300]} for r in oor],
        "known_findings": [{"id": k["id"], "what": k["what"], "obligations": [o["id"] for o in obs][:10]} for k, obs in known_hit.values()],
        "samples": samples,
        "explanation": meta.get("explanation", ""),
        "contracts_assumed_not_proved": sorted(reg.assumed_contracts),
    }
    if oracle is not None:
        cov["bounded"] = {
            "tool": "reference oracles on the real code under /venv/bin/python + run-time evaluation of the proved class invariants on real runs (hexvc/rtcheck.py, tooling interpreter) - never counted as proved",
            "rt_contract": oracle.get("rt_contract"),
            "status": oracle.get("status"),
            "evaluations": oracle.get("checked"),
            "bound": oracle.get("bound"),
            "failures": len(oracle.get("failures", [])),
            "cases": oracle.get("cases", [])[:8],
        }
        cov["evaluations"] = int(oracle.get("checked") or 0) + len(obligations)
        cov["distinct_nontrivial"] = int(oracle.get("distinct") or 0) + len(obligations)
        cov["rule"] = "obligations: one per assertion per path, distinct by id+path digest; bounded cases: distinct (generator, seed, parameters) tuples whose stream exercises warm-up and post warm-up"
    else:
        cov["evaluations"] = len(obligations)
        cov["distinct_nontrivial"] = len(set(o["id"] + (o.get("path") or "") for o in obligations))
    ev = {
        "property_id": prop,
        "tier": tier if tier in ("quick", "thorough") else "quick",
        "seed": seed,
        "level": level,
        "coverage": cov,
        "assumptions": assumptions,
        "wall_s": round(wall, 2),
        "violations": nviol,
    }
    os.makedirs(os.path.join(ROOT, "evidence"), exist_ok=True)
    json.dump(ev, open(os.path.join(ROOT, "evidence", f"{prop}.json"), "w"), indent=1)


def do_replay(prop, path):
    p = path if os.path.isabs(path) else os.path.join(ROOT, path)
    d = json.load(open(p))
    print(json.dumps(d, indent=1)[:4000])
    w = d.get("witness")
    if w and w.get("explicit"):
        r = run_explicit(w["explicit"])
        print(json.dumps({k: v for k, v in (r or {}).items() if k != "input"}, indent=1))
        if r and r.get("failed"):
            print(f"VIOLATION property={prop} replay={path}")
            return 1
        print("replay: the recorded input no longer fails on the current tree")
        return 0
    if w and w.get("case"):
        r = run_bounded(prop, "quick", int(w.get("seed", 0)), focus=w["case"])
        if r and r.get("failures"):
            print(f"VIOLATION property={prop} replay={path}")
            return 1
        print("replay: the recorded input no longer fails on the current tree")
        return 0
    print("replay: no concrete input recorded (deductive refutation only); re-run the check to re-derive it")
    return 0
