"""Symbolic value model (DESIGN.md section 3.2).

Python-side typed wrappers around z3 terms.  Shapes are concrete, contents symbolic.
  int    -> SInt   (z3 Int, exact)
  float  -> SFloat (z3 Real: floats are treated as mathematical reals, assumption A1)
  bool   -> SBool
  reading-> SV     (z3 datatype V = vnone | vbool | vnum(real, is_float) | vdct(non_empty))
  number of unknown int/float kind -> SNum (real term + is_float flag)
  str    -> python str, or Tmpl (template over parameter atoms)
"""
from __future__ import annotations

import z3

# --------------------------------------------------------------------------- sorts
_V = z3.Datatype("V")
_V.declare("vnone")
_V.declare("vbool", ("bv", z3.BoolSort()))
_V.declare("vnum", ("nv", z3.RealSort()), ("isf", z3.BoolSort()))
_V.declare("vdct", ("ne", z3.BoolSort()))
V = _V.create()

rnd = z3.Function("rnd", z3.RealSort(), z3.IntSort(), z3.RealSort())  # round(x, k)
hulp = z3.Function("hulp", z3.IntSort(), z3.RealSort())  # half ulp of k decimals: 10**-k / 2
sqrtf = z3.Function("sqrtf", z3.RealSort(), z3.RealSort())
powf = z3.Function("powf", z3.RealSort(), z3.IntSort(), z3.RealSort())


POW_FACTS = []  # definitional facts about powf applications (base > 0 -> power > 0; exponent 0 -> 1)


class Unsupported(Exception):
    pass


class SInt:
    __slots__ = ("t",)

    def __init__(self, t):
        self.t = t

    def __repr__(self):
        return f"SInt({self.t})"


class SFloat:
    __slots__ = ("t",)

    def __init__(self, t):
        self.t = t

    def __repr__(self):
        return f"SFloat({self.t})"


class SBool:
    __slots__ = ("t",)

    def __init__(self, t):
        self.t = t

    def __repr__(self):
        return f"SBool({self.t})"


class SNum:
    __slots__ = ("t", "isf")

    def __init__(self, t, isf):
        self.t = t
        self.isf = isf

    def __repr__(self):
        return f"SNum({self.t},{self.isf})"


class SV:
    __slots__ = ("t",)

    def __init__(self, t):
        self.t = t

    def __repr__(self):
        return f"SV({self.t})"


class SOpt:
    """Optional[T]: None when `none` holds, else the typed value v"""

    __slots__ = ("none", "v")

    def __init__(self, none, v):
        self.none = none
        self.v = v

    def __repr__(self):
        return f"SOpt({self.none},{self.v!r})"


def mk_opt(none, v):
    n = z3.simplify(none) if not isinstance(none, bool) else none
    if isinstance(n, bool):
        return None if n else v
    if z3.is_true(n):
        return None
    if z3.is_false(n):
        return v
    if v is None:
        return None
    if isinstance(v, SOpt):
        return SOpt(z3.Or(n, v.none), v.v)
    return SOpt(n, v)


class Atom:
    """an opaque string piece: a formatted parameter or a user supplied name"""

    __slots__ = ("name", "kind", "term")

    def __init__(self, name, kind="str", term=None):
        self.name = name
        self.kind = kind  # 'int' (decimal digits), 'str' (dot-free name)
        self.term = term  # for kind 'int': the integer term that was formatted (L5: int(str(k)) == k)

    def __repr__(self):
        return "{" + self.name + "}"

    def __eq__(self, o):
        return isinstance(o, Atom) and o.name == self.name

    def __hash__(self):
        return hash(("Atom", self.name))


class Tmpl:
    """string template: tuple of literal strings and Atoms, adjacent literals merged"""

    __slots__ = ("parts",)

    def __init__(self, parts):
        out = []
        for p in parts:
            if isinstance(p, Tmpl):
                ps = p.parts
            else:
                ps = (p,)
            for q in ps:
                if isinstance(q, str):
                    if q == "":
                        continue
                    if out and isinstance(out[-1], str):
                        out[-1] = out[-1] + q
                    else:
                        out.append(q)
                else:
                    out.append(q)
        self.parts = tuple(out)

    def __repr__(self):
        return "T'" + "".join(p if isinstance(p, str) else repr(p) for p in self.parts) + "'"

    def __eq__(self, o):
        return isinstance(o, Tmpl) and o.parts == self.parts

    def __hash__(self):
        return hash(("Tmpl", self.parts))

    def literal(self):
        return "".join(p for p in self.parts if isinstance(p, str))

    def has_atoms(self):
        return any(isinstance(p, Atom) for p in self.parts)


def mkstr(parts):
    t = Tmpl(parts)
    if not t.has_atoms():
        return t.literal()
    return t


def str_parts(s):
    return (s,) if isinstance(s, str) else s.parts


def str_contains_dot(s):
    return any(isinstance(p, str) and "." in p for p in str_parts(s))


def str_split_dot(s):
    """split on '.'; atoms are dot-free by construction (names are sanitised; ints have no dot)"""
    out = [[]]
    for p in str_parts(s):
        if isinstance(p, str):
            bits = p.split(".")
            out[-1].append(bits[0])
            for b in bits[1:]:
                out.append([b])
        else:
            out[-1].append(p)
    return [mkstr(x) for x in out]


def str_definitely_distinct(a, b):
    """True only when a != b for every instantiation of the atoms (conservative)"""
    if a == b:
        return False
    pa, pb = str_parts(a), str_parts(b)
    if not any(isinstance(p, Atom) for p in pa + pb):
        return True
    # strip the common leading and trailing parts: a = P + ra + Q, b = P + rb + Q  =>  a == b iff ra == rb
    la_, lb_ = list(pa), list(pb)
    while la_ and lb_ and la_[0] == lb_[0] and isinstance(la_[0], Atom):
        la_.pop(0); lb_.pop(0)
    while la_ and lb_ and la_[0] == lb_[0]:
        la_.pop(0); lb_.pop(0)
    while la_ and lb_ and la_[-1] == lb_[-1]:
        la_.pop(); lb_.pop()
    if (la_ != list(pa) or lb_ != list(pb)) and not any(isinstance(p, Atom) for p in la_ + lb_):
        return "".join(la_) != "".join(lb_)
    # same atom skeleton and same leading literal, different trailing literals
    ska = [p for p in pa if isinstance(p, Atom)]
    skb = [p for p in pb if isinstance(p, Atom)]
    # literal prefix mismatch: neither literal prefix is a prefix of the other
    la = pa[0] if pa and isinstance(pa[0], str) else ""
    lb = pb[0] if pb and isinstance(pb[0], str) else ""
    n = min(len(la), len(lb))
    if la[:n] != lb[:n]:
        return True
    if ska == skb and len(ska) == 1 and la == lb:
        ia = [i for i, p in enumerate(pa) if isinstance(p, Atom)][0]
        ib = [i for i, p in enumerate(pb) if isinstance(p, Atom)][0]
        ta = "".join(p for p in pa[ia + 1 :])
        tb = "".join(p for p in pb[ib + 1 :])
        if ta != tb:
            return True
    # a literal string vs a template: literal must match the template's literal prefix
    if not ska and skb:
        if not a.startswith(lb) if isinstance(a, str) else False:
            return True
        # integer atoms format as digits (optionally a leading '-'): a literal with no digit
        # after the prefix cannot match
        if isinstance(a, str) and all(k.kind == "int" for k in skb):
            rest = a[len(lb) :]
            if not any(ch.isdigit() for ch in rest):
                return True
    if not skb and ska:
        return str_definitely_distinct(b, a)
    return False


def str_has_own_prefix(key, owner):
    """key is `owner` itself or `owner` followed by a literal starting with '_' (for every instantiation)"""
    if key == owner:
        return True
    pk, po = list(str_parts(key)), list(str_parts(owner))
    # the owner's parts must be a prefix of the key's parts (a trailing literal of the owner may continue)
    if len(pk) < len(po):
        return False
    for i, part in enumerate(po):
        if i == len(po) - 1 and isinstance(part, str):
            if not (isinstance(pk[i], str) and pk[i].startswith(part)):
                return False
            rest = pk[i][len(part):]
            tail = [rest] + pk[i + 1:] if rest else pk[i + 1:]
            return bool(tail) and isinstance(tail[0], str) and tail[0].startswith("_")
        if pk[i] != part:
            return False
    tail = pk[len(po):]
    return bool(tail) and isinstance(tail[0], str) and tail[0].startswith("_")


class Ref:
    __slots__ = ("oid",)

    def __init__(self, oid):
        self.oid = oid

    def __repr__(self):
        return f"Ref({self.oid})"

    def __eq__(self, o):
        return isinstance(o, Ref) and o.oid == self.oid

    def __hash__(self):
        return hash(("Ref", self.oid))


SYMS = (SInt, SFloat, SBool, SNum, SV, SOpt)


def is_sym(v):
    return isinstance(v, SYMS)


def zsimp(t):
    return z3.simplify(t)


def concretize(v):
    """turn a symbolic wrapper with a literal term into the python constant"""
    if isinstance(v, SInt):
        s = zsimp(v.t)
        if z3.is_int_value(s):
            return s.as_long()
        return SInt(s)
    if isinstance(v, SBool):
        s = zsimp(v.t)
        if z3.is_true(s):
            return True
        if z3.is_false(s):
            return False
        return SBool(s)
    if isinstance(v, SOpt):
        return mk_opt(v.none, concretize(v.v))
    return v


def fval(x):
    """python float -> exact decimal rational as written"""
    return z3.RealVal(repr(float(x)))


def to_int_term(v):
    if isinstance(v, bool):
        return z3.IntVal(int(v))
    if isinstance(v, int):
        return z3.IntVal(v)
    if isinstance(v, SInt):
        return v.t
    if isinstance(v, SBool):
        return z3.If(v.t, z3.IntVal(1), z3.IntVal(0))
    if z3.is_expr(v) and v.sort() == z3.IntSort():
        return v
    if isinstance(v, SOpt):
        return to_int_term(v.v)
    raise Unsupported(f"int term of {v!r}")


def to_real_term(v):
    if isinstance(v, bool):
        return z3.RealVal(int(v))
    if isinstance(v, int):
        return z3.RealVal(v)
    if isinstance(v, float):
        return fval(v)
    if isinstance(v, SInt):
        return z3.ToReal(v.t)
    if isinstance(v, (SFloat, SNum)):
        return v.t
    if isinstance(v, SBool):
        return z3.If(v.t, z3.RealVal(1), z3.RealVal(0))
    if isinstance(v, SV):
        return z3.If(V.is_vbool(v.t), z3.If(V.bv(v.t), z3.RealVal(1), z3.RealVal(0)), V.nv(v.t))
    if z3.is_expr(v) and v.sort() == z3.IntSort():
        return z3.ToReal(v)
    if z3.is_expr(v) and v.sort() == z3.RealSort():
        return v
    if isinstance(v, SOpt):
        return to_real_term(v.v)
    raise Unsupported(f"real term of {v!r}")


def to_bool_term(v):
    if isinstance(v, bool):
        return z3.BoolVal(v)
    if isinstance(v, SBool):
        return v.t
    raise Unsupported(f"bool term of {v!r}")


def isfloat_term(v):
    if isinstance(v, (bool, int, SInt, SBool)):
        return z3.BoolVal(False)
    if isinstance(v, (float, SFloat)):
        return z3.BoolVal(True)
    if isinstance(v, SNum):
        return v.isf if not isinstance(v.isf, bool) else z3.BoolVal(v.isf)
    if isinstance(v, SV):
        return z3.And(V.is_vnum(v.t), V.isf(v.t))
    if isinstance(v, SOpt):
        return z3.And(z3.Not(v.none), isfloat_term(v.v))
    raise Unsupported(f"isfloat of {v!r}")


def to_V(v, heap=None):
    if v is None:
        return V.vnone
    if isinstance(v, bool):
        return V.vbool(z3.BoolVal(v))
    if isinstance(v, SBool):
        return V.vbool(v.t)
    if isinstance(v, (int, float, SInt, SFloat, SNum)):
        return V.vnum(to_real_term(v), isfloat_term(v))
    if isinstance(v, SV):
        return v.t
    if isinstance(v, SOpt):
        return z3.If(v.none, V.vnone, to_V(v.v, heap))
    if isinstance(v, Ref) and heap is not None:
        p = heap[v.oid]
        if type(p).__name__ == "DictP":
            return V.vdct(z3.BoolVal(len(p.items) > 0))
    raise Unsupported(f"to_V of {v!r}")


def is_numeric_static(v):
    return isinstance(v, (int, float, SInt, SFloat, SNum, SBool)) and not isinstance(v, str)


def num_class(v):
    if isinstance(v, bool) or isinstance(v, SBool):
        return "bool"
    if isinstance(v, (int, SInt)):
        return "int"
    if isinstance(v, (float, SFloat)):
        return "float"
    if isinstance(v, SNum):
        return "num"
    return None


def v_is_numlike(t):
    return z3.Or(V.is_vnum(t), V.is_vbool(t))


def from_V_term(t):
    """try to give a V term a static type after simplification"""
    s = zsimp(t)
    if z3.is_app(s) and s.decl().eq(V.vnone):
        return None
    if z3.is_app(s) and s.decl().eq(V.vbool):
        return concretize(SBool(s.arg(0)))
    if z3.is_app(s) and s.decl().eq(V.vnum):
        isf = zsimp(s.arg(1))
        if z3.is_true(isf):
            return SFloat(s.arg(0))
        return SNum(s.arg(0), isf)
    return SV(s)


def truthy_term(v, heap=None):
    """z3 Bool (or python bool) for python truthiness"""
    if v is None:
        return False
    if isinstance(v, bool):
        return v
    if isinstance(v, (int, float)):
        return v != 0
    if isinstance(v, str):
        return len(v) > 0
    if isinstance(v, Tmpl):
        return True
    if isinstance(v, SBool):
        return v.t
    if isinstance(v, SInt):
        return v.t != 0
    if isinstance(v, (SFloat, SNum)):
        return v.t != 0
    if isinstance(v, SOpt):
        return zand(znot(v.none), zbool(truthy_term(v.v, heap)))
    if isinstance(v, SV):
        t = v.t
        return z3.If(
            V.is_vnone(t),
            False,
            z3.If(V.is_vbool(t), V.bv(t), z3.If(V.is_vnum(t), V.nv(t) != 0, V.ne(t))),
        )
    if isinstance(v, Ref) and heap is not None:
        p = heap[v.oid]
        n = type(p).__name__
        if n == "ListP":
            return len(p.items) > 0
        if n == "DictP":
            return len(p.items) > 0
        if n == "SetP":
            return len(p.items) > 0
        return p.truthy() if hasattr(p, "truthy") else True
    if hasattr(v, "truthy"):
        return v.truthy()
    return True


def zbool(b):
    return z3.BoolVal(b) if isinstance(b, bool) else b


def zand(*xs):
    xs = [x for x in xs if not (isinstance(x, bool) and x)]
    if any(isinstance(x, bool) and not x for x in xs):
        return False
    if not xs:
        return True
    if len(xs) == 1:
        return xs[0]
    return z3.And(*xs)


def zor(*xs):
    xs = [x for x in xs if not (isinstance(x, bool) and not x)]
    if any(isinstance(x, bool) and x for x in xs):
        return True
    if not xs:
        return False
    if len(xs) == 1:
        return xs[0]
    return z3.Or(*xs)


def znot(x):
    if isinstance(x, bool):
        return not x
    return z3.Not(x)


def zimplies(a, b):
    if isinstance(a, bool):
        return b if a else True
    if isinstance(b, bool):
        return True if b else znot(a)
    return z3.Implies(a, b)


def zite(c, a, b):
    if isinstance(c, bool):
        return a if c else b
    return z3.If(c, a, b)


def wrap_bool(b):
    if isinstance(b, bool):
        return b
    return concretize(SBool(b))


# --------------------------------------------------------------------------- arithmetic


def _pyfloordiv(a, b):
    return z3.If(b > 0, a / b, (-a) / (-b))


def _trunc(x):
    return z3.If(x >= 0, z3.ToInt(x), -z3.ToInt(-x))


def num_coerce(v, need):
    """make an arithmetic operand static; SV operands must be numbers (else TypeError)"""
    if isinstance(v, SOpt):
        need(znot(v.none), "TypeError")
        return num_coerce(v.v, need)
    if isinstance(v, SV):
        need(v_is_numlike(v.t), "TypeError")
        return SNum(to_real_term(v), isfloat_term(v))
    if v is None or isinstance(v, (str, Tmpl, Ref)) or not is_numeric_static(v):
        if isinstance(v, (int, float)):
            return v
        need(False, "TypeError")
        raise PathDead()
    return v


class PathDead(Exception):
    """the current path cannot continue (an unconditional raise was turned into an obligation)"""


def binop(op, a, b, need):
    """op in + - * / // % ** ; need(cond, exc) requires cond for the operation not to raise"""
    a = num_coerce(a, need)
    b = num_coerce(b, need)
    if not is_sym(a) and not is_sym(b):
        try:
            if op == "+":
                return a + b
            if op == "-":
                return a - b
            if op == "*":
                return a * b
            if op == "/":
                if b == 0:
                    need(False, "ZeroDivisionError")
                    raise PathDead()
                return a / b
            if op == "//":
                if b == 0:
                    need(False, "ZeroDivisionError")
                    raise PathDead()
                return a // b
            if op == "%":
                if b == 0:
                    need(False, "ZeroDivisionError")
                    raise PathDead()
                return a % b
            if op == "**":
                return a**b
        except OverflowError:
            raise Unsupported("overflow in constant folding")
    inty = lambda x: isinstance(x, (bool, int, SInt, SBool))
    if inty(a) and inty(b) and op in "+-*//%" and op != "/":
        x, y = to_int_term(a), to_int_term(b)
        if op == "+":
            return concretize(SInt(x + y))
        if op == "-":
            return concretize(SInt(x - y))
        if op == "*":
            return concretize(SInt(x * y))
        if op == "//":
            need(y != 0, "ZeroDivisionError")
            return concretize(SInt(_pyfloordiv(x, y)))
        if op == "%":
            need(y != 0, "ZeroDivisionError")
            return concretize(SInt(x - y * _pyfloordiv(x, y)))
    x, y = to_real_term(a), to_real_term(b)
    fa, fb = isfloat_term(a), isfloat_term(b)
    isf = zsimp(z3.Or(fa, fb))

    def mk(t, isf_):
        if z3.is_true(isf_):
            return SFloat(t)
        return SNum(t, isf_)

    if op == "+":
        return mk(x + y, isf)
    if op == "-":
        return mk(x - y, isf)
    if op == "*":
        return mk(x * y, isf)
    if op == "/":
        need(y != 0, "ZeroDivisionError")
        q = x / y
        if not z3.is_rational_value(z3.simplify(y)):
            # sign facts about a quotient by a symbolic divisor (help the nonlinear solver)
            need(z3.And(z3.Implies(z3.And(x >= 0, y > 0), q >= 0), z3.Implies(z3.And(x <= 0, y > 0), q <= 0),
                        z3.Implies(z3.And(x > 0, y > 0), q > 0), z3.Implies(z3.And(x <= y, y > 0), q <= 1),
                        z3.Implies(z3.And(x >= y, y > 0), q >= 1)), "__assume__")
        return SFloat(q)
    if op == "//":
        need(y != 0, "ZeroDivisionError")
        # floor of the real quotient (python float floor division on exact values)
        return mk(z3.ToReal(z3.ToInt(x / y)), isf)
    if op == "%":
        need(y != 0, "ZeroDivisionError")
        return mk(x - y * z3.ToReal(z3.ToInt(x / y)), isf)
    if op == "**":
        if isinstance(b, int) and not isinstance(b, bool) and 0 <= b <= 4:
            t = z3.RealVal(1)
            for _ in range(b):
                t = t * x
            return mk(t, fa)
        if inty(b):
            app = powf(x, to_int_term(b))
            POW_FACTS.append(z3.Implies(x > 0, app > 0))
            POW_FACTS.append(z3.Implies(to_int_term(b) == 0, app == 1))
            return mk(app, fa)
        raise Unsupported("non-integer exponent")
    raise Unsupported(f"binop {op}")


def unop_neg(a, need):
    a = num_coerce(a, need)
    if not is_sym(a):
        return -a
    if isinstance(a, (SInt, SBool)):
        return concretize(SInt(-to_int_term(a)))
    if isinstance(a, SFloat):
        return SFloat(-a.t)
    return SNum(-a.t, a.isf)


def py_abs(a, need):
    a = num_coerce(a, need)
    if not is_sym(a):
        return abs(a)
    if isinstance(a, (SInt, SBool)):
        t = to_int_term(a)
        return SInt(z3.If(t >= 0, t, -t))
    if isinstance(a, SFloat):
        return SFloat(z3.If(a.t >= 0, a.t, -a.t))
    return SNum(z3.If(a.t >= 0, a.t, -a.t), a.isf)


def py_int(a, need):
    if isinstance(a, bool):
        return int(a)
    if isinstance(a, (int, float)):
        return int(a)
    if isinstance(a, (SInt,)):
        return a
    if isinstance(a, SBool):
        return SInt(to_int_term(a))
    if isinstance(a, SV):
        a = num_coerce(a, need)
    if isinstance(a, (SFloat, SNum)):
        return concretize(SInt(_trunc(a.t)))
    need(False, "TypeError")
    raise PathDead()


def py_float(a, need):
    if isinstance(a, (bool, int, float)):
        return float(a)
    if isinstance(a, SV):
        a = num_coerce(a, need)
    if isinstance(a, (SInt, SBool, SFloat, SNum)):
        return SFloat(to_real_term(a))
    need(False, "TypeError")
    raise PathDead()


def _both_int(a, b):
    inty = lambda x: isinstance(x, (bool, int, SInt, SBool))
    return inty(a) and inty(b)


def compare(op, a, b, need, heap=None):
    """returns python bool or z3 Bool"""
    if op in ("is", "is not"):
        r = _is(a, b)
        return znot(r) if op == "is not" else r
    if op in ("==", "!="):
        r = py_eq(a, b, heap)
        return znot(r) if op == "!=" else r
    # ordering
    if isinstance(a, (SV, SOpt)):
        a = num_coerce(a, need)
    if isinstance(b, (SV, SOpt)):
        b = num_coerce(b, need)
    if a is None or b is None or isinstance(a, Ref) or isinstance(b, Ref):
        need(False, "TypeError")
        raise PathDead()
    if isinstance(a, (str, Tmpl)) or isinstance(b, (str, Tmpl)):
        if isinstance(a, str) and isinstance(b, str):
            return {"<": a < b, "<=": a <= b, ">": a > b, ">=": a >= b}[op]
        raise Unsupported("string ordering")
    if hasattr(a, "cmp_term") or hasattr(b, "cmp_term"):
        x = a.cmp_term() if hasattr(a, "cmp_term") else None
        y = b.cmp_term() if hasattr(b, "cmp_term") else None
        if x is None or y is None:
            need(False, "TypeError")
            raise PathDead()
    elif not is_sym(a) and not is_sym(b):
        return {"<": a < b, "<=": a <= b, ">": a > b, ">=": a >= b}[op]
    elif _both_int(a, b):
        x, y = to_int_term(a), to_int_term(b)
    else:
        x, y = to_real_term(a), to_real_term(b)
    r = {"<": x < y, "<=": x <= y, ">": x > y, ">=": x >= y}[op]
    return r


def _is(a, b):
    # identity tests against None / True / False only
    if b is None:
        if a is None:
            return True
        if isinstance(a, SV):
            return V.is_vnone(a.t)
        if isinstance(a, SOpt):
            return a.none
        return False  # any other value (numbers, objects, datetimes) is not None
    if a is None:
        return _is(b, a)
    if isinstance(a, SOpt):
        return zand(znot(a.none), zbool(_is(a.v, b)))
    if isinstance(b, SOpt):
        return _is(b, a)
    if isinstance(b, bool):
        if isinstance(a, bool):
            return a is b
        if isinstance(a, SBool):
            return a.t if b else z3.Not(a.t)
        if isinstance(a, SV):
            return z3.And(V.is_vbool(a.t), V.bv(a.t) == z3.BoolVal(b))
        return False
    if isinstance(a, bool):
        return _is(b, a)
    if isinstance(a, Ref) and isinstance(b, Ref):
        return a.oid == b.oid
    if type(a).__name__ == "FuncVal" and type(b).__name__ == "FuncVal":
        return a.node is b.node
    raise Unsupported(f"identity test {a!r} is {b!r}")


def py_eq(a, b, heap=None):
    if a is None and b is None:
        return True
    if isinstance(a, SOpt) or isinstance(b, SOpt):
        if not isinstance(a, SOpt):
            a, b = b, a
        if b is None:
            return a.none
        if isinstance(b, SOpt):
            return zor(zand(a.none, b.none), zand(znot(a.none), znot(b.none), zbool(py_eq(a.v, b.v, heap))))
        return zand(znot(a.none), zbool(py_eq(a.v, b, heap)))
    if hasattr(a, "eq_term") and not isinstance(a, (str, Tmpl)):
        return a.eq_term(b)
    if hasattr(b, "eq_term") and not isinstance(b, (str, Tmpl)):
        return b.eq_term(a)
    if isinstance(a, (str, Tmpl)) and isinstance(b, (str, Tmpl)):
        if a == b:
            return True
        if str_definitely_distinct(a, b):
            return False
        raise Unsupported(f"undecided string equality {a!r} == {b!r}")
    if isinstance(a, (str, Tmpl)) or isinstance(b, (str, Tmpl)):
        if isinstance(a, SV) or isinstance(b, SV):
            return False  # V has no string constructor: readings are never strings
        return False
    if hasattr(a, "eq_term"):
        return a.eq_term(b)
    if hasattr(b, "eq_term"):
        return b.eq_term(a)
    if isinstance(a, SV) or isinstance(b, SV):
        if isinstance(b, SV) and not isinstance(a, SV):
            a, b = b, a
        t = a.t
        if b is None:
            return V.is_vnone(t)
        if isinstance(b, SV):
            u = b.t
            return z3.If(
                z3.And(v_is_numlike(t), v_is_numlike(u)),
                to_real_term(a) == to_real_term(b),
                t == u,
            )
        if is_numeric_static(b):
            return z3.And(v_is_numlike(t), to_real_term(a) == to_real_term(b))
        return False
    if a is None or b is None:
        return False
    if isinstance(a, Ref) or isinstance(b, Ref):
        if isinstance(a, Ref) and isinstance(b, Ref):
            if a.oid == b.oid:
                return True
            if heap is not None:
                pa, pb = heap[a.oid], heap[b.oid]
                if type(pa).__name__ == "ListP" and type(pb).__name__ == "ListP":
                    if len(pa.items) != len(pb.items):
                        return False
                    return zand(*[zbool(py_eq(x, y, heap)) for x, y in zip(pa.items, pb.items)]) if pa.items else True
                if type(pa).__name__ == "DictP" and type(pb).__name__ == "DictP" and all(isinstance(k, str) for k in list(pa.items) + list(pb.items)):
                    if set(pa.items) != set(pb.items):
                        return False
                    return zand(*[zbool(py_eq(pa.items[k], pb.items[k], heap)) for k in pa.items]) if pa.items else True
            raise Unsupported("object equality")
        return False
    if is_numeric_static(a) and is_numeric_static(b):
        if not is_sym(a) and not is_sym(b):
            return a == b
        if _both_int(a, b):
            return to_int_term(a) == to_int_term(b)
        return to_real_term(a) == to_real_term(b)
    if type(a).__name__ == "FuncVal" and type(b).__name__ == "FuncVal":
        return a.node is b.node  # a function object equals only itself
    if type(a).__name__ == "FuncVal" or type(b).__name__ == "FuncVal":
        return False
    raise Unsupported(f"equality {a!r} == {b!r}")


def py_isinstance(v, tname, heap=None):
    """tname in float,int,bool,dict,list,str,NoneType or a class name; returns bool / z3 Bool"""
    if isinstance(v, SOpt):
        return zand(znot(v.none), zbool(py_isinstance(v.v, tname, heap)))
    if tname == "float":
        if isinstance(v, (float, SFloat)):
            return True
        if isinstance(v, SNum):
            return v.isf
        if isinstance(v, SV):
            return z3.And(V.is_vnum(v.t), V.isf(v.t))
        return False
    if tname == "int":
        if isinstance(v, (bool, int, SInt, SBool)):
            return True
        if isinstance(v, SNum):
            return znot(v.isf)
        if isinstance(v, SV):
            return z3.Or(V.is_vbool(v.t), z3.And(V.is_vnum(v.t), z3.Not(V.isf(v.t))))
        return False
    if tname == "bool":
        if isinstance(v, (bool, SBool)):
            return True
        if isinstance(v, SV):
            return V.is_vbool(v.t)
        return False
    if tname == "str":
        return isinstance(v, (str, Tmpl))
    if tname == "dict":
        if isinstance(v, SV):
            return V.is_vdct(v.t)
        if isinstance(v, Ref) and heap is not None:
            return type(heap[v.oid]).__name__ == "DictP"
        return False
    if tname == "list":
        if isinstance(v, Ref) and heap is not None:
            return type(heap[v.oid]).__name__ in ("ListP",) or getattr(heap[v.oid], "is_list", False)
        return getattr(v, "is_list", False)
    # class names
    if isinstance(v, Ref) and heap is not None:
        p = heap[v.oid]
        cls = getattr(p, "cls", None)
        if cls is not None:
            return cls.issubclass_of(tname)
        return getattr(p, "pyclass", None) == tname
    return getattr(v, "pyclass", None) == tname
