"""Forward symbolic execution of the real function ASTs with path splitting
(DESIGN.md section 3.3-3.6).  Calls are modular when the callee has a contract, otherwise the
callee's real body is executed in place (small glue functions); loops over a concrete
sequence are unrolled, loops over a symbolic range are cut at the invariant of the sidecar.
"""
from __future__ import annotations

import ast
import hashlib

import z3

from . import values as vals
from .series import CANDLE_ATTRS, PRICE_ATTRS, CandleAt, RDictAt, SeriesP, SliceView
from .source import ClassInfo, ModuleInfo
from .state import DictP, ListP, ObjP, Obligation, QAssume, SetP, State, fresh_name
from .values import (
    PathDead,
    Ref,
    SBool,
    SFloat,
    SInt,
    SNum,
    SV,
    Tmpl,
    Atom,
    Unsupported,
    V,
    concretize,
    is_sym,
    mkstr,
    to_int_term,
    to_real_term,
    truthy_term,
    wrap_bool,
    zand,
    zbool,
    znot,
    zor,
)

MAX_DEPTH = 24


class FuncVal:
    def __init__(self, module, node, cls=None, closure=None, qualname=None):
        self.module = module
        self.node = node
        self.cls = cls
        self.closure = closure  # frame index of the defining frame (inner functions)
        self.qualname = qualname or (
            f"{cls.qualname}.{node.name}" if cls else f"{module.name}.{getattr(node, 'name', '<lambda>')}"
        )


class BoundMethod:
    def __init__(self, selfv, func):
        self.selfv = selfv
        self.func = func


class Builtin:
    def __init__(self, name, fn):
        self.name = name
        self.fn = fn  # fn(ex, st, args, kwargs, node) -> generator of (st, value)


class ClassVal:
    def __init__(self, cls):
        self.cls = cls


class ExtVal:
    """something from a library module that is modelled natively (math.sqrt, datetime, ...)"""

    def __init__(self, name):
        self.name = name


class GenVal:
    def __init__(self, node, level):
        self.node = node
        self.level = level


class TupleV(tuple):
    pass


class AList:
    """immutable abstract list: n elements, element k given by a python closure over a z3 Int term.
    keep(k) (optional) filters; `src` maps element k to the candle position it was read from."""

    is_list = True
    pyclass = "list"

    def __init__(self, n, elem, keep=None, span=None, nonempty=None):
        self.n = n
        self.elem = elem
        self.keep = keep
        self.span = span
        self.nonempty = nonempty

    def truthy(self):
        if self.keep is None:
            return self.n > 0
        if self.nonempty is None:
            raise Unsupported("truthiness of a filtered symbolic list")
        return self.nonempty


class Signal:
    NEXT = ("next",)
    BREAK = ("break",)
    CONTINUE = ("continue",)


class Ctx:
    """shared by all paths of one verification task"""

    def __init__(self, source, contracts=None, loops=None):
        self.source = source
        self.contracts = contracts or {}
        self.loops = loops or {}
        self.force_inline = set()
        self.obligations = []
        self.func = None  # qualname under verification
        self.props = []
        self.edges = set()
        self.cover_paths = 0
        self.allowed_raises = {}  # exc name -> True for the function under verification
        self.solver_timeout_ms = 2000
        self.notes = []
        self.feas_checks = 0
        self.site_counter = {}
        self.spec = None  # SpecEval, set by task runner
        self.natives = {}
        self.path_limit = 4000
        self.assumptions = set()

    def feasible(self, st):
        """is the path condition satisfiable together with the quantified hypotheses instantiated
        at the candle positions it mentions?  (unknown counts as feasible)"""
        from .solve import ground
        from .state import Obligation

        self.feas_checks += 1
        ob = Obligation(id="feasible", kind="cover", func=self.func, label="", pc=list(st.pc), goal=z3.BoolVal(False),
                        qassumes=list(st.qassumes), sums=list(st.inst_terms))
        try:
            hyps, _ = ground(ob, self, rounds=1)
        except Exception:
            hyps = list(st.pc)
        s = z3.Solver()
        s.set("rlimit", 2000000)
        s.set("timeout", 5000)
        for c in hyps:
            s.add(c)
        r = s.check()
        return r != z3.unsat

    def site(self, kind, label):
        k = (kind, label)
        self.site_counter[k] = self.site_counter.get(k, 0) + 1
        return self.site_counter[k]

    def oblige(self, st, kind, label, goal, node=None, note=None, props=None):
        if isinstance(goal, bool) and goal:
            return
        goal_t = zbool(goal)
        digest = hashlib.sha1(("|".join(st.trail)).encode()).hexdigest()[:8]
        lineno = getattr(node, "lineno", None)
        ob = Obligation(
            id=f"{self.func}:{kind}:{label}",
            kind=kind,
            func=self.func,
            label=label,
            lineno=lineno,
            pc=list(st.pc),
            goal=goal_t,
            props=list(props if props is not None else self.props),
            qassumes=list(st.qassumes),
            note=note,
            path=digest,
        )
        ob.sums = list(st.inst_terms)
        self.obligations.append(ob)


def _src(node):
    try:
        return ast.unparse(node)
    except Exception:
        return "<expr>"


class Exec:
    def __init__(self, ctx):
        self.ctx = ctx
        self.depth = 0
        from . import builtins_model

        self.builtins = builtins_model.make_builtins(self)

    # ------------------------------------------------------------------ helpers
    def need(self, st, cond, exc, node=None, label=None):
        """the operation raises `exc` unless cond; raises-never functions get an obligation"""
        if isinstance(cond, bool) and cond:
            return
        if exc == "__assume__":  # a definitional fact about the value just computed
            st.assume(cond)
            return
        lab = label or f"{exc}@{_src(node)[:60] if node is not None else ''}"
        self.ctx.oblige(st, f"noraise:{exc}", lab, cond, node)
        st.assume(cond)

    def needer(self, st, node):
        return lambda cond, exc: self.need(st, cond, exc, node)

    def branch(self, st, cond, tag):
        """yield (state, taken) for the feasible outcomes of a condition"""
        if isinstance(cond, bool):
            yield st, cond
            return
        c = z3.simplify(cond)
        if z3.is_true(c):
            yield st, True
            return
        if z3.is_false(c):
            yield st, False
            return
        # when only one outcome is feasible the ORIGINAL state object carries on (callers that hold a
        # reference to it - lazily evaluated comprehensions - must not be left with a dead state)
        t_st = st.fork()
        t_st.assume(c)
        f_st = st.fork()
        f_st.assume(z3.Not(c))
        t_ok = self.ctx.feasible(t_st)
        f_ok = self.ctx.feasible(f_st)
        if t_ok and not f_ok:
            st.assume(c)
            st.trail.append(f"{tag}:T")
            yield st, True
            return
        if f_ok and not t_ok:
            st.assume(z3.Not(c))
            st.trail.append(f"{tag}:F")
            yield st, False
            return
        if not t_ok and not f_ok:
            return
        st2 = st.fork()
        st.assume(c)
        st.trail.append(f"{tag}:T")
        st2.assume(z3.Not(c))
        st2.trail.append(f"{tag}:F")
        yield st, True
        yield st2, False

    def truthy(self, st, v):
        return truthy_term(v, st.heap)

    # ------------------------------------------------------------------ names
    def lookup_name(self, name, st):
        frame = st.frames[-1]
        if name in frame:
            return frame[name]
        lvl = frame.get("__closure__")
        while lvl is not None:
            f = st.frames[lvl]
            if name in f:
                return f[name]
            lvl = f.get("__closure__")
        module = frame["__module__"]
        r = self.ctx.source.lookup(module, name)
        if r is not None:
            return self.global_value(r, st)
        if name in self.builtins:
            return self.builtins[name]
        raise Unsupported(f"unknown name {name}")

    def global_value(self, r, st):
        if isinstance(r, ClassInfo):
            return ClassVal(r)
        if isinstance(r, ModuleInfo):
            return r
        if r[0] == "func":
            return FuncVal(r[1], r[2])
        if r[0] == "expr":
            # module level constant: evaluate in the module's own context
            st.frames.append({"__module__": r[1]})
            try:
                out = list(self.eval(r[2], st))
            finally:
                st.frames.pop()
            if len(out) != 1:
                raise Unsupported("forking module constant")
            return out[0][1]
        if r[0] == "ext":
            return ExtVal(f"{r[1]}.{r[2]}")
        if r[0] == "extmod":
            return ExtVal(r[1])
        raise Unsupported(f"global {r!r}")

    # ------------------------------------------------------------------ expressions
    def eval_many(self, nodes, st):
        if not nodes:
            yield st, []
            return
        for st1, v in self.eval(nodes[0], st):
            for st2, rest in self.eval_many(nodes[1:], st1):
                yield st2, [v] + rest

    def eval(self, node, st):
        m = getattr(self, "e_" + type(node).__name__, None)
        if m is None:
            raise Unsupported(f"expression {type(node).__name__}")
        return m(node, st)

    def e_Constant(self, node, st):
        yield st, node.value

    def e_Name(self, node, st):
        yield st, self.lookup_name(node.id, st)

    def e_JoinedStr(self, node, st):
        for st1, parts in self.eval_many([v.value if isinstance(v, ast.FormattedValue) else v for v in node.values], st):
            yield st1, mkstr([self.format_piece(p, st1) for p in parts])

    def format_piece(self, p, st):
        if isinstance(p, (str, Tmpl)):
            return p
        if isinstance(p, bool) or p is None:
            return str(p)
        if isinstance(p, int):
            return str(p)
        if isinstance(p, float):
            return repr(p)
        if isinstance(p, SInt):
            return Atom(f"int:{z3.simplify(p.t)}", "int", p.t)
        if isinstance(p, (SFloat, SNum)):
            return Atom(f"num:{z3.simplify(p.t)}", "num")
        if isinstance(p, Ref):
            pl = st.heap[p.oid]
            if isinstance(pl, ListP) and all(isinstance(x, str) for x in pl.items):
                return str(list(pl.items))
        raise Unsupported(f"formatting {p!r}")

    def e_Tuple(self, node, st):
        for st1, vs in self.eval_many(node.elts, st):
            yield st1, TupleV(vs)

    def e_List(self, node, st):
        for st1, vs in self.eval_many(node.elts, st):
            yield st1, st1.alloc(ListP(vs))

    def e_Set(self, node, st):
        for st1, vs in self.eval_many(node.elts, st):
            out = []
            for v in vs:
                if not any(self.key_same(v, o) for o in out):
                    out.append(v)
            yield st1, st1.alloc(SetP(out))

    def e_Dict(self, node, st):
        for st1, ks in self.eval_many([k for k in node.keys], st):
            for st2, vs in self.eval_many(node.values, st1):
                d = {}
                for k, v in zip(ks, vs):
                    d[self.hashkey(k)] = v
                yield st2, st2.alloc(DictP(d))

    def hashkey(self, k):
        if isinstance(k, (str, Tmpl, int, bool, TupleV)) or k is None:
            return k
        raise Unsupported(f"dict key {k!r}")

    def key_same(self, a, b):
        r = vals.py_eq(a, b)
        if isinstance(r, bool):
            return r
        raise Unsupported("symbolic key comparison")

    def e_UnaryOp(self, node, st):
        for st1, v in self.eval(node.operand, st):
            if isinstance(node.op, ast.Not):
                yield st1, wrap_bool(znot(self.truthy(st1, v)))
            elif isinstance(node.op, ast.USub):
                try:
                    yield st1, vals.unop_neg(v, self.needer(st1, node))
                except PathDead:
                    pass
            elif isinstance(node.op, ast.UAdd):
                yield st1, v
            else:
                raise Unsupported("unary op")

    _binops = {
        ast.Add: "+",
        ast.Sub: "-",
        ast.Mult: "*",
        ast.Div: "/",
        ast.FloorDiv: "//",
        ast.Mod: "%",
        ast.Pow: "**",
    }

    def e_BinOp(self, node, st):
        for st1, a in self.eval(node.left, st):
            for st2, b in self.eval(node.right, st1):
                try:
                    yield st2, self.binop(node, a, b, st2)
                except PathDead:
                    pass

    def binop(self, node, a, b, st):
        if isinstance(node.op, ast.BitOr):
            return self.bitor(a, b, st)
        op = self._binops.get(type(node.op))
        if op is None:
            raise Unsupported(f"operator {type(node.op).__name__}")
        if op == "+" and isinstance(a, (str, Tmpl)) and isinstance(b, (str, Tmpl)):
            return mkstr([a, b])
        if op == "+" and isinstance(a, Ref) and isinstance(b, Ref):
            pa, pb = st.heap[a.oid], st.heap[b.oid]
            if isinstance(pa, ListP) and isinstance(pb, ListP):
                return st.alloc(ListP(pa.items + pb.items))
        for x in (a, b):
            if hasattr(x, "arith"):
                return x.arith(op, a, b, self, st, node)
        return vals.binop(op, a, b, self.needer(st, node))

    def bitor(self, a, b, st):
        if isinstance(a, Ref) and isinstance(b, Ref):
            pa, pb = st.heap[a.oid], st.heap[b.oid]
            if isinstance(pa, SetP) and isinstance(pb, SetP):
                out = list(pa.items)
                for v in pb.items:
                    if not any(self.key_same(v, o) for o in out):
                        out.append(v)
                return st.alloc(SetP(out))
            if isinstance(pa, DictP) and isinstance(pb, DictP):
                d = dict(pa.items)
                d.update(pb.items)
                return st.alloc(DictP(d))
        raise Unsupported("| operator")

    def e_BoolOp(self, node, st):
        is_and = isinstance(node.op, ast.And)

        def go(i, st0):
            for st1, v in self.eval(node.values[i], st0):
                if i == len(node.values) - 1:
                    yield st1, v
                    continue
                t = self.truthy(st1, v)
                for st2, taken in self.branch(st1, t, f"bo{node.lineno}.{node.col_offset}.{i}"):
                    if taken == is_and:
                        yield from go(i + 1, st2)
                    else:
                        yield st2, v

        yield from go(0, st)

    _cmpops = {
        ast.Eq: "==",
        ast.NotEq: "!=",
        ast.Lt: "<",
        ast.LtE: "<=",
        ast.Gt: ">",
        ast.GtE: ">=",
        ast.Is: "is",
        ast.IsNot: "is not",
    }

    def e_Compare(self, node, st):
        def go(i, st0, left):
            opn = node.ops[i]
            for st1, right in self.eval(node.comparators[i], st0):
                try:
                    r = self.compare_values(opn, left, right, st1, node)
                except PathDead:
                    continue
                if i == len(node.ops) - 1:
                    yield st1, wrap_bool(r)
                    continue
                for st2, taken in self.branch(st1, r, f"cmp{node.lineno}.{node.col_offset}.{i}"):
                    if taken:
                        yield from go(i + 1, st2, right)
                    else:
                        yield st2, False

        for st0, left in self.eval(node.left, st):
            yield from go(0, st0, left)

    def compare_values(self, opn, left, right, st, node):
        if isinstance(opn, (ast.In, ast.NotIn)):
            r = self.contains(right, left, st, node)
            return znot(r) if isinstance(opn, ast.NotIn) else r
        op = self._cmpops[type(opn)]
        return vals.compare(op, left, right, self.needer(st, node), st.heap)

    def contains(self, container, item, st, node):
        if isinstance(container, (str, Tmpl)):
            if item == ".":
                return vals.str_contains_dot(container)
            if isinstance(item, str) and isinstance(container, str):
                return item in container
            if isinstance(item, (str, Tmpl)) and isinstance(container, (str, Tmpl)):
                return self.str_in(item, container)
            raise Unsupported("substring test")
        if isinstance(container, RDictAt):
            ser = st.heap[container.series.oid]
            return ser.has(container.which, self.hashkey(item), container.j)
        if isinstance(container, Ref):
            p = st.heap[container.oid]
            if isinstance(p, (ListP, SetP)):
                return zor(*[zbool(vals.py_eq(item, x, st.heap)) for x in p.items]) if p.items else False
            if isinstance(p, DictP):
                return zor(*[zbool(vals.py_eq(item, k, st.heap)) for k in p.items]) if p.items else False
            if hasattr(p, "contains"):
                return p.contains(item, self, st)
        if isinstance(container, TupleV):
            return zor(*[zbool(vals.py_eq(item, x, st.heap)) for x in container]) if container else False
        if hasattr(container, "contains"):
            return container.contains(item, self, st)
        raise Unsupported(f"membership in {container!r}")

    def str_in(self, item, container):
        raise Unsupported("symbolic substring test")

    def e_IfExp(self, node, st):
        for st1, c in self.eval(node.test, st):
            for st2, taken in self.branch(st1, self.truthy(st1, c), f"ife{node.lineno}.{node.col_offset}"):
                yield from self.eval(node.body if taken else node.orelse, st2)

    def e_Lambda(self, node, st):
        yield st, FuncVal(st.frames[-1]["__module__"], node, closure=len(st.frames) - 1)

    def e_GeneratorExp(self, node, st):
        yield st, GenVal(node, len(st.frames) - 1)

    def e_ListComp(self, node, st):
        from .iteration import eval_comprehension

        yield from eval_comprehension(self, node, st, "list")

    def e_SetComp(self, node, st):
        from .iteration import eval_comprehension

        yield from eval_comprehension(self, node, st, "set")

    def e_DictComp(self, node, st):
        from .iteration import eval_comprehension

        yield from eval_comprehension(self, node, st, "dict")

    def e_Attribute(self, node, st):
        for st1, obj in self.eval(node.value, st):
            yield from self.getattr(obj, node.attr, st1, node)

    def e_Subscript(self, node, st):
        for st1, obj in self.eval(node.value, st):
            if isinstance(node.slice, ast.Slice):
                parts = [node.slice.lower, node.slice.upper, node.slice.step]
                exprs = [p for p in parts if p is not None]
                for st2, vs in self.eval_many(exprs, st1):
                    it = iter(vs)
                    lo, hi, step = [next(it) if p is not None else None for p in parts]
                    yield from self.getslice(obj, lo, hi, step, st2, node)
            else:
                for st2, idx in self.eval(node.slice, st1):
                    yield from self.getitem(obj, idx, st2, node)

    def e_Call(self, node, st):
        for st1, fv in self.eval(node.func, st):
            argnodes = []
            star = []
            for a in node.args:
                if isinstance(a, ast.Starred):
                    raise Unsupported("*args call")
                argnodes.append(a)
            kwnodes = [k for k in node.keywords if k.arg is not None]
            splat = [k for k in node.keywords if k.arg is None]
            for st2, args in self.eval_many(argnodes, st1):
                for st3, kwv in self.eval_many([k.value for k in kwnodes], st2):
                    kwargs = {k.arg: v for k, v in zip(kwnodes, kwv)}
                    if splat:
                        for st4, svs in self.eval_many([k.value for k in splat], st3):
                            kw2 = dict(kwargs)
                            for sv in svs:
                                p = st4.heap[sv.oid] if isinstance(sv, Ref) else None
                                if not isinstance(p, DictP):
                                    raise Unsupported("** of non-dict")
                                for k, v in p.items.items():
                                    if not isinstance(k, str):
                                        raise Unsupported("** with symbolic key")
                                    kw2[k] = v
                            yield from self.call(fv, args, kw2, st4, node)
                    else:
                        yield from self.call(fv, args, kwargs, st3, node)

    # ------------------------------------------------------------------ attribute access
    def getattr(self, obj, name, st, node=None):
        from . import builtins_model as bm

        if isinstance(obj, Ref):
            p = st.heap[obj.oid]
            if isinstance(p, ObjP):
                if name in p.fields:
                    yield st, p.fields[name]
                    return
                if name == "__dict__":
                    yield st, bm.VarsView(obj)
                    return
                c, fn = p.cls.find("properties", name)
                if fn is not None:
                    yield from self.call_function(FuncVal(c.module, fn, c), [obj], {}, st, node)
                    return
                if name == "__setattr__":
                    def _sa(ex, st_, args, kwargs, node_, obj=obj):
                        for s2 in ex.setattr(obj, args[0], args[1], st_, node_):
                            yield s2, None
                    yield st, Builtin("object.__setattr__", _sa)
                    return
                c, fn = p.cls.find("methods", name)
                if fn is not None:
                    if name in c.staticmethods:
                        yield st, FuncVal(c.module, fn, c)
                    elif name in c.classmethods:
                        yield st, BoundMethod(ClassVal(p.cls), FuncVal(c.module, fn, c))
                    else:
                        yield st, BoundMethod(obj, FuncVal(c.module, fn, c))
                    return
                c, expr = p.cls.find("class_attrs", name)
                if expr is not None:
                    yield from self.eval_in_module(expr, c.module, st)
                    return
                raise Unsupported(f"attribute {p.cls.name}.{name}")
            m = bm.method_of(self, obj, p, name)
            if m is not None:
                yield st, m
                return
            if type(p).__name__ == "HListP":
                from .store import hlist_method

                m = hlist_method(self, obj, p, name)
                if m is not None:
                    yield st, m
                    return
            if type(p).__name__ == "SymCandleP":
                if name == "indicators":
                    yield st, p.ind_ref
                    return
                if name == "sub_indicators":
                    yield st, p.sub_ref
                    return
            raise Unsupported(f"attribute {type(p).__name__}.{name}")
        if isinstance(obj, CandleAt):
            yield from self.candle_attr(obj, name, st, node)
            return
        if isinstance(obj, ModuleInfo):
            r = self.ctx.source.lookup(obj, name)
            if r is None:
                sub = self.ctx.source.module(f"{obj.name}.{name}")
                if sub is None:
                    raise Unsupported(f"module attribute {obj.name}.{name}")
                yield st, sub
                return
            yield st, self.global_value(r, st)
            return
        if isinstance(obj, ClassVal):
            c, fn = obj.cls.find("methods", name)
            if fn is not None:
                if name in c.classmethods:
                    yield st, BoundMethod(obj, FuncVal(c.module, fn, c))
                else:
                    yield st, FuncVal(c.module, fn, c)
                return
            c, expr = obj.cls.find("class_attrs", name)
            if expr is not None:
                yield from self.eval_in_module(expr, c.module, st)
                return
            if name == "__name__":
                yield st, obj.cls.name
                return
            raise Unsupported(f"class attribute {obj.cls.name}.{name}")
        if isinstance(obj, ExtVal):
            yield st, ExtVal(f"{obj.name}.{name}")
            return
        if isinstance(obj, FuncVal) and name == "__name__":
            yield st, obj.node.name
            return
        m = bm.method_of(self, obj, obj, name)
        if m is not None:
            yield st, m
            return
        if isinstance(obj, SV) and name == "get":
            from .symdict import sv_get

            def _get(ex, st_, args, kwargs, node_, obj=obj):
                yield st_, sv_get(ex, st_, obj, args, node_)

            yield st, Builtin("reading.get", _get)
            return
        if hasattr(obj, "getattr"):
            yield from obj.getattr(name, self, st, node)
            return
        raise Unsupported(f"attribute {name} of {obj!r}")

    def eval_in_module(self, expr, module, st):
        st.frames.append({"__module__": module})
        try:
            out = list(self.eval(expr, st))
        finally:
            st.frames.pop()
        for st1, v in out:
            yield st1, v

    def candle_attr(self, c, name, st, node):
        ser = st.heap[c.series.oid]
        if name in PRICE_ATTRS or name == "volume":
            yield st, ser.attr_value(name, c.j)
            return
        if name == "indicators":
            yield st, RDictAt(c.series, "I", c.j)
            return
        if name == "sub_indicators":
            yield st, RDictAt(c.series, "S", c.j)
            return
        cls = self.ctx.source.module("hexital.core.candle").classes["Candle"]
        self.ctx.source.resolve_class_bases(cls)
        cc, fn = cls.find("properties", name)
        if fn is not None:
            yield from self.call_function(FuncVal(cc.module, fn, cc), [c], {}, st, node)
            return
        raise Unsupported(f"candle attribute {name}")

    def setattr(self, obj, name, value, st, node=None):
        if isinstance(obj, Ref):
            p = st.heap[obj.oid]
            if isinstance(p, ObjP):
                c, fn = p.cls.find("setters", name)
                if fn is not None:
                    for st1, _ in self.call_function(FuncVal(c.module, fn, c), [obj, value], {}, st, node):
                        yield st1
                    return
                hook = self.ctx.natives.get("setattr")
                if hook is not None:
                    hook(self, st, obj, name, value, node)
                p.fields[name] = value
                yield st
                return
        if hasattr(obj, "setattr"):
            yield from obj.setattr(name, value, self, st, node)
            return
        raise Unsupported(f"attribute store on {obj!r}")

    # ------------------------------------------------------------------ subscripts
    def list_index(self, st, n, idx, node):
        """python list index semantics for a list of length n (python int or z3 Int term):
        returns normalised index, emitting the IndexError obligation"""
        if isinstance(idx, vals.SOpt):
            self.need(st, znot(idx.none), "TypeError", node)
            idx = idx.v
        if isinstance(idx, (SFloat, SNum, float)) or idx is None or isinstance(idx, (str, Tmpl, Ref, SV)):
            self.need(st, False, "TypeError", node)
            raise PathDead()
        if isinstance(n, int) and isinstance(idx, int):
            if not (-n <= idx < n):
                self.need(st, False, "IndexError", node)
                raise PathDead()
            return idx if idx >= 0 else idx + n
        it = to_int_term(idx)
        nt = z3.IntVal(n) if isinstance(n, int) else n
        self.need(st, z3.And(it >= -nt, it < nt), "IndexError", node)
        return z3.simplify(z3.If(it < 0, it + nt, it))

    def getitem(self, obj, idx, st, node):
        try:
            if isinstance(obj, Ref):
                p = st.heap[obj.oid]
                if isinstance(p, ListP):
                    j = self.list_index(st, len(p.items), idx, node)
                    if isinstance(j, int):
                        yield st, p.items[j]
                        return
                    # symbolic index into a concrete list: split by position
                    for k in range(len(p.items)):
                        for st1, taken in self.branch(st.fork() if k < len(p.items) - 1 else st, j == k, f"idx{k}"):
                            if taken:
                                yield st1, st1.heap[obj.oid].items[k]
                    return
                if isinstance(p, DictP):
                    k = self.hashkey(idx)
                    for kk, v in p.items.items():
                        if self.key_same(kk, k):
                            yield st, v
                            return
                    self.need(st, False, "KeyError", node)
                    return
                if isinstance(p, SeriesP):
                    j = self.list_index(st, p.length, idx, node)
                    self.series_read_frame(st, p, j, j, node)
                    yield st, CandleAt(obj, j if not isinstance(j, int) else z3.IntVal(j))
                    return
                if hasattr(p, "getitem"):
                    yield from p.getitem(obj, idx, self, st, node)
                    return
            if isinstance(obj, RDictAt):
                ser = st.heap[obj.series.oid]
                k = self.hashkey(idx)
                self.need(st, ser.has(obj.which, k, obj.j), "KeyError", node)
                yield st, vals.from_V_term(ser.whole(obj.which, k, obj.j))
                return
            if isinstance(obj, TupleV):
                j = self.list_index(st, len(obj), idx, node)
                if isinstance(j, int):
                    yield st, obj[j]
                    return
            if isinstance(obj, (str, Tmpl)):
                if isinstance(idx, int):
                    s = vals.str_parts(obj)
                    if idx == 0 and s and isinstance(s[0], str) and s[0]:
                        yield st, s[0][0]
                        return
                    if isinstance(obj, str):
                        if -len(obj) <= idx < len(obj):
                            yield st, obj[idx]
                        else:
                            self.need(st, False, "IndexError", node)
                        return
                raise Unsupported("string index")
            if type(obj).__name__ == "VarsView":
                o = st.heap[obj.ref.oid]
                if idx in o.fields:
                    yield st, o.fields[idx]
                else:
                    self.need(st, False, "KeyError", node)
                return
            if hasattr(obj, "getitem"):
                yield from obj.getitem(idx, self, st, node)
                return
        except PathDead:
            return
        raise Unsupported(f"subscript of {obj!r}")

    def series_read_frame(self, st, ser, lo, hi, node, what="candles[...]"):
        """every access to candle positions [lo, hi] must lie inside the declared read frame"""
        if ser.read_frame is None:
            return
        flo, fhi = ser.read_frame
        lo_t, hi_t = to_int_term(lo), to_int_term(hi)
        goal = z3.And(to_int_term(flo) <= lo_t, hi_t <= to_int_term(fhi))
        self.ctx.oblige(st, "frame-read", f"{_src(node)[:70] if node is not None else what}", goal, node)
        st.assume(goal)

    def note_series_read(self, st, ser, j, key, node):
        """frame-read-own: a key of the indicator's own namespace read at the index being computed
        must have been written earlier in the same computation (DESIGN.md section 3.6)"""
        main = vals.str_split_dot(key)[0] if vals.str_contains_dot(key) else key
        ser.reads.append((j, main))
        if not any(str(f.get("__func__", "")).endswith("._calculate_reading") for f in st.frames):
            return
        if main in ser.own_keys and main not in ser.written_now and ser.write_index is not None:
            # reading an own key at the index being computed before writing it is harmless only when
            # nothing (None) is there: then no information from an earlier computation flows in
            goal = z3.Or(to_int_term(j) != to_int_term(ser.write_index), V.is_vnone(ser.lookup_V(key, j)))
            self.ctx.oblige(st, "frame-read-own", f"{main!r} @ {_src(node)[:60] if node is not None else ''}", goal, node)
            st.assume(goal)

    def clamp_slice(self, n, lo, hi):
        """CPython slice bounds for step 1 on a list of length n -> (lo', hi') with 0<=lo',hi'<=n"""
        nt = z3.IntVal(n) if isinstance(n, int) else n

        def cl(x, default):
            if x is None:
                return default
            t = to_int_term(x)
            t = z3.If(t < 0, t + nt, t)
            return z3.If(t < 0, z3.IntVal(0), z3.If(t > nt, nt, t))

        return z3.simplify(cl(lo, z3.IntVal(0))), z3.simplify(cl(hi, nt))

    def getslice(self, obj, lo, hi, step, st, node):
        if step is not None and step != 1:
            raise Unsupported("slice step")
        # an Optional bound: None means open ended (legal python) - split the path
        for which_b, b in (("lo", lo), ("hi", hi)):
            if isinstance(b, vals.SOpt):
                for st1, is_none in self.branch(st, b.none, f"slice{getattr(node, 'lineno', 0)}.{which_b}"):
                    nb = None if is_none else b.v
                    yield from self.getslice(obj, nb if which_b == "lo" else lo, nb if which_b == "hi" else hi, step, st1, node)
                return
        for b in (lo, hi):
            if isinstance(b, (SFloat, SNum, float, SV)):
                self.need(st, False, "TypeError", node)
                return
        if isinstance(obj, Ref):
            p = st.heap[obj.oid]
            if isinstance(p, ListP) and all(b is None or isinstance(b, int) for b in (lo, hi)):
                yield st, st.alloc(ListP(p.items[lo:hi]))
                return
            if isinstance(p, SeriesP):
                a, b = self.clamp_slice(p.length, lo, hi)
                # frame: only if non-empty
                if p.read_frame is not None:
                    flo, fhi = p.read_frame
                    goal = z3.Implies(a < b, z3.And(to_int_term(flo) <= a, b - 1 <= to_int_term(fhi)))
                    self.ctx.oblige(st, "frame-read", _src(node)[:70], goal, node)
                    st.assume(goal)
                yield st, SliceView(obj, a, b)
                return
        if isinstance(obj, Ref) and type(st.heap[obj.oid]).__name__ == "HListP":
            # a slice of a heap list: a new list object over the same candle references
            from .store import HListP

            p = st.heap[obj.oid]
            a, b = self.clamp_slice(p.length(), lo, hi)
            b = z3.If(b < a, a, b)
            yield st, st.alloc(HListP(p.name + ".slice", p.store, p.arr, z3.simplify(p.lo + a), z3.simplify(p.lo + b)))
            return
        if isinstance(obj, str) and all(b is None or isinstance(b, int) for b in (lo, hi)):
            yield st, obj[lo:hi]
            return
        if isinstance(obj, Tmpl) and hi is None and isinstance(lo, int):
            ps = obj.parts
            if ps and isinstance(ps[0], str) and len(ps[0]) >= lo:
                yield st, mkstr((ps[0][lo:],) + ps[1:])
                return
        raise Unsupported(f"slice of {obj!r}")

    def setitem(self, obj, idx, value, st, node):
        if isinstance(obj, Ref):
            p = st.heap[obj.oid]
            if isinstance(p, ListP):
                try:
                    j = self.list_index(st, len(p.items), idx, node)
                except PathDead:
                    return
                if not isinstance(j, int):
                    raise Unsupported("symbolic index store into concrete list")
                p.items[j] = value
                yield st
                return
            if isinstance(p, DictP):
                k = self.hashkey(idx)
                for kk in list(p.items):
                    if self.key_same(kk, k):
                        p.items[kk] = value
                        yield st
                        return
                p.items[k] = value
                yield st
                return
            if hasattr(p, "setitem"):
                yield from p.setitem(obj, idx, value, self, st, node)
                return
        if isinstance(obj, RDictAt):
            self.series_write(st, obj, self.hashkey(idx), value, node)
            yield st
            return
        if type(obj).__name__ == "VarsView":
            st.heap[obj.ref.oid].fields[idx] = value
            yield st
            return
        if hasattr(obj, "setitem"):
            yield from obj.setitem(idx, value, self, st, node)
            return
        raise Unsupported(f"subscript store on {obj!r}")

    def series_write(self, st, rd, key, value, node):
        ser = st.heap[rd.series.oid]
        if ser.write_keys is not None:
            if key not in ser.write_keys:
                self.ctx.oblige(
                    st, "frame-write", f"key {vals.Tmpl((key,)) if not isinstance(key, Tmpl) else key!r} outside own namespace @ {_src(node)[:60]}", False, node
                )
            if ser.write_index is not None:
                goal = to_int_term(rd.j) == to_int_term(ser.write_index)
                self.ctx.oblige(st, "frame-write", f"index @ {_src(node)[:60]}", goal, node)
                st.assume(goal)
        ser.write(rd.which, key, rd.j, value, st.heap)

    # ------------------------------------------------------------------ calls
    def call(self, fv, args, kwargs, st, node):
        if isinstance(fv, BoundMethod):
            yield from self.call(fv.func, [fv.selfv] + list(args), kwargs, st, node)
            return
        if isinstance(fv, Builtin):
            try:
                yield from fv.fn(self, st, list(args), kwargs, node)
            except PathDead:
                return
            return
        if isinstance(fv, FuncVal):
            yield from self.call_function(fv, list(args), kwargs, st, node)
            return
        if isinstance(fv, ClassVal):
            from .objects import instantiate

            yield from instantiate(self, fv.cls, list(args), kwargs, st, node)
            return
        if isinstance(fv, ExtVal):
            from . import builtins_model as bm

            try:
                yield from bm.call_ext(self, fv, list(args), kwargs, st, node)
            except PathDead:
                return
            return
        if hasattr(fv, "call"):
            yield from fv.call(list(args), kwargs, self, st, node)
            return
        raise Unsupported(f"call of {fv!r}")

    def bind_params(self, fv, args, kwargs, st):
        a = fv.node.args
        if a.vararg:
            raise Unsupported("varargs")
        params = [p.arg for p in a.posonlyargs + a.args]
        defaults = [None] * (len(params) - len(a.defaults)) + list(a.defaults)
        env = {}
        if len(args) > len(params):
            raise Unsupported(f"too many arguments for {fv.qualname}")
        for p, v in zip(params, args):
            env[p] = v
        kwargs = dict(kwargs)
        for p, d in zip(params, defaults):
            if p in env:
                continue
            if p in kwargs:
                env[p] = kwargs.pop(p)
            elif d is not None:
                out = list(self.eval_in_module(d, fv.module, st))
                env[p] = out[0][1]
            else:
                raise Unsupported(f"missing argument {p} for {fv.qualname}")
        for p, d in zip(a.kwonlyargs, a.kw_defaults):
            if p.arg in kwargs:
                env[p.arg] = kwargs.pop(p.arg)
            elif d is not None:
                out = list(self.eval_in_module(d, fv.module, st))
                env[p.arg] = out[0][1]
            else:
                raise Unsupported(f"missing kw argument {p.arg}")
        if a.kwarg:
            env[a.kwarg.arg] = st.alloc(DictP(kwargs))
        elif kwargs:
            self.need(st, False, "TypeError", None, label=f"unexpected keyword {sorted(kwargs)} for {fv.qualname}")
            raise PathDead()
        return env

    def call_function(self, fv, args, kwargs, st, node):
        q = fv.qualname
        nat = self.ctx.natives.get(q)
        if nat is not None:
            try:
                r = nat(self, st, args, kwargs, node)
                if r is not None:
                    yield from r
                    return
            except PathDead:
                return
        contract = self.ctx.contracts.get(q)
        if contract is not None and contract.use_at_calls and q != self.ctx.func and q not in self.ctx.force_inline:
            self.ctx.edges.add((self.ctx.func, q, "contract"))
            from .contracts import apply_contract

            try:
                yield from apply_contract(self, contract, fv, args, kwargs, st, node)
            except PathDead:
                return
            return
        if q != self.ctx.func:
            self.ctx.edges.add((self.ctx.func, q, "inline"))
        yield from self.inline(fv, args, kwargs, st, node)

    def inline(self, fv, args, kwargs, st, node):
        if len(st.frames) > MAX_DEPTH:
            raise Unsupported("call depth")
        try:
            env = self.bind_params(fv, args, kwargs, st)
        except PathDead:
            return
        env["__module__"] = fv.module
        env["__func__"] = fv.qualname
        env["__cls__"] = fv.cls
        if fv.closure is not None:
            env["__closure__"] = fv.closure
        depth = len(st.frames)
        st.frames.append(env)
        if isinstance(fv.node, ast.Lambda):
            for st1, v in self.eval(fv.node.body, st):
                del st1.frames[depth:]
                yield st1, v
            return
        for st1, sig in self.exec_block(fv.node.body, st):
            del st1.frames[depth:]
            if sig[0] == "return":
                yield st1, sig[1]
            elif sig[0] == "next":
                yield st1, None
            elif sig[0] == "raise":
                self.propagate_raise(st1, sig, node)
            else:
                raise Unsupported(f"signal {sig[0]} escaping function")

    def propagate_raise(self, st, sig, node):
        exc = sig[1]
        allowed = self.ctx.allowed_raises.get(exc)
        if allowed is None:
            self.ctx.oblige(st, f"noraise:{exc}", f"raise {exc} @ {sig[2]}", False, node)
        else:
            self.ctx.raised.append((st, exc))

    # ------------------------------------------------------------------ statements
    def exec_block(self, stmts, st):
        if not stmts:
            yield st, Signal.NEXT
            return
        head, rest = stmts[0], stmts[1:]
        for st1, sig in self.exec_stmt(head, st):
            if sig[0] == "next":
                yield from self.exec_block(rest, st1)
            else:
                yield st1, sig

    def exec_stmt(self, node, st):
        m = getattr(self, "s_" + type(node).__name__, None)
        if m is None:
            raise Unsupported(f"statement {type(node).__name__}")
        return m(node, st)

    def s_Expr(self, node, st):
        if isinstance(node.value, ast.Constant):
            yield st, Signal.NEXT
            return
        for st1, _ in self.eval(node.value, st):
            yield st1, Signal.NEXT

    def s_Pass(self, node, st):
        yield st, Signal.NEXT

    def s_Return(self, node, st):
        if node.value is None:
            yield st, ("return", None)
            return
        for st1, v in self.eval(node.value, st):
            yield st1, ("return", v)

    def s_Break(self, node, st):
        yield st, Signal.BREAK

    def s_Continue(self, node, st):
        yield st, Signal.CONTINUE

    def s_Raise(self, node, st):
        name = "Exception"
        e = node.exc
        if isinstance(e, ast.Call):
            e = e.func
        if isinstance(e, ast.Name):
            name = e.id
        yield st, ("raise", name, node.lineno)

    def s_FunctionDef(self, node, st):
        st.frames[-1][node.name] = FuncVal(st.frames[-1]["__module__"], node, closure=len(st.frames) - 1,
                                           qualname=f"{st.frames[-1].get('__func__', '?')}.<locals>.{node.name}")
        yield st, Signal.NEXT

    def s_Assign(self, node, st):
        for st1, v in self.eval(node.value, st):
            sts = [st1]
            for tgt in node.targets:
                nxt = []
                for s in sts:
                    nxt.extend(self.assign(tgt, v, s))
                sts = nxt
            for s in sts:
                yield s, Signal.NEXT

    def s_AnnAssign(self, node, st):
        if node.value is None:
            yield st, Signal.NEXT
            return
        for st1, v in self.eval(node.value, st):
            for s in self.assign(node.target, v, st1):
                yield s, Signal.NEXT

    def s_AugAssign(self, node, st):
        tgt = node.target
        load = ast.copy_location(
            {ast.Name: lambda: ast.Name(id=tgt.id, ctx=ast.Load()),
             ast.Attribute: lambda: ast.Attribute(value=tgt.value, attr=tgt.attr, ctx=ast.Load()),
             ast.Subscript: lambda: ast.Subscript(value=tgt.value, slice=tgt.slice, ctx=ast.Load())}[type(tgt)](),
            tgt,
        )
        fake = ast.copy_location(ast.BinOp(left=load, op=node.op, right=node.value), node)
        ast.fix_missing_locations(fake)
        for st1, v in self.eval(fake, st):
            for s in self.assign(tgt, v, st1):
                yield s, Signal.NEXT

    def assign(self, tgt, v, st):
        if isinstance(tgt, ast.Name):
            st.frames[-1][tgt.id] = v
            yield st
        elif isinstance(tgt, ast.Attribute):
            for st1, obj in self.eval(tgt.value, st):
                yield from self.setattr(obj, tgt.attr, v, st1, tgt)
        elif isinstance(tgt, ast.Subscript):
            for st1, obj in self.eval(tgt.value, st):
                for st2, idx in self.eval(tgt.slice, st1):
                    yield from self.setitem(obj, idx, v, st2, tgt)
        elif isinstance(tgt, (ast.Tuple, ast.List)):
            items = self.unpack(v, len(tgt.elts), st, tgt)
            if items is None:
                return
            sts = [st]
            for t, x in zip(tgt.elts, items):
                nxt = []
                for s in sts:
                    nxt.extend(self.assign(t, x, s))
                sts = nxt
            yield from sts
        else:
            raise Unsupported("assignment target")

    def unpack(self, v, n, st, node):
        if isinstance(v, TupleV):
            items = list(v)
        elif isinstance(v, Ref) and isinstance(st.heap[v.oid], ListP):
            items = list(st.heap[v.oid].items)
        else:
            raise Unsupported(f"unpacking {v!r}")
        if len(items) != n:
            self.need(st, False, "ValueError", node, label=f"unpack {len(items)} values into {n}")
            return None
        return items

    def s_If(self, node, st):
        for st1, c in self.eval(node.test, st):
            for st2, taken in self.branch(st1, self.truthy(st1, c), f"if{node.lineno}"):
                yield from self.exec_block(node.body if taken else node.orelse, st2)

    def s_For(self, node, st):
        from .iteration import exec_for

        yield from exec_for(self, node, st)

    def s_While(self, node, st):
        from .iteration import exec_while

        yield from exec_while(self, node, st)

    def s_Assert(self, node, st):
        yield st, Signal.NEXT

    def s_Import(self, node, st):
        yield st, Signal.NEXT

    def s_ImportFrom(self, node, st):
        yield st, Signal.NEXT
