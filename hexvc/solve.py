"""Grounding and discharge of obligations.

No quantifier reaches the solver: quantified hypotheses (invariants on earlier candles, frame
axioms, extremum bounds) are instantiated by the engine at every integer term that occurs as a
candle position (array index) in the query, Sigma / Min / Max symbols get their unfolding axioms
at the applications present.  Queries are therefore ground (QF_AUFLIRA + datatypes + a few
nonlinear products) and fast and stable on both back ends.
"""
from __future__ import annotations

import os
import subprocess
import tempfile
import time

import z3

from .values import zbool

WORK = os.path.join(os.path.dirname(os.path.dirname(os.path.abspath(__file__))), ".work")


def _walk(exprs):
    seen = set()
    stack = list(exprs)
    while stack:
        e = stack.pop()
        i = e.get_id()
        if i in seen:
            continue
        seen.add(i)
        yield e
        if z3.is_app(e):
            stack.extend(e.children())
        elif z3.is_quantifier(e):
            stack.append(e.body())


_WALK_CACHE = {}


def _scan(e, fnids):
    """(index terms, candidate sigma/extremum applications) of one formula, cached per formula object"""
    key = e.get_id()
    hit = _WALK_CACHE.get(key)
    if hit is None:
        out = {}
        cand = []
        for x in _walk([e]):
            if not z3.is_app(x):
                continue
            k = x.decl().kind()
            if k == z3.Z3_OP_SELECT or k == z3.Z3_OP_STORE:
                idx = x.arg(1)
                if idx.sort() == z3.IntSort():
                    out[idx.get_id()] = idx
            elif k == z3.Z3_OP_UNINTERPRETED and x.num_args() == 2:
                cand.append((x.decl().get_id(), x))
        hit = (out, cand, e)
        _WALK_CACHE[key] = hit
    apps = {}
    for did, x in hit[1]:
        r = fnids.get(did)
        if r is not None:
            apps[x.get_id()] = (r, x)
    return hit[0], apps


def index_terms(exprs, sums, exts):
    fnids = {}
    for ss in sums:
        fnids[ss.fn.get_id()] = ("sum", ss)
    for es in exts:
        fnids[es.val.get_id()] = ("ext", es)
    out = {}
    apps = {}
    for e in exprs:
        o, a = _scan(e, fnids)
        out.update(o)
        apps.update(a)
    return out, apps


def ground(ob, ctx, rounds=None, max_terms=100):
    rounds = rounds or getattr(ctx, "ground_rounds", 2)
    max_terms = getattr(ctx, "max_terms", max_terms)
    ctx._grounding = getattr(ctx, "_grounding", 0) + 1
    try:
        return _ground(ob, ctx, rounds, max_terms)
    finally:
        ctx._grounding -= 1


_TKEY = {}


def _term_key(t):
    k = t.get_id()
    r = _TKEY.get(k)
    if r is None:
        sx = t.sexpr()
        r = (len(sx), sx)
        _TKEY[k] = (r, t)
        return r
    return r[0]


def _ground(ob, ctx, rounds=2, max_terms=60):
    sums = getattr(ctx, "sums", [])
    exts = getattr(ctx, "exts", [])
    from .values import POW_FACTS

    hyps = [zbool(c) for c in ob.pc] + list(POW_FACTS)
    goal = ob.goal
    terms = {}
    for it in ob.sums or []:
        if it[0] == "term":
            terms[it[1].get_id()] = it[1]
    for t in getattr(ctx, "extra_terms", []):
        terms[t.get_id()] = t
    from .contracts import EXTRA_TERMS

    for t in EXTRA_TERMS[-40:]:
        terms[t.get_id()] = t
    done = set()
    unfolded = set()
    extra = []
    for r in range(rounds):
        t_new, apps = index_terms(hyps + extra + [goal], sums, exts)
        for k, v in t_new.items():
            terms.setdefault(k, v)
        # Sigma / extremum axioms at the applications present (one level per round)
        for aid, ((kind, sym), app) in apps.items():
            if aid in unfolded:
                continue
            unfolded.add(aid)
            a, b = app.arg(0), app.arg(1)
            if kind == "sum":
                extra.append(z3.Implies(a >= b, app == 0))
                bm1, ap1 = z3.simplify(b - 1), z3.simplify(a + 1)
                extra.append(z3.Implies(a < b, app == sym.fn(a, bm1) + sym.body(bm1)))
                extra.append(z3.Implies(a < b, app == sym.body(a) + sym.fn(ap1, b)))
            else:
                w = sym.wit(a, b)
                extra.append(z3.Implies(a < b, z3.And(w >= a, w < b, app == sym.body(w))))
                terms.setdefault(w.get_id(), w)
                for t in list(terms.values()):
                    rel = (app >= sym.body(t)) if sym.is_max else (app <= sym.body(t))
                    extra.append(z3.Implies(z3.And(a <= t, t < b), rel))
        # extensionality between different Sigma symbols applied to the same range: if the sums differ,
        # the bodies differ somewhere inside the range (witness w)
        groups = {}
        for aid, ((kind, sym), app) in apps.items():
            if kind == "sum":
                groups.setdefault((z3.simplify(app.arg(0)).get_id(), z3.simplify(app.arg(1)).get_id()), []).append((sym, app))
        for key, lst in groups.items():
            for x in range(len(lst)):
                for y in range(x + 1, len(lst)):
                    (s1, a1), (s2, a2) = lst[x], lst[y]
                    if s1 is s2:
                        continue
                    tag = (s1.name, s2.name, key)
                    if tag in unfolded:
                        continue
                    unfolded.add(tag)
                    w = z3.Int(f"ext!{s1.name}!{s2.name}!{key[0]}!{key[1]}")
                    a, b = a1.arg(0), a1.arg(1)
                    extra.append(z3.Implies(a1 != a2, z3.And(a <= w, w < b, s1.body(w) != s2.body(w))))
                    terms.setdefault(w.get_id(), w)
        # deterministic choice of instantiation terms: small terms first (ids / insertion order vary between runs)
        tl = sorted(terms.values(), key=_term_key)[:max_terms]
        for qi, qa in enumerate(ob.qassumes or []):
            if getattr(qa, "arity", 1) == 2:
                pl = tl[:16]
                for a_ in pl:
                    for b_ in pl:
                        key = (qi, a_.get_id(), b_.get_id())
                        if key in done:
                            continue
                        done.add(key)
                        f = qa.fn2(a_, b_)
                        if not isinstance(f, bool):
                            extra.append(f)
                continue
            for t in tl:
                key = (qi, t.get_id())
                if key in done:
                    continue
                done.add(key)
                f = qa.fn(t)
                if isinstance(f, bool):
                    if not f:
                        extra.append(z3.BoolVal(False))
                    continue
                extra.append(f)
    return hyps + extra, goal


def free_symbols(e):
    out = set()
    for x in _walk([e]):
        if z3.is_app(x) and x.decl().kind() == z3.Z3_OP_UNINTERPRETED:
            out.add(x.decl().name())
    return out


def check(ob, ctx, timeout_ms=10000, want_model=True, use_cvc5=True, wall_ms=None, rlimit=None):
    t0 = time.time()
    try:
        hyps, goal = ground(ob, ctx)
    except Exception as e:  # grounding must never turn into a verdict
        return {"status": "error", "reason": f"grounding: {type(e).__name__}: {e}", "time": time.time() - t0}
    s = z3.Solver()
    s.set("rlimit", rlimit or timeout_ms * 800)
    s.set("timeout", wall_ms or max(timeout_ms * 3, 30000))
    for h in hyps:
        s.add(h)
    s.add(z3.Not(goal))
    dump = os.environ.get("HEXVC_DUMP")
    if dump and ob.id and dump in ob.id:
        os.makedirs(WORK, exist_ok=True)
        with open(os.path.join(WORK, f"dump_{abs(hash(ob.id + str(ob.path))) % 100000}.smt2"), "w") as fh:
            fh.write("; " + ob.id + "\n(set-logic ALL)\n" + s.to_smt2())
    r = s.check()
    res = {"status": str(r), "time": time.time() - t0, "backend": "z3-5.1(api)"}
    if r == z3.sat and want_model:
        m = s.model()
        res["model"] = model_dict(m)
        extract = getattr(ctx, "extract", None)
        if extract is not None:
            # a concrete reproducer from the counter-model (replayed on the real code by the report); prefer a short list
            try:
                n_t = z3.Int(getattr(ctx, "extract_len", "c.len"))
                big = m.eval(n_t, model_completion=True)
                if z3.is_int_value(big) and big.as_long() > 40:
                    s.push()
                    s.add(n_t <= 40)
                    if s.check() == z3.sat:
                        m = s.model()
                    s.pop()
                c = extract(m, ob)
                if c is not None:
                    res["concrete"] = c
            except Exception as e:  # never a verdict
                res["concrete_error"] = f"{type(e).__name__}: {e}"
    if r == z3.unknown:
        res["reason"] = s.reason_unknown()
        if use_cvc5:
            # portfolio: the same ground query on the other installed solvers (different versions and
            # strategies decide different nonlinear instances; slow queries are the unstable ones)
            for name, r2 in run_external(s, timeout_ms):
                if r2 in ("unsat", "sat"):
                    res["status"] = r2
                    res["backend"] = name
                    res.pop("reason", None)
                    break
            res["time"] = time.time() - t0
    return res


def run_external(solver, timeout_ms):
    os.makedirs(WORK, exist_ok=True)
    text = solver.to_smt2()
    fd, path = tempfile.mkstemp(suffix=".smt2", dir=WORK)
    secs = max(120, int(timeout_ms / 1000 * 4))  # wall-clock budget of the fallback solvers: generous, so that a loaded machine does not turn a proved obligation into an undecided one
    try:
        with os.fdopen(fd, "w") as fh:
            fh.write("(set-logic ALL)\n" + text)
        for name, cmd in (("z3-4.8.12(cli)", ["/usr/bin/z3", f"-T:{secs}", path]),
                          ("cvc5-1.0.3", ["/usr/bin/cvc5", f"--tlimit={secs * 1000}", "--arrays-exp", path])):
            try:
                out = subprocess.run(cmd, capture_output=True, text=True, timeout=secs + 10)
                ans = out.stdout.strip().splitlines()
                yield name, (ans[0].strip() if ans else "unknown")
            except Exception:
                yield name, "unknown"
    finally:
        try:
            os.unlink(path)
        except OSError:
            pass


def run_cvc5(solver, timeout_ms):
    os.makedirs(WORK, exist_ok=True)
    text = solver.to_smt2()
    fd, path = tempfile.mkstemp(suffix=".smt2", dir=WORK)
    try:
        with os.fdopen(fd, "w") as fh:
            fh.write("(set-logic ALL)\n" + text)
        out = subprocess.run(
            ["/usr/bin/cvc5", f"--tlimit={timeout_ms}", "--arrays-exp", path],
            capture_output=True, text=True, timeout=timeout_ms / 1000 + 5,
        )
        ans = out.stdout.strip().splitlines()
        return ans[0].strip() if ans else "unknown"
    except Exception:
        return "unknown"
    finally:
        try:
            os.unlink(path)
        except OSError:
            pass


def model_dict(m):
    out = {}
    for d in m.decls():
        if d.arity() == 0:
            try:
                v = m[d]
                s = v.sexpr() if hasattr(v, "sexpr") else str(v)
                if len(s) < 200:
                    out[d.name()] = s
            except Exception:
                pass
    return out


def solve_all(ctx, obligations, timeout_ms, procs=None):
    """discharge the obligations of one task; large tasks fork a few solver processes (the z3 context
    and the grounding caches are inherited copy-on-write, results come back as plain dicts)"""
    import json
    import os as _os

    def one(ob):
        r = check(ob, ctx, timeout_ms=timeout_ms)
        d = {"id": ob.id, "kind": ob.kind, "label": ob.label, "lineno": ob.lineno, "path": ob.path,
             "props": ob.props, "status": r["status"], "backend": r.get("backend"), "time": round(r["time"], 4)}
        if "model" in r:
            d["model"] = r["model"]
        if "concrete" in r:
            d["concrete"] = r["concrete"]
        if "reason" in r:
            d["reason"] = r["reason"]
        return d

    n = len(obligations)
    if procs is None:
        procs = 1 if n < 200 else (2 if n < 800 else 3)
    if procs <= 1:
        return [one(ob) for ob in obligations]
    slices = [list(range(k, n, procs)) for k in range(procs)]
    kids = []
    for sl in slices:
        r_fd, w_fd = _os.pipe()
        pid = _os.fork()
        if pid == 0:
            try:
                _os.close(r_fd)
                out = [(k, one(obligations[k])) for k in sl]
                with _os.fdopen(w_fd, "w") as fh:
                    fh.write(json.dumps(out))
            finally:
                _os._exit(0)
        _os.close(w_fd)
        kids.append((pid, r_fd, sl))
    results = [None] * n
    for pid, r_fd, sl in kids:
        with _os.fdopen(r_fd) as fh:
            data = fh.read()
        _os.waitpid(pid, 0)
        try:
            for k, d in json.loads(data):
                results[k] = d
        except Exception:
            pass
    for k in range(n):
        if results[k] is None:
            ob = obligations[k]
            results[k] = {"id": ob.id, "kind": ob.kind, "label": ob.label, "lineno": ob.lineno, "path": ob.path,
                          "props": ob.props, "status": "error", "reason": "solver process died", "time": 0.0, "backend": None}
    return results
