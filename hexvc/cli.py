"""check <property> [--tier quick|thorough] [--replay file]

Exit codes: 0 held / 1 violation / 2 undecided (nothing could be decided) / 3 checker fault.
"""
from __future__ import annotations

import argparse
import json
import multiprocessing as mp
import os
import subprocess
import sys
import time
import traceback

ROOT = os.path.dirname(os.path.dirname(os.path.abspath(__file__)))
sys.path.insert(0, ROOT)
sys.setrecursionlimit(10000)

from hexvc.source import Source  # noqa: E402


def _run_one(item):
    kind, key, timeout_ms = item
    import registry

    reg = registry.load()
    src = Source()
    try:
        if kind == "func":
            from hexvc.tasks import run_task

            t = reg.func_tasks[key]
            nat = dict(reg.natives)
            nat.update(t.get("natives", {}))
            r = run_task(src, reg.contracts, reg.loops, t.get("qualname", key), natives=nat, timeout_ms=timeout_ms,
                         props=t.get("props"), builder=t.get("builder"), force_inline=t.get("force_inline", ()),
                         extra_contract=t.get("contract"))
            r.qualname = key
        else:
            from hexvc.indicators import run_indicator_task

            spec, variant = reg.ind_tasks[key]
            r = run_indicator_task(src, reg.contracts, reg.loops, spec, variant, natives=reg.natives, timeout_ms=timeout_ms)
        d = r.to_json()
        d["task"] = key
        d["task_kind"] = kind
        return d
    except Exception as e:
        return {"task": key, "task_kind": kind, "function": key, "out_of_reach": f"engine-error: {type(e).__name__}: {e}\n{traceback.format_exc()[-2000:]}",
                "obligations": [], "paths": 0, "variants": 0, "edges": [], "assumptions": [], "gen_s": 0, "solve_s": 0, "describe": None}


def select_tasks(reg, prop):
    items = []
    for q, t in reg.func_tasks.items():
        if prop in t.get("props", []):
            items.append(("func", q))
    for key, (spec, variant) in reg.ind_tasks.items():
        if prop in spec.props:
            items.append(("ind", key))
    return items


def _worker(item, conn):
    try:
        conn.send(_run_one(item))
    except Exception as e:  # pragma: no cover
        conn.send({"task": item[1], "task_kind": item[0], "function": item[1], "out_of_reach": f"engine-error: {e}",
                   "obligations": [], "paths": 0, "variants": 0, "edges": [], "assumptions": [], "gen_s": 0, "solve_s": 0, "describe": None})
    finally:
        conn.close()


def tree_hash():
    """content hash of everything a task result depends on: the repository sources under verification,
    the engine and the contracts"""
    import hashlib

    h = hashlib.sha256()
    repo = os.environ.get("HEXITAL_REPO", "/repo")
    roots = [os.path.join(repo, "hexital"), os.path.join(ROOT, "hexvc"), os.path.join(ROOT, "contracts"), os.path.join(ROOT, "registry.py")]
    for root in roots:
        if os.path.isfile(root):
            h.update(open(root, "rb").read())
            continue
        for dp, dn, fn in sorted(os.walk(root)):
            dn.sort()
            for f in sorted(fn):
                if f.endswith(".py"):
                    path = os.path.join(dp, f)
                    h.update(path.encode())
                    h.update(open(path, "rb").read())
    return h.hexdigest()[:20]


def run_tasks(items, timeout_ms, jobs=10, task_wall_s=900):
    """one process per task (a crashing or hanging task cannot take the others down).  Task results are
    cached by content hash of (repository sources, engine, contracts, solver budget): the twenty property
    checks share most of their cones, and nothing is reused across different trees."""
    if not items:
        return []
    cache_dir = os.path.join(ROOT, ".cache", f"{tree_hash()}-{timeout_ms}")
    os.makedirs(cache_dir, exist_ok=True)

    def cpath(key):
        import hashlib
        return os.path.join(cache_dir, hashlib.sha1(key.encode()).hexdigest()[:16] + ".json")

    cached = {}
    todo = []
    for k, key in items:
        pth = cpath(key)
        if os.path.exists(pth) and not os.environ.get("HEXVC_NOCACHE"):
            try:
                cached[key] = json.load(open(pth))
                cached[key]["cached"] = True
                continue
            except Exception:
                pass
        todo.append((k, key))
    fresh = _run_tasks_uncached(todo, timeout_ms, jobs, task_wall_s) if todo else []
    # obligations left undecided (or tasks that died) under full load get one quieter second attempt with a
    # larger budget before they are reported
    shaky = [(r["task_kind"], r["task"]) for r in fresh
             if any(o["status"] not in ("sat", "unsat") for o in r["obligations"]) or str(r.get("out_of_reach") or "").startswith("engine-error: worker")]
    if shaky:
        again = {r["task"]: r for r in _run_tasks_uncached(shaky, timeout_ms * 3, max(2, jobs // 4), task_wall_s * 2)}
        fresh = [again.get(r["task"], r) if (r["task_kind"], r["task"]) in shaky else r for r in fresh]
    for r in fresh:
        decided = not str(r.get("out_of_reach") or "").startswith("engine-error: worker")
        if decided:
            try:
                json.dump(r, open(cpath(r["task"]), "w"))
            except Exception:
                pass
    by = {r["task"]: r for r in fresh}
    by.update(cached)
    return [by[key] for _, key in items]


def _run_tasks_uncached(items, timeout_ms, jobs=12, task_wall_s=900):
    if not items:
        return []
    ctxm = mp.get_context("fork")
    pending = [(k, key, timeout_ms) for k, key in items]
    running = []
    results = {}
    order = [key for _, key in items]

    def fail(item, why):
        return {"task": item[1], "task_kind": item[0], "function": item[1], "out_of_reach": f"engine-error: {why}",
                "obligations": [], "paths": 0, "variants": 0, "edges": [], "assumptions": [], "gen_s": 0, "solve_s": 0, "describe": None}

    while pending or running:
        while pending and len(running) < jobs:
            item = pending.pop(0)
            parent, child = ctxm.Pipe(duplex=False)
            p = ctxm.Process(target=_worker, args=(item, child))
            p.start()
            child.close()
            running.append((item, p, parent, time.time()))
        still = []
        for item, p, conn, t0 in running:
            if conn.poll(0.01):
                try:
                    results[item[1]] = conn.recv()
                except EOFError:
                    results[item[1]] = fail(item, "worker died without a result")
                p.join(5)
                continue
            if not p.is_alive():
                if conn.poll(0.2):
                    try:
                        results[item[1]] = conn.recv()
                    except EOFError:
                        results[item[1]] = fail(item, f"worker died (exit code {p.exitcode})")
                else:
                    results[item[1]] = fail(item, f"worker died (exit code {p.exitcode})")
                continue
            if time.time() - t0 > task_wall_s:
                p.kill()
                results[item[1]] = fail(item, f"worker exceeded {task_wall_s}s")
                continue
            still.append((item, p, conn, t0))
        running = still
        if running:
            time.sleep(0.02)
    return [results[k] for k in order]


def main(argv=None):
    ap = argparse.ArgumentParser()
    ap.add_argument("prop")
    ap.add_argument("--tier", default=os.environ.get("VERIF_TIER", "quick"))
    ap.add_argument("--replay")
    ap.add_argument("--jobs", type=int, default=16)
    args = ap.parse_args(argv)
    os.environ["HEXVC_TIER"] = args.tier
    from hexvc import report

    try:
        return report.run_property(args.prop, args.tier, args.replay, args.jobs)
    except SystemExit:
        raise
    except Exception:
        traceback.print_exc()
        print(f"CHECKER-FAULT property={args.prop}")
        return 3


if __name__ == "__main__":
    sys.exit(main())
