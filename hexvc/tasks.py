"""Verification tasks: one real function against its own contract, callee contracts assumed."""
from __future__ import annotations

import itertools
import time
import traceback

import z3

from . import values as vals
from .contracts import Contract, SpecEval, assume_spec, make_symbolic, oblige_spec
from .exec import Ctx, Exec, FuncVal
from .series import SeriesP
from .solve import check
from .state import State
from .values import PathDead, Unsupported


class TaskResult:
    def __init__(self, qualname):
        self.qualname = qualname
        self.describe = None
        self.obligations = []  # dicts
        self.paths = 0
        self.out_of_reach = None
        self.edges = []
        self.assumptions = []
        self.gen_s = 0.0
        self.solve_s = 0.0
        self.variants = 0

    def ok(self):
        return self.out_of_reach is None and all(o["status"] == "unsat" for o in self.obligations)

    def to_json(self):
        return {
            "function": self.qualname,
            "describe": self.describe,
            "paths": self.paths,
            "variants": self.variants,
            "out_of_reach": self.out_of_reach,
            "edges": self.edges,
            "assumptions": self.assumptions,
            "gen_s": round(self.gen_s, 3),
            "solve_s": round(self.solve_s, 3),
            "obligations": [{k: v for k, v in o.items() if not k.startswith("_")} for o in self.obligations],
        }


def new_series(st, name="candles", wellformed=True):
    """a symbolic candle list; well-formedness of the candles (C09's precondition) is a
    quantified hypothesis: 0 < low <= open, close <= high, volume >= 0"""
    from .state import QAssume

    ser = SeriesP(name)
    ref = st.alloc(ser)
    st.assume(ser.length >= 0)
    if wellformed:
        o, h, l, c, v = (ser.attr(a) for a in ("open", "high", "low", "close", "volume"))

        def wf(j):
            return z3.Implies(
                z3.And(j >= 0, j < ser.length),
                z3.And(l[j] > 0, l[j] <= o[j], l[j] <= c[j], o[j] <= h[j], c[j] <= h[j], v[j] >= 0),
            )

        st.qassumes.append(QAssume(wf, "candles-wellformed"))
    return ref


def heap_snapshot(st):
    snap = {}
    for oid, p in st.heap.items():
        n = type(p).__name__
        if n in ("ListP", "SetP"):
            snap[oid] = ("seq", list(p.items))
        elif n == "DictP":
            snap[oid] = ("map", dict(p.items))
        elif n == "ObjP":
            snap[oid] = ("map", dict(p.fields))
        elif hasattr(p, "gen"):
            snap[oid] = ("gen", p.gen)
    return snap


def _same_value(a, b):
    if a is b:
        return True
    if isinstance(a, vals.Ref) and isinstance(b, vals.Ref):
        return a.oid == b.oid
    if vals.is_sym(a) or vals.is_sym(b):
        ta, tb = getattr(a, "t", None), getattr(b, "t", None)
        return type(a) is type(b) and ta is not None and tb is not None and z3.is_expr(ta) and z3.is_expr(tb) and ta.eq(tb)
    try:
        return type(a) is type(b) and a == b
    except Exception:
        return False


def heap_changes(before, st):
    """objects that existed before the call and differ now (modifies-nothing check)"""
    out = []
    for oid, (kind, old) in before.items():
        p = st.heap.get(oid)
        if p is None:
            continue
        n = type(p).__name__
        if kind == "seq":
            if len(p.items) != len(old) or not all(_same_value(x, y) for x, y in zip(p.items, old)):
                out.append(f"{n}#{oid}")
        elif kind == "map":
            cur = p.items if n == "DictP" else p.fields
            if set(cur) != set(old) or not all(_same_value(cur[k], old[k]) for k in cur):
                changed = sorted(str(k) for k in set(cur) ^ set(old)) or sorted(str(k) for k in cur if not _same_value(cur[k], old[k]))
                out.append(f"{getattr(getattr(p, 'cls', None), 'name', n)}#{oid}.{','.join(changed)[:80]}")
        elif kind == "gen":
            if p.gen != old:
                out.append(f"{n}#{oid}")
    return out


WRITERS = [
    "hexital.core.indicator.Indicator.calculate", "hexital.core.indicator.Indicator.calculate_index",
    "hexital.core.indicator.Indicator.recalculate", "hexital.core.indicator.Indicator.purge", "hexital.core.indicator.Indicator.append",
    "hexital.core.indicator.Indicator._set_reading", "hexital.core.indicator.Indicator._set_active_index",
    "hexital.core.candle_manager.CandleManager.append", "hexital.core.candle_manager.CandleManager.purge",
    "hexital.core.candle_manager.CandleManager._tasks", "hexital.core.hexital.Hexital.calculate", "hexital.core.hexital.Hexital.calculate_index",
    "hexital.core.hexital.Hexital.recalculate", "hexital.core.hexital.Hexital.purge", "hexital.core.hexital.Hexital.append",
    "hexital.core.hexital.Hexital.add_indicator", "hexital.core.hexital.Hexital.remove_indicator",
]


def _writer_stub(q):
    def stub(ex, st, args, kwargs, node):
        def gen():
            ex.ctx.oblige(st, "frame-write", f"modifies-nothing: a read-only function calls {q.split('hexital.core.')[-1]}", z3.BoolVal(False), node)
            yield st, None
        return gen()
    return stub


def run_task(source, contracts, loops, qualname, natives=None, timeout_ms=10000, force_inline=(), props=None,
             builder=None, extra_contract=None):
    """builder(ex, st) -> iterable of (st, args, kwargs, env_for_spec) overrides the default
    construction of symbolic arguments from contract.types"""
    res = TaskResult(qualname)
    res.describe = source.describe(qualname)
    contract = extra_contract or contracts.get(qualname)
    t0 = time.time()
    ctx = Ctx(source, contracts, loops)
    ctx.func = qualname
    ctx.props = list(props or (contract.props if contract else []))
    ctx.natives = dict(natives or {})
    ctx.force_inline = set(force_inline)
    ctx.raised = []
    if contract is not None and getattr(contract, "ground_rounds", None):
        ctx.ground_rounds = contract.ground_rounds
    if contract is not None and getattr(contract, "max_terms", None):
        ctx.max_terms = contract.max_terms
    if contract is not None and isinstance(contract.raises, dict):
        ctx.allowed_raises = {k: True for k in contract.raises}
    ex = Exec(ctx)
    r = source.function(qualname)
    if r is None:
        res.out_of_reach = "UNBOUND: function not found in the repository"
        return res
    module, cls, fnode, kind = r
    fv = FuncVal(module, fnode, cls)
    try:
        starts = []
        if builder is not None:
            st0 = State()
            st0.frames.append({"__module__": module})
            for item in builder(ex, st0):
                starts.append(item)
            if contract is None:
                contract = None
        else:
            params = [a.arg for a in fnode.args.posonlyargs + fnode.args.args + fnode.args.kwonlyargs]
            alts = []
            for p in params:
                ty = contract.types.get(p)
                if ty is None:
                    raise Unsupported(f"no type for parameter {p}")
                alts.append([(p, a) for a in make_symbolic(ex, None, p, ty)])
            for combo in itertools.product(*alts):
                st = State()
                st.frames.append({"__module__": module})
                env = {}
                for p, (v, assumes) in combo:
                    if v == "__series__":
                        v = new_series(st, p)
                    elif v == "__indicator__":
                        from .objects import instantiate
                        from .values import SInt

                        sref = new_series(st, "candles")
                        cls = source.module("hexital.indicators.ema").classes["EMA"]
                        outs = list(instantiate(ex, cls, [], {"candles": sref, "period": SInt(z3.Int("period"))}, st, None))
                        outs = [(s1, o) for s1, o in outs if ctx.feasible(s1)]
                        # the constructor forks on `if candles:`; both variants end with the same fields except
                        # for an empty list: keep the variant that adopted the given series
                        keep = [(s1, o) for s1, o in outs if s1.heap[o.oid].fields.get("candles") == sref]
                        if len(keep) != 1:
                            raise Unsupported("indicator construction did not yield one state")
                        st, v = keep[0]
                        st.assume(st.heap[sref.oid].length > 0)
                        st.heap[v.oid].fields["_active_index"] = SInt(z3.Int("active"))
                        env["__st__"] = st
                    elif v == "__symcandle__":
                        from .symdict import SymCandleP

                        v = st.alloc(SymCandleP(st, p))
                    elif v == "__symname__":
                        from .symdict import SKey

                        v = SKey(z3.Int(p))
                    elif v == "__candle__":
                        from .series import CandleAt

                        sref = new_series(st, p + ".list")
                        jj = z3.Int(p + ".pos")
                        st.assume(z3.And(jj >= 0, jj < st.heap[sref.oid].length))
                        st.inst_terms.append(("term", jj))
                        v = CandleAt(sref, jj)
                    env[p] = v
                    st = env.pop("__st__", st)
                    for a in assumes:
                        st.assume(a)
                starts.append((st, [env[p] for p in params], {}, env))
        res.variants = len(starts)
        for (st, args, kwargs, env) in starts:
            if contract is not None:
                for gname, gty in contract.ghost.items():
                    env[gname] = make_symbolic(ex, st, gname, gty)[0][0]
                ctx.ghost_env = dict(getattr(ctx, 'ghost_env', {}), **{g: env[g] for g in contract.ghost})
            if contract is not None and contract.setup is not None:
                contract.setup(ex, st, env)
            if contract is not None:
                contract.bind_lets(ex, st, env)
                ev = SpecEval(ex, st, env)
                for label, src in contract.requires.items():
                    assume_spec(ex, st, ev.ev(src), f"requires:{label}")
            if contract is not None:
                # the function's own read frame: every candle access in the body must stay inside it
                for (ser_src, lo_src, hi_src, cond_src) in contract.reads:
                    ev = SpecEval(ex, st, env)
                    ser = ev.ev(ser_src)
                    if isinstance(ser, vals.Ref) and isinstance(st.heap[ser.oid], SeriesP):
                        lo, hi = vals.to_int_term(ev.ev(lo_src)), vals.to_int_term(ev.ev(hi_src))
                        cond = vals.zbool(vals.truthy_term(ev.ev(cond_src), st.heap)) if cond_src else z3.BoolVal(True)
                        st.heap[ser.oid].read_frame = (z3.If(cond, lo, z3.IntVal(0)), z3.If(cond, hi, z3.IntVal(-1)))
            # ghost integers (list length, split points) and their neighbours are instantiation terms
            for gv in getattr(ctx, "ghost_env", {}).values():
                if isinstance(gv, vals.SInt):
                    for d in (-1, 0, 1):
                        st.inst_terms.append(("term", z3.simplify(gv.t + d)))
            if not ctx.feasible(st):
                # a contradictory precondition would make every obligation vacuous
                res.out_of_reach = "vacuous: precondition unsatisfiable"
                return res
            old_st = st.fork()
            ctx.base_state = old_st
            if contract is not None and contract.types and set(contract.types.values()) <= {"series", "name", "int", "int|None", "nat", "bool"}:
                from .replay import function_extractor

                ctx.extract = function_extractor(contract, env)
                ctx.extract_len = next((p + ".len" for p, ty in contract.types.items() if ty == "series"), "c.len")
            before = heap_snapshot(st)
            if contract is not None and contract.pure:
                # a read-only function must not reach one of the library's writers at all (their own contracts declare what
                # they modify: candle readings, candle lists, the indicator's bookkeeping); active only while the function under
                # contract runs, not while the task's objects are being built
                for w in WRITERS:
                    if w != qualname and w not in ctx.natives:
                        ctx.natives[w] = _writer_stub(w)
            for st1, value in ex.inline(fv, list(args), dict(kwargs), st, fnode):
                res.paths += 1
                if contract is None:
                    continue
                if contract.pure_args:
                    roots = [env[a] for a in contract.pure_args if isinstance(env.get(a), vals.Ref)]
                    reach = set()
                    todo = [r.oid for r in roots]
                    while todo:
                        o = todo.pop()
                        if o in reach or o not in before:
                            continue
                        reach.add(o)
                        kind, old = before[o]
                        vs = old if kind == "seq" else (list(old.values()) if kind == "map" else [])
                        todo += [v.oid for v in vs if isinstance(v, vals.Ref)]
                    ch = heap_changes({o: before[o] for o in reach}, st1)
                    ctx.oblige(st1, "frame-write", "arguments-unchanged" + (": " + "; ".join(ch) if ch else ""), z3.BoolVal(len(ch) == 0), fnode)
                if contract.pure:
                    ch = heap_changes(before, st1)
                    ctx.oblige(st1, "frame-write", "modifies-nothing" + (": " + "; ".join(ch) if ch else ""), z3.BoolVal(len(ch) == 0), fnode)
                env2 = dict(env)
                env2["result"] = value
                ev = SpecEval(ex, st1, env2, old_st)
                for label, src in contract.ensures.items():
                    props_l = None
                    oblige_spec(ex, st1, "post", label, ev.ev(src), fnode, props=props_l)
                if contract.returns is not None:
                    expect = ev.ev(contract.returns)
                    eq = vals.py_eq(value, expect, st1.heap)
                    ctx.oblige(st1, "post", "returns", eq, fnode)
    except Unsupported as e:
        res.out_of_reach = f"unsupported: {e}"
    except RecursionError:
        res.out_of_reach = "unsupported: recursion depth"
    except Exception as e:
        res.out_of_reach = f"engine-error: {type(e).__name__}: {e}\n{traceback.format_exc()[-1500:]}"
    res.gen_s = time.time() - t0
    res.edges = sorted(ctx.edges)
    res.assumptions = sorted(ctx.assumptions)
    t1 = time.time()
    seen = {}
    from .solve import solve_all

    res.obligations = solve_all(ctx, ctx.obligations, timeout_ms)
    res.solve_s = time.time() - t1
    res._ctx = ctx
    return res
