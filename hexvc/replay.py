"""Counter-model -> concrete input.  When an obligation of an indicator step is refuted, the z3 model is turned
into a concrete reproducer (constructor arguments, OHLCV of every candle, the user-supplied input column) that
hexvc/rtcheck.py --explicit runs against the REAL class.  Positions of the candle list that the ground query never
mentioned are unconstrained in the model; they are repaired to well-formed candles / inputs (the verdict is drawn
from the real run, so a repaired input can only lose a witness, never invent one)."""
from __future__ import annotations

from fractions import Fraction

import z3

from .series import keyname
from .values import V, SBool, SFloat, SInt, SNum, Tmpl

MAX_N = 300


def _q(v):
    if z3.is_rational_value(v):
        return Fraction(v.numerator_as_long(), v.denominator_as_long())
    if z3.is_int_value(v):
        return Fraction(v.as_long())
    if z3.is_algebraic_value(v):
        a = v.approx(20)
        return Fraction(a.numerator_as_long(), a.denominator_as_long())
    return None


def _pyV(m, term):
    """python value of a V term under the model (dict values come back as the marker {})"""
    ev = lambda t: m.eval(t, model_completion=True)
    if z3.is_true(ev(V.is_vnone(term))):
        return None
    if z3.is_true(ev(V.is_vbool(term))):
        return bool(z3.is_true(ev(V.bv(term))))
    if z3.is_true(ev(V.is_vnum(term))):
        q = _q(ev(V.nv(term)))
        if q is None:
            return None
        if z3.is_true(ev(V.isf(term))) or q.denominator != 1:
            return float(q)
        return int(q)
    return {}


def indicator_extractor(spec, variant, env, mode):
    """returns extract(model) -> JSON-able reproducer or None"""
    IntArr = lambda name, rng: z3.Array(name, z3.IntSort(), rng)

    def extract(m, ob=None):
        ev = lambda t: m.eval(t, model_completion=True)
        n = ev(z3.Int("c.len")).as_long()
        if n <= 0 or n > MAX_N:
            return None
        kwargs, inputs = {}, {}
        for pname, (ty, _c) in spec.params.items():
            if pname in spec.ctor.get("skip", ()):
                continue
            v = env.get(pname)
            if isinstance(v, SInt):
                kwargs[pname] = ev(v.t).as_long()
            elif isinstance(v, (SFloat, SNum)):
                q = _q(ev(v.t))
                kwargs[pname] = float(q) if q is not None else 1.0
            elif isinstance(v, SBool):
                kwargs[pname] = bool(z3.is_true(ev(v.t)))
            elif isinstance(v, bool) or isinstance(v, (int, float, str)):
                kwargs[pname] = v
            elif isinstance(v, Tmpl):
                dotted = len(v.parts) == 2 and v.parts[1] == ".val"
                main = Tmpl((v.parts[0],)) if dotted else v
                base = f"c.I[{keyname(main)}]"
                has, val = IntArr(base + ".has", z3.BoolSort()), IntArr(base + ".val", V)
                fld = IntArr(base + "/val", V)
                col = []
                for t in range(n):
                    if not z3.is_true(ev(has[t])):
                        col.append(None)
                    elif dotted:
                        col.append(_pyV(m, fld[t]))
                    else:
                        col.append(_pyV(m, val[t]))
                inputs[pname] = {"dotted": dotted, "values": col}
                kwargs[pname] = "@explicit"
            elif type(v).__name__ == "FuncVal":
                kwargs[pname] = "func:" + v.qualname
            else:
                return None
        candles = []
        arrs = {a: IntArr(f"c.{a}", z3.RealSort()) for a in ("open", "high", "low", "close", "volume")}
        visf = IntArr("c.volume.isf", z3.BoolSort())
        for t in range(n):
            row = []
            for a in ("open", "high", "low", "close", "volume"):
                q = _q(ev(arrs[a][t]))
                row.append(float(q) if q is not None else 1.0)
            if not z3.is_true(ev(visf[t])) and float(row[4]).is_integer():
                row[4] = int(row[4])
            candles.append(row)
        ghosts = {}
        for g in spec.ctor.get("skip", ()):
            v = env.get(g)
            if isinstance(v, SInt):
                ghosts[g] = ev(v.t).as_long()
        return {"class": spec.cls, "variant": {k: str(v) for k, v in variant.items()}, "kwargs": kwargs, "inputs": inputs,
                "candles": candles, "index": ev(z3.Int("i")).as_long(), "ghosts": ghosts,
                "mode": "batch" if mode == "calculate" else "recalc"}

    return extract


def function_extractor(contract, env):
    """reproducer for a refuted obligation of a function contract over (series, names, ints)"""
    from .series import SeriesP, CandleAt
    from .values import Ref, SOpt

    IntArr = lambda name, rng: z3.Array(name, z3.IntSort(), rng)

    def extract(m, ob=None):
        ev = lambda t: m.eval(t, model_completion=True)
        args, series_name = {}, None
        names = {}
        for pname, ty in contract.types.items():
            v = env.get(pname)
            if ty == "series":
                series_name = pname
                args[pname] = "@series"
            elif isinstance(v, Tmpl):
                names[pname] = v
                args[pname] = "@name:col_" + pname
            elif isinstance(v, str):
                args[pname] = v
            elif v is None:
                args[pname] = None
            elif isinstance(v, SInt):
                args[pname] = ev(v.t).as_long()
            elif isinstance(v, SBool):
                args[pname] = bool(z3.is_true(ev(v.t)))
            elif isinstance(v, SOpt) and isinstance(v.v, SInt):
                args[pname] = None if z3.is_true(ev(v.none)) else ev(v.v.t).as_long()
            else:
                return None
        if series_name is None:
            return None
        n = ev(z3.Int(f"{series_name}.len")).as_long()
        if n < 0 or n > MAX_N:
            return None
        rows = []
        arrs = {a: IntArr(f"{series_name}.{a}", z3.RealSort()) for a in ("open", "high", "low", "close", "volume")}
        for t in range(n):
            row = []
            for a in ("open", "high", "low", "close", "volume"):
                q = _q(ev(arrs[a][t]))
                row.append(float(q) if q is not None else 1.0)
            rows.append(row)
        columns = {}
        for pname, key in names.items():
            base = f"{series_name}.I[{keyname(key)}]"
            has, val = IntArr(base + ".has", z3.BoolSort()), IntArr(base + ".val", V)
            sbase = f"{series_name}.S[{keyname(key)}]"
            shas, sval = IntArr(sbase + ".has", z3.BoolSort()), IntArr(sbase + ".val", V)
            col = []
            for t in range(n):
                if z3.is_true(ev(has[t])):
                    col.append(_pyV(m, val[t]))
                elif z3.is_true(ev(shas[t])):
                    col.append(_pyV(m, sval[t]))
                else:
                    col.append("absent")
            columns["col_" + pname] = col
        return {"kind": "function", "function": contract.qualname, "args": args, "candles": rows, "columns": columns}

    extract.len_name = None
    return extract
