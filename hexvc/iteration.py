"""Loops, comprehensions and reducers (DESIGN.md section 3.4).

* a loop over a concrete sequence is unrolled (exact);
* a loop over a symbolic sequence is cut at the invariant given in the sidecar;
* comprehensions / generator expressions over a symbolic sequence are summarised:
  sum -> uninterpreted Sigma with unfolding axioms instantiated by the engine,
  min/max -> bounds-all + attained axioms, any/all -> skolemised bounded quantifier,
  list -> abstract list.  These summarisation rules are trusted meta-theory (E2).
"""
from __future__ import annotations

import ast

import z3

from . import values as vals
from .series import CandleAt, SeriesP, SliceView
from .state import DictP, ListP, ObjP, QAssume, SetP, fresh_name
from .values import (
    PathDead,
    Ref,
    SBool,
    SFloat,
    SInt,
    SNum,
    SV,
    Unsupported,
    V,
    concretize,
    to_int_term,
    to_real_term,
    to_V,
    wrap_bool,
    zand,
    zbool,
    znot,
    zor,
)


class RangeV:
    pyclass = "range"

    def __init__(self, lo, hi, step):
        self.lo, self.hi, self.step = lo, hi, step


class Space:
    """iteration space: either a concrete python list of values, or n symbolic elements"""

    def __init__(self, concrete=None, n=None, elem=None, keep=None, span=None, nonempty=None):
        self.concrete = concrete
        self.n = n
        self.elem = elem
        self.keep = keep
        self.span = span  # (series ref, fn k -> candle position) when elements are candles
        self.nonempty = nonempty


def space_of(ex, st, v):
    sp = _space_of(ex, st, v)
    bound = getattr(ex.ctx, "cost_bound", None)
    if bound is not None and sp.concrete is None and not getattr(sp, "_costed", False) and not isinstance(v, Space):
        # C07: every iteration space met while computing one reading is bounded by the declared window,
        # a term over the indicator's parameters in which len(candles) does not occur
        sp._costed = True
        ex.ctx.oblige(st, "cost", f"iteration space of {type(v).__name__} within the window bound", sp.n <= bound, None, props=["C07"])
    return sp


def _space_of(ex, st, v):
    from .exec import AList, GenVal, TupleV

    if isinstance(v, Space):
        return v
    if isinstance(v, TupleV):
        return Space(concrete=list(v))
    if isinstance(v, RangeV):
        lo, hi, step = v.lo, v.hi, v.step
        if all(isinstance(x, int) for x in (lo, hi, step)):
            return Space(concrete=list(range(lo, hi, step)))
        if step in (1, -1):
            # a range whose length is a solver-visible constant is unrolled (exact)
            lt, ht = to_int_term(lo), to_int_term(hi)
            d = z3.simplify((ht - lt) if step == 1 else (lt - ht))
            if z3.is_int_value(d) and d.as_long() <= 8:
                cnt = max(0, d.as_long())
                return Space(concrete=[concretize(SInt(z3.simplify(lt + step * k))) for k in range(cnt)])
        if step == 1:
            lt, ht = to_int_term(lo), to_int_term(hi)
            n = z3.simplify(z3.If(ht > lt, ht - lt, 0))
            return Space(n=n, elem=lambda k: concretize(SInt(lt + k)), span=(None, lambda k: lt + k))
        if step == -1:
            lt, ht = to_int_term(lo), to_int_term(hi)
            n = z3.simplify(z3.If(lt > ht, lt - ht, 0))
            return Space(n=n, elem=lambda k: concretize(SInt(lt - k)), span=(None, lambda k: lt - k))
        raise Unsupported("range step")
    if isinstance(v, Ref):
        p = st.heap[v.oid]
        if isinstance(p, (ListP, SetP)):
            return Space(concrete=list(p.items))
        if isinstance(p, DictP):
            return Space(concrete=list(p.items.keys()))
        if isinstance(p, SeriesP):
            return Space(n=p.length, elem=lambda k: CandleAt(v, k), span=(v, lambda k: k))
        if hasattr(p, "space"):
            return p.space(v, ex, st)
    if isinstance(v, SliceView):
        n = z3.simplify(z3.If(v.hi > v.lo, v.hi - v.lo, 0))
        return Space(n=n, elem=lambda k: CandleAt(v.series, z3.simplify(v.lo + k)), span=(v.series, lambda k: v.lo + k))
    if isinstance(v, AList):
        return Space(n=v.n, elem=v.elem, keep=v.keep, span=v.span, nonempty=getattr(v, 'nonempty', None))
    if isinstance(v, GenVal):
        return gen_space(ex, st, v)
    if hasattr(v, "space"):
        return v.space(ex, st)
    raise Unsupported(f"iteration over {v!r}")


def reversed_space(sp):
    if sp.concrete is not None:
        return Space(concrete=list(reversed(sp.concrete)))
    n = sp.n
    return Space(
        n=n,
        elem=lambda k: sp.elem(z3.simplify(n - 1 - k)),
        keep=(None if sp.keep is None else (lambda k: sp.keep(z3.simplify(n - 1 - k)))),
        span=None if sp.span is None else (sp.span[0], lambda k: sp.span[1](n - 1 - k)),
    )


def enumerate_space(sp, start=0):
    from .exec import TupleV

    if sp.concrete is not None:
        return Space(concrete=[TupleV((i + start, x)) for i, x in enumerate(sp.concrete)])
    if sp.keep is not None:
        raise Unsupported("enumerate of filtered symbolic list")
    return Space(n=sp.n, elem=lambda k: TupleV((concretize(SInt(k + start)), sp.elem(k))), span=sp.span)


# ---------------------------------------------------------------------------- summarising a body


def merge_values(pairs, heap):
    """pairs: [(cond z3/bool, value)] covering the path; returns one value"""
    if len(pairs) == 1:
        return pairs[0][1]
    vs = [v for _, v in pairs]
    if all(isinstance(v, (bool, SBool)) for v in vs):
        t = zor(*[zand(zbool(c), vals.to_bool_term(v)) for c, v in pairs])
        return wrap_bool(t)
    if all(isinstance(v, (int, SInt)) and not isinstance(v, bool) for v in vs):
        t = to_int_term(vs[-1])
        for c, v in reversed(pairs[:-1]):
            t = z3.If(zbool(c), to_int_term(v), t)
        return SInt(t)
    # Optional[T]: None on some paths, one numeric class on the others (values may themselves be Optional)
    norm = []
    for c, v in pairs:
        if v is None:
            norm.append((c, True, None))
        elif isinstance(v, vals.SOpt):
            norm.append((c, v.none, v.v))
        else:
            norm.append((c, False, v))
    classes = set(vals.num_class(v) for _, _, v in norm if v is not None)
    if len(classes) == 1 and None not in classes and any(not (isinstance(nn, bool) and not nn) for _, nn, _ in norm):
        cls = classes.pop()

        def build(idx):
            c, nn, v = norm[idx]
            if idx == len(norm) - 1:
                return zbool(nn), v
            rest_none, rest_val = build(idx + 1)
            none_t = z3.If(zbool(c), zbool(nn), rest_none)
            if v is None:
                val_t = rest_val
            elif rest_val is None:
                val_t = v
            elif cls == "int":
                val_t = SInt(z3.If(zbool(c), to_int_term(v), to_int_term(rest_val)))
            elif cls == "bool":
                val_t = SBool(z3.If(zbool(c), vals.to_bool_term(v), vals.to_bool_term(rest_val)))
            elif cls == "float":
                val_t = SFloat(z3.If(zbool(c), to_real_term(v), to_real_term(rest_val)))
            else:
                val_t = SNum(z3.If(zbool(c), to_real_term(v), to_real_term(rest_val)),
                             z3.If(zbool(c), vals.isfloat_term(v), vals.isfloat_term(rest_val)))
            return none_t, val_t

        none_t, val_t = build(0)
        return vals.mk_opt(none_t, concretize(val_t) if val_t is not None else None)
    t = to_V(vs[-1], heap)
    for c, v in reversed(pairs[:-1]):
        t = z3.If(zbool(c), to_V(v, heap), t)
    return vals.from_V_term(t)


def summarise(ex, st, k, bind, expr, extra_assume=None):
    """evaluate `expr` once for a symbolic element index k (fresh Int const), in a scratch copy
    of the state; all paths are merged into one value.  Obligations raised inside are kept
    (they carry 0 <= k < n in their path condition).  Heap writes inside are not supported."""
    scratch = st.fork()
    base = len(scratch.pc)
    if extra_assume is not None:
        scratch.assume(extra_assume)
    base2 = len(scratch.pc)
    bind(scratch)
    gens = {oid: getattr(p, "gen", None) for oid, p in scratch.heap.items()}
    pairs = []
    for st1, v in ex.eval(expr, scratch):
        for oid, p in st1.heap.items():
            if oid in gens and getattr(p, "gen", None) != gens[oid]:
                raise Unsupported("side effect inside summarised comprehension")
        cond = zand(*st1.pc[base2:]) if len(st1.pc) > base2 else True
        pairs.append((cond, v))
    if not pairs:
        raise PathDead()
    return merge_values(pairs, scratch.heap), scratch


def comp_parts(node):
    if len(node.generators) != 1:
        raise Unsupported("nested comprehension")
    g = node.generators[0]
    if g.is_async:
        raise Unsupported("async comprehension")
    return g.target, g.iter, g.ifs


def bind_target(ex, tgt, v, st):
    out = list(ex.assign(tgt, v, st))
    if len(out) != 1:
        raise Unsupported("forking target binding")


def gen_space(ex, st, gv):
    """iteration space of a generator expression / comprehension (lazy: body evaluated per k)"""
    node = gv.node
    tgt, it, ifs = comp_parts(node)
    elt = node.elt
    # evaluate the iterable in the defining frame
    saved = st.frames
    outs = list(ex.eval(it, st))
    if len(outs) != 1:
        raise Unsupported("forking iterable")
    st1, itv = outs[0]
    sp = space_of(ex, st1, itv)
    if sp.concrete is not None:
        vals_out = []
        for x in sp.concrete:
            frame_backup = dict(st.frames[-1])
            bind_target(ex, tgt, x, st)
            ok = True
            for cnd in ifs:
                r = list(ex.eval(cnd, st))
                if len(r) != 1:
                    raise Unsupported("forking filter in concrete comprehension")
                t = ex.truthy(st, r[0][1])
                if not isinstance(t, bool):
                    t2 = z3.simplify(t)
                    if z3.is_true(t2):
                        t = True
                    elif z3.is_false(t2):
                        t = False
                    else:
                        raise Unsupported("symbolic filter in concrete comprehension")
                if not t:
                    ok = False
                    break
            if ok:
                r = list(ex.eval(elt, st))
                if len(r) != 1:
                    # merge forked element values
                    raise Unsupported("forking element in concrete comprehension")
                vals_out.append(r[0][1])
        return Space(concrete=vals_out)

    cache = {}
    # the body is evaluated lazily (per index term); it must see the state as of *now*
    st = st.fork()

    def at(k):
        key = z3.simplify(k).sexpr() if not isinstance(k, int) else str(k)
        if key in cache:
            return cache[key]
        kt = k if not isinstance(k, int) else z3.IntVal(k)
        rng = z3.And(kt >= 0, kt < sp.n)
        keep_u = sp.keep(kt) if sp.keep is not None else True

        def bind(s):
            bind_target(ex, tgt, sp.elem(kt), s)

        keep = keep_u
        if ifs:
            test = ifs[0] if len(ifs) == 1 else ast.BoolOp(op=ast.And(), values=list(ifs))
            ast.fix_missing_locations(test)
            fv, sc = summarise(ex, st, kt, bind, test, extra_assume=zand(rng, zbool(keep_u)))
            keep = zand(zbool(keep_u), zbool(ex.truthy(sc, fv)))
        v, sc = summarise(ex, st, kt, bind, elt, extra_assume=zand(rng, zbool(keep)))
        cache[key] = (v, keep)
        return cache[key]

    return Space(
        n=sp.n,
        elem=lambda k: at(k)[0],
        keep=(lambda k: zbool(at(k)[1])) if (ifs or sp.keep is not None) else None,
        span=sp.span,
    )


def eval_comprehension(ex, node, st, kind):
    from .exec import AList, GenVal

    if kind == "dict":
        fake = ast.GeneratorExp(elt=ast.Tuple(elts=[node.key, node.value], ctx=ast.Load()), generators=node.generators)
        ast.copy_location(fake, node)
        ast.fix_missing_locations(fake)
        sp = gen_space(ex, st, GenVal(fake, len(st.frames) - 1))
        if sp.concrete is None:
            raise Unsupported("symbolic dict comprehension")
        d = {}
        for kv in sp.concrete:
            d[ex.hashkey(kv[0])] = kv[1]
        yield st, st.alloc(DictP(d))
        return
    sp = gen_space(ex, st, GenVal(node, len(st.frames) - 1))
    if sp.concrete is not None:
        if kind == "set":
            out = []
            for v in sp.concrete:
                if not any(ex.key_same(v, o) for o in out):
                    out.append(v)
            yield st, st.alloc(SetP(out))
        else:
            yield st, st.alloc(ListP(sp.concrete))
        return
    if kind == "set":
        raise Unsupported("symbolic set comprehension")
    ne = None
    if sp.keep is not None:
        from .counting import make_nonempty

        ne = make_nonempty(ex, st, sp.n, sp.keep)
    yield st, AList(sp.n, sp.elem, sp.keep, sp.span, ne)


# ---------------------------------------------------------------------------- reducers


class SumSym:
    def __init__(self, name, body):
        self.fn = z3.Function(name, z3.IntSort(), z3.IntSort(), z3.RealSort())
        self._body = body  # k -> z3 Real term
        self.name = name
        self._cache = {}

    def body(self, k):
        kid = k.get_id()
        r = self._cache.get(kid)
        if r is None:
            r = (self._body(k), k)
            self._cache[kid] = r
        return r[0]


def find_or_make_sum(ex, st, body, lo, hi):
    """Returns the z3 term for sum_{lo <= k < hi} body(k).

    Sigma symbols are shared between code and specification when their bodies are provably
    equal under the current path condition (extensionality, checked by the solver), also up to
    a shift or a reflection of the summation index (sum_{k} f(k) = sum_{k} f(k - d) shifted,
    = sum_{k} f(c - k) reflected)."""
    from .solve import check, free_symbols
    from .state import Obligation

    ctx = ex.ctx
    if not hasattr(ctx, "sums"):
        ctx.sums = []
    j = z3.Int(fresh_name("sj"))
    bj = z3.simplify(body(j))
    for ss in ctx.sums:
        rj = z3.simplify(ss.body(j))
        if bj.eq(rj):
            ensure_sign(ex, st, ss, lo, hi)
            return ss.fn(lo, hi)
    # inside grounding (lazy instantiation of a quantified hypothesis) only the syntactic match is
    # used: a semantic match would re-enter the grounding of the same hypotheses
    if not getattr(ctx, "_grounding", 0):
        fa = free_symbols(bj) - {j.decl().name()}
        for ss in ctx.sums:
            fb = free_symbols(ss.body(j)) - {j.decl().name()}
            if not (fa & fb) and (fa or fb):
                continue
            same_len = (hi - lo) == (ss.hi - ss.lo)
            d = z3.simplify(lo - ss.lo)
            c = z3.simplify(lo + ss.hi - 1)
            tries = [("same", ss.body(j), z3.BoolVal(True))]
            if not (z3.is_int_value(d) and d.as_long() == 0):
                tries.append(("shift", ss.body(z3.simplify(j - d)), same_len))
            tries.append(("reflect", ss.body(z3.simplify(c - j)), same_len))
            for how, other, side in tries:
                goal = z3.And(side, z3.Implies(z3.And(lo <= j, j < hi), bj == other))
                ob = Obligation(id="sigma-match", kind="lemma", func=ctx.func, label="sigma-extensionality", pc=list(st.pc),
                                goal=goal, qassumes=list(st.qassumes), sums=[("term", j)])
                r = check(ob, ctx, timeout_ms=500, want_model=False, use_cvc5=False, wall_ms=600000, rlimit=2500000)
                if r["status"] == "unsat":
                    ctx.sigma_matches = getattr(ctx, "sigma_matches", 0) + 1
                    if how == "same":
                        ensure_sign(ex, st, ss, lo, hi)
                        return ss.fn(lo, hi)
                    ensure_sign(ex, st, ss, ss.lo, ss.hi)
                    return ss.fn(ss.lo, ss.hi)
    ss = SumSym(fresh_name("Sigma"), body)
    ss.lo, ss.hi = lo, hi
    ctx.sums.append(ss)
    ensure_sign(ex, st, ss, lo, hi)
    return ss.fn(lo, hi)


def ensure_sign(ex, st, ss, lo, hi):
    """E2 rule: a sum of positive (non-negative) terms over a non-empty range is positive
    (non-negative).  The sign of the body is proved under the hypotheses of the current path and
    the conclusion (about this one application) is added to this path only."""
    from .solve import check
    from .state import Obligation

    ctx = ex.ctx
    if getattr(ctx, "_grounding", 0):
        return
    j = z3.Int(fresh_name("sj"))
    bj = ss.body(j)
    app = ss.fn(lo, hi)
    key = ("sign", app.get_id())
    if st.ghost.get(key):
        return
    st.ghost[key] = True
    for how, rel in (("zero", bj == 0), ("positive", bj > 0), ("nonneg", bj >= 0)):
        ob = Obligation(id="sigma-sign", kind="lemma", func=ctx.func, label="sigma-sign", pc=list(st.pc),
                        goal=z3.Implies(z3.And(lo <= j, j < hi), rel), qassumes=list(st.qassumes), sums=[("term", j)])
        r = check(ob, ctx, timeout_ms=500, want_model=False, use_cvc5=False, wall_ms=600000, rlimit=1000000)
        if r["status"] == "unsat":
            if how == "zero":
                st.assume(app == 0)
            elif how == "positive":
                st.assume(z3.And(app >= 0, z3.Implies(lo < hi, app > 0)))
            elif how == "nonneg":
                st.assume(app >= 0)
            else:
                st.assume(app <= 0)
            break


def canonical_range(sp, body):
    """re-index a summation over the candle positions (or loop variable values) its elements come from, so
    that code and specification sums over the same window get syntactically equal bodies"""
    lo, hi = z3.IntVal(0), sp.n
    span = getattr(sp, "span", None)
    if span is not None:
        pos = span[1]
        d0 = z3.simplify(to_int_term(pos(z3.IntVal(0))))
        d1 = z3.simplify(to_int_term(pos(z3.IntVal(1))) - d0)
        rel = body
        if z3.is_int_value(d1) and d1.as_long() == 1:
            lo, hi = d0, z3.simplify(d0 + sp.n)
            body = lambda j, rel=rel, d0=d0: rel(z3.simplify(j - d0))
        elif z3.is_int_value(d1) and d1.as_long() == -1:
            lo, hi = z3.simplify(d0 - sp.n + 1), z3.simplify(d0 + 1)
            body = lambda j, rel=rel, d0=d0: rel(z3.simplify(d0 - j))
    return lo, hi, body


def reduce_sum(ex, st, sp, node):
    if sp.concrete is not None:
        acc = 0
        for v in sp.concrete:
            acc = vals.binop("+", acc, v, ex.needer(st, node))
        return acc
    # every kept element must be a number
    k = z3.Int(fresh_name("k"))
    rng = z3.And(k >= 0, k < sp.n)
    ek = sp.elem(k)
    keep = sp.keep(k) if sp.keep is not None else True
    if isinstance(ek, SV):
        ex.ctx.oblige(st, "noraise:TypeError", f"sum element @ {ast.unparse(node)[:50]}",
                      z3.Implies(zand(rng, zbool(keep)), vals.v_is_numlike(ek.t)), node)
    elif ek is None or isinstance(ek, (Ref, str)):
        ex.ctx.oblige(st, "noraise:TypeError", f"sum element @ {ast.unparse(node)[:50]}",
                      z3.Not(zand(rng, zbool(keep))), node)

    def body(kk):
        e = sp.elem(kk)
        kp = sp.keep(kk) if sp.keep is not None else True
        if e is None or isinstance(e, (Ref, str)):
            return z3.RealVal(0)
        return z3.If(zbool(kp), to_real_term(e), z3.RealVal(0)) if not (isinstance(kp, bool) and kp) else to_real_term(e)

    lo, hi, body = canonical_range(sp, body)
    t = find_or_make_sum(ex, st, body, lo, hi)
    isf = z3.Bool(fresh_name("sum.isf"))
    return SNum(t, isf)


class ExtSym:
    def __init__(self, name, body, is_max):
        self.val = z3.Function(name, z3.IntSort(), z3.IntSort(), z3.RealSort())
        self.wit = z3.Function(name + ".at", z3.IntSort(), z3.IntSort(), z3.IntSort())
        self.body = body
        self.is_max = is_max


def reduce_minmax(ex, st, sp, is_max, node, default=None, has_default=False):
    if sp.concrete is not None:
        items = sp.concrete
        if not items:
            if has_default:
                return default
            ex.need(st, False, "ValueError", node)
            raise PathDead()
        acc = items[0]
        for v in items[1:]:
            acc = pair_minmax(ex, st, acc, v, is_max, node)
        return acc
    if sp.keep is not None:
        # extremum of the elements that pass the filter; raises ValueError when there is none
        from .counting import make_nonempty

        ne = sp.nonempty if sp.nonempty is not None else make_nonempty(ex, st, sp.n, sp.keep)
        if has_default:
            raise Unsupported("min/max default over filtered sequence (use minmax_filtered)")
        ex.need(st, ne, "ValueError", node)
        kk = z3.Int(fresh_name("k"))
        ek2 = sp.elem(kk)
        if isinstance(ek2, SV):
            ex.ctx.oblige(st, "noraise:TypeError", f"min/max element @ {ast.unparse(node)[:50]}",
                          z3.Implies(z3.And(kk >= 0, kk < sp.n, zbool(sp.keep(kk))), vals.v_is_numlike(ek2.t)), node)
        m = z3.Real(fresh_name("ext"))
        w = z3.Int(fresh_name("w"))
        st.inst_terms.append(("term", w))
        st.assume(z3.And(w >= 0, w < sp.n, zbool(sp.keep(w)), m == to_real_term(sp.elem(w))))
        rel = (lambda a, b: a >= b) if is_max else (lambda a, b: a <= b)
        st.qassumes.append(QAssume(lambda j: z3.Implies(z3.And(j >= 0, j < sp.n, zbool(sp.keep(j))), rel(m, to_real_term(sp.elem(j)))), "filtered-extremum-bounds-all"))
        return SNum(m, z3.Bool(fresh_name("ext.isf")))
    k = z3.Int(fresh_name("k"))
    rng = z3.And(k >= 0, k < sp.n)
    ek = sp.elem(k)
    if isinstance(ek, SV):
        ex.ctx.oblige(st, "noraise:TypeError", f"min/max element @ {ast.unparse(node)[:50]}",
                      z3.Implies(rng, vals.v_is_numlike(ek.t)), node)
    elif not vals.is_numeric_static(ek):
        raise Unsupported("min/max of non numeric sequence")
    if not has_default:
        ex.need(st, sp.n > 0, "ValueError", node)
    else:
        raise Unsupported("min/max default over symbolic sequence")
    # quantify over the values of the loop variable (candle positions) when known: instantiation at candle
    # positions then hits the right instances, and code / specification extrema over one window coincide
    lo, hi, body_abs = canonical_range(sp, lambda kk: to_real_term(sp.elem(kk)))
    es = ExtSym(fresh_name("Max" if is_max else "Min"), body_abs, is_max)
    if not hasattr(ex.ctx, "exts"):
        ex.ctx.exts = []
    ex.ctx.exts.append(es)
    t = es.val(lo, hi)
    # attained
    w = es.wit(lo, hi)
    st.assume(z3.And(w >= lo, w < hi, t == es.body(w)))
    st.inst_terms.append(("term", w))
    st.qassumes.append(
        QAssume(lambda j, es=es, lo=lo, hi=hi, t=t: z3.Implies(z3.And(j >= lo, j < hi), (t >= es.body(j)) if es.is_max else (t <= es.body(j))),
                "extremum-bounds-all")
    )
    if isinstance(ek, SFloat):
        return SFloat(t)
    return SNum(t, z3.Bool(fresh_name("ext.isf")))


def pair_minmax(ex, st, a, b, is_max, node):
    need = ex.needer(st, node)
    a = vals.num_coerce(a, need)
    b = vals.num_coerce(b, need)
    if not vals.is_sym(a) and not vals.is_sym(b):
        return max(a, b) if is_max else min(a, b)
    inty = lambda x: isinstance(x, (bool, int, SInt, SBool))
    if inty(a) and inty(b):
        x, y = to_int_term(a), to_int_term(b)
        return SInt(z3.If(x >= y, x, y) if is_max else z3.If(x <= y, x, y))
    x, y = to_real_term(a), to_real_term(b)
    t = z3.If(x >= y, x, y) if is_max else z3.If(x <= y, x, y)
    fa, fb = vals.isfloat_term(a), vals.isfloat_term(b)
    if z3.is_true(z3.simplify(z3.And(fa, fb))):
        return SFloat(t)
    isf = z3.If(x >= y, fa, fb) if is_max else z3.If(x <= y, fa, fb)
    return SNum(t, z3.simplify(isf))


def reduce_anyall(ex, st, sp, is_any, node):
    if sp.concrete is not None:
        ts = [zbool(ex.truthy(st, v)) for v in sp.concrete]
        if not ts:
            return not is_any
        return wrap_bool(zor(*ts) if is_any else zand(*ts))
    r = z3.Bool(fresh_name("any" if is_any else "all"))
    w = z3.Int(fresh_name("w"))

    def holds_rel(k):
        kp = sp.keep(k) if sp.keep is not None else True
        return zand(zbool(kp), zbool(ex.truthy(st, sp.elem(k)))) if is_any else z3.Implies(zbool(kp), zbool(ex.truthy(st, sp.elem(k))))

    # quantify over the values the loop variable takes (candle positions) when they are known, so that the
    # engine's instantiation at candle positions hits the right instances
    lo, hi, holds = canonical_range(sp, holds_rel)
    rng = lambda j: z3.And(j >= lo, j < hi)
    if is_any:
        st.assume(z3.Implies(r, z3.And(rng(w), zbool(holds(w)))))
        st.qassumes.append(QAssume(lambda j: z3.Implies(z3.And(rng(j), zbool(holds(j))), r), "any-intro"))
    else:
        st.assume(z3.Implies(z3.Not(r), z3.And(rng(w), z3.Not(zbool(holds(w))))))
        st.qassumes.append(QAssume(lambda j: z3.Implies(z3.And(rng(j), r), zbool(holds(j))), "all-elim"))
    st.inst_terms.append(("term", w))
    return SBool(r)


# ---------------------------------------------------------------------------- statements


def loop_key(ex, st, node):
    fn = st.frames[-1].get("__func__", ex.ctx.func)
    return fn, node.lineno


def find_loop_spec(ex, st, node):
    """loop specs are keyed by (function qualname, ordinal of the loop in that function)"""
    fn = st.frames[-1].get("__func__") or ex.ctx.func
    r = ex.ctx.source.function(fn) if fn and "<locals>" not in fn else None
    if r is None:
        return None
    fnode = r[2]
    loops = [n for n in ast.walk(fnode) if isinstance(n, (ast.For, ast.While))]
    loops.sort(key=lambda n: (n.lineno, n.col_offset))
    for i, n in enumerate(loops):
        if n.lineno == node.lineno and n.col_offset == node.col_offset:
            return ex.ctx.loops.get((fn, i))
    return None


def exec_for(ex, node, st):
    from .exec import Signal

    if node.orelse:
        raise Unsupported("for-else")
    for st1, itv in ex.eval(node.iter, st):
        sp = space_of(ex, st1, itv)
        if sp.concrete is not None:
            yield from unroll(ex, node, st1, sp.concrete, 0)
        else:
            spec = find_loop_spec(ex, st1, node)
            if spec is None:
                raise Unsupported(f"loop at line {node.lineno} needs an invariant")
            from .loops import exec_symbolic_for

            yield from exec_symbolic_for(ex, node, st1, sp, spec)


def unroll(ex, node, st, items, i):
    from .exec import Signal

    if i >= len(items):
        yield st, Signal.NEXT
        return
    for st0 in ex.assign(node.target, items[i], st):
        for st1, sig in ex.exec_block(node.body, st0):
            if sig[0] in ("next", "continue"):
                yield from unroll(ex, node, st1, items, i + 1)
            elif sig[0] == "break":
                yield st1, Signal.NEXT
            else:
                yield st1, sig


def exec_while(ex, node, st):
    from .exec import Signal

    if node.orelse:
        raise Unsupported("while-else")
    spec = find_loop_spec(ex, st, node)
    if spec is None:
        raise Unsupported(f"while loop at line {node.lineno} needs an invariant")
    from .loops import exec_symbolic_while

    yield from exec_symbolic_while(ex, node, st, spec)
