"""Concrete (run-time) evaluation of the specification language on REAL objects.

The same specification strings that the symbolic evaluator (contracts.SpecEval) turns into z3 terms are
evaluated here on real candles produced by the real code: python `eval` of the AST-transformed expression in
a namespace of total, three-valued helper functions.  Used for
  * replaying a counter-model of a refuted obligation against the real code (replay.py), and
  * the run-time contract cross-check (rtcheck.py): every class invariant that the engine proves is also
    checked on real runs, which guards the engine itself (an unsound proof shows up as a clause that is
    "proved" and violated at run time).

Semantics (deliberately conservative: a verdict is only ever drawn from a DEFINITE False):
  * numbers are exact rationals (floats converted exactly): the specification is about reals (A1);
  * Kleene logic with values True / False / None (uncertain).  A comparison of two numbers that differ by
    less than a relative 1e-9 (but are not identical) is uncertain - float noise of the real computation;
  * anything unspecified in the symbolic semantics (num(None), x/0, Rd outside the list, MinOf of an empty
    range ...) is the poison value UNK: every comparison with it is uncertain.
"""
from __future__ import annotations

import ast
import math
from fractions import Fraction

PRICE = ("open", "high", "low", "close", "volume")


class _Unk:
    def __repr__(self):
        return "UNK"

    def _u(self, *a):
        return self

    __add__ = __radd__ = __sub__ = __rsub__ = __mul__ = __rmul__ = __truediv__ = __rtruediv__ = _u
    __neg__ = __abs__ = __pow__ = __rpow__ = __floordiv__ = __rfloordiv__ = __mod__ = __rmod__ = _u


UNK = _Unk()
REL_TOL = Fraction(1, 10**9)
MAG_TOL = Fraction(1, 10**12)


class N:
    """an exact rational together with what is needed to judge it against a FLOAT computation of the same quantity:
    `mag` - the largest magnitude met while computing it (float error scales with it), `exact` - no float arithmetic
    was involved (raw stored values, integers and integer arithmetic)"""

    __slots__ = ("v", "mag", "exact")

    def __init__(self, v, mag=None, exact=True):
        self.v = Fraction(v)
        self.mag = abs(self.v) if mag is None else max(mag, abs(self.v))
        self.exact = exact

    def __repr__(self):
        return f"N({float(self.v)!r}{'' if self.exact else '~'})"

    # the specification strings only combine numbers through the transformed operators; these are for python builtins
    def __index__(self):
        if self.v.denominator != 1:
            raise TypeError("not an integer")
        return int(self.v)

    def __int__(self):
        return int(self.v)

    def __float__(self):
        return float(self.v)

    def __hash__(self):
        return hash(self.v)

    def __eq__(self, o):
        return isinstance(o, N) and o.v == self.v or (not isinstance(o, N) and o == self.v)

    def __lt__(self, o):
        return self.v < (o.v if isinstance(o, N) else o)

    def __le__(self, o):
        return self.v <= (o.v if isinstance(o, N) else o)

    def __gt__(self, o):
        return self.v > (o.v if isinstance(o, N) else o)

    def __ge__(self, o):
        return self.v >= (o.v if isinstance(o, N) else o)

    def __add__(self, o):
        return k_bin("+", self, o)

    __radd__ = lambda self, o: k_bin("+", o, self)

    def __sub__(self, o):
        return k_bin("-", self, o)

    __rsub__ = lambda self, o: k_bin("-", o, self)

    def __neg__(self):
        return N(-self.v, self.mag, self.exact)

    def __abs__(self):
        return N(abs(self.v), self.mag, self.exact)


class SpecError(Exception):
    pass


def is_num(v):
    return isinstance(v, (int, float, Fraction, N)) and not isinstance(v, bool)


def to_q(v):
    """exact rational (class N) of a python number (bool counts as 0/1), UNK otherwise"""
    if isinstance(v, N):
        return v
    if isinstance(v, bool):
        return N(int(v))
    if isinstance(v, (int, Fraction)):
        return N(v)
    if isinstance(v, float):
        if math.isnan(v) or math.isinf(v):
            return UNK
        return N(Fraction(v))
    return UNK


def k_not(a):
    return None if a is None else (not a)


def k_truth(v):
    """python truthiness as a Kleene value"""
    if v is UNK:
        return None
    if v is None:
        return False
    if isinstance(v, bool):
        return v
    if isinstance(v, N):
        return v.v != 0
    if isinstance(v, (int, float, Fraction)):
        return v != 0
    if isinstance(v, (dict, list, tuple, str)):
        return len(v) > 0
    if isinstance(v, K):
        return v.v
    return True


class K:
    """a Kleene truth value that refuses to be used as a python bool by accident"""

    __slots__ = ("v",)

    def __init__(self, v):
        self.v = v

    def __bool__(self):
        raise SpecError("Kleene value used as a python bool")

    def __repr__(self):
        return f"K({self.v})"


def kv(x):
    """Kleene value of anything"""
    if isinstance(x, K):
        return x.v
    return k_truth(x)


def k_and(*thunks):
    unc = False
    for t in thunks:
        v = kv(t())
        if v is False:
            return K(False)
        if v is None:
            unc = True
    return K(None if unc else True)


def k_or(*thunks):
    unc = False
    for t in thunks:
        v = kv(t())
        if v is True:
            return K(True)
        if v is None:
            unc = True
    return K(None if unc else False)


def k_ite(c, a, b):
    v = kv(c)
    if v is True:
        return a()
    if v is False:
        return b()
    return UNK


def _cmp_num(op, a, b):
    """a, b: N.  Definite only when the difference is clearly larger than what float arithmetic of the real code can
    account for: relative 1e-9 of the compared values plus 1e-12 of the largest magnitude met while computing them;
    two identical values are a definite tie only if neither involved float arithmetic (raw readings, integers)"""
    exact = a.exact and b.exact
    if a.v == b.v:
        if not exact:
            return None
        d = 0
    else:
        tol = REL_TOL * max(1, abs(a.v), abs(b.v))
        if not exact:
            tol += MAG_TOL * max(a.mag, b.mag)
        if abs(a.v - b.v) <= tol:
            return None
        d = -1 if a.v < b.v else 1
    return {"<": d < 0, "<=": d <= 0, ">": d > 0, ">=": d >= 0, "==": d == 0, "!=": d != 0}[op]


def k_cmp1(op, a, b):
    if isinstance(a, K):
        a = a.v
        if a is None:
            return None
    if isinstance(b, K):
        b = b.v
        if b is None:
            return None
    if op in ("is", "is not"):
        if a is UNK or b is UNK:
            return None
        if a is None or b is None or isinstance(a, bool) or isinstance(b, bool):
            r = a is b
        else:
            r = a is b or (type(a) is type(b) and a == b)
        return r if op == "is" else not r
    if a is UNK or b is UNK:
        return None
    if op in ("==", "!="):
        if a is None or b is None:
            r = a is None and b is None
        elif isinstance(a, (bool, int, float, Fraction, N)) and isinstance(b, (bool, int, float, Fraction, N)):
            qa, qb = to_q(a), to_q(b)
            if qa is UNK or qb is UNK:
                return None
            r = _cmp_num("==", qa, qb)
            if r is None:
                return None
        else:
            r = a == b
        return r if op == "==" else not r
    if op in ("in", "not in"):
        r = a in b
        return r if op == "in" else not r
    qa, qb = to_q(a), to_q(b)
    if qa is UNK or qb is UNK:
        return None  # ordering of None / dict: unspecified (total semantics)
    return _cmp_num(op, qa, qb)


def k_cmp(ops, *vals):
    unc = False
    for op, a, b in zip(ops, vals, vals[1:]):
        r = k_cmp1(op, a, b)
        if r is False:
            return K(False)
        if r is None:
            unc = True
    return K(None if unc else True)


def k_bin(op, a, b):
    if isinstance(a, str) or isinstance(b, str):
        if op == "+":
            return a + b
        raise SpecError("string arithmetic")
    qa, qb = to_q(a), to_q(b)
    if qa is UNK or qb is UNK:
        return UNK
    x, y = qa.v, qb.v
    ints = x.denominator == 1 and y.denominator == 1 and qa.exact and qb.exact
    mag = max(qa.mag, qb.mag)
    if op == "+":
        return N(x + y, mag, ints)
    if op == "-":
        return N(x - y, mag, ints)
    if op == "*":
        return N(x * y, max(mag, abs(x * y)), ints)
    if op == "/":
        return UNK if y == 0 else N(x / y, max(mag, abs(x / y)), False)
    if op == "//":
        return UNK if y == 0 else N(Fraction(x // y), mag, ints)
    if op == "%":
        return UNK if y == 0 else N(x % y, mag, ints)
    if op == "**":
        if y.denominator == 1 and abs(y) < 5000:
            if x == 0 and y < 0:
                return UNK
            r = x ** int(y)
            return N(r, max(mag, abs(r)), ints and y >= 0)
        try:
            return N(Fraction(float(x) ** float(y)), mag, False)
        except Exception:
            return UNK
    raise SpecError(f"operator {op}")


def k_neg(a):
    q = to_q(a)
    return UNK if q is UNK else -q


_OPS = {ast.Add: "+", ast.Sub: "-", ast.Mult: "*", ast.Div: "/", ast.FloorDiv: "//", ast.Mod: "%", ast.Pow: "**"}
_CMP = {ast.Lt: "<", ast.LtE: "<=", ast.Gt: ">", ast.GtE: ">=", ast.Eq: "==", ast.NotEq: "!=", ast.Is: "is",
        ast.IsNot: "is not", ast.In: "in", ast.NotIn: "not in"}


class _Tx(ast.NodeTransformer):
    def _thunk(self, e):
        return ast.Lambda(args=ast.arguments(posonlyargs=[], args=[], kwonlyargs=[], kw_defaults=[], defaults=[]), body=e)

    def _call(self, name, args):
        return ast.Call(func=ast.Name(id=name, ctx=ast.Load()), args=args, keywords=[])

    def visit_BoolOp(self, node):
        self.generic_visit(node)
        return self._call("__k_and" if isinstance(node.op, ast.And) else "__k_or", [self._thunk(v) for v in node.values])

    def visit_UnaryOp(self, node):
        self.generic_visit(node)
        if isinstance(node.op, ast.Not):
            return self._call("__k_not", [node.operand])
        if isinstance(node.op, ast.USub):
            return self._call("__k_neg", [node.operand])
        return node

    def visit_Compare(self, node):
        self.generic_visit(node)
        ops = ast.Tuple(elts=[ast.Constant(value=_CMP[type(o)]) for o in node.ops], ctx=ast.Load())
        return self._call("__k_cmp", [ops, node.left] + node.comparators)

    def visit_IfExp(self, node):
        self.generic_visit(node)
        return self._call("__k_ite", [node.test, self._thunk(node.body), self._thunk(node.orelse)])

    def visit_BinOp(self, node):
        self.generic_visit(node)
        if type(node.op) in _OPS:
            return self._call("__k_bin", [ast.Constant(value=_OPS[type(node.op)]), node.left, node.right])
        return node


_CACHE = {}


def compile_spec(src):
    code = _CACHE.get(src)
    if code is None:
        tree = ast.parse(src.strip(), mode="eval")
        tree = ast.fix_missing_locations(_Tx().visit(tree))
        code = compile(tree, "<spec>", "eval")
        _CACHE[src] = code
    return code


# ------------------------------------------------------------------------------------ readings
def rd_candle(c, key):
    """the spec function Rd on one real candle (independent of hexital.utils.candles.reading_by_candle)"""
    if not isinstance(key, str):
        return UNK
    if key in PRICE:
        return getattr(c, key)
    if "." in key:
        main, fld = key.split(".", 1)
        for d in (c.indicators, c.sub_indicators):
            if main in d:
                w = d[main]
                return w.get(fld) if isinstance(w, dict) else w
        return None
    if key in c.indicators:
        return c.indicators[key]
    if key in c.sub_indicators:
        return c.sub_indicators[key]
    return None


def _idx(j):
    if isinstance(j, bool) or j is UNK or j is None:
        return None
    if isinstance(j, int):
        return j
    if isinstance(j, N):
        j = j.v
    if isinstance(j, Fraction) and j.denominator == 1:
        return int(j)
    return None


def Rd(c, j, key):
    jj = _idx(j)
    if jj is None or jj < 0 or jj >= len(c):
        return UNK
    return rd_candle(c[jj], key)


def RdI(c, idx, key):
    if idx is None:
        return None
    jj = _idx(idx)
    if jj is None:
        return UNK
    if not (-len(c) <= jj < len(c)):
        return None
    return rd_candle(c[jj], key)


def RdC(candle, key):
    return rd_candle(candle, key)


def _range(lo, hi):
    a, b = _idx(lo), _idx(hi)
    if a is None or b is None:
        return None
    if b - a > 200000:
        return None
    return range(a, b)


def forall(lo, hi, fn):
    r = _range(lo, hi)
    if r is None:
        return K(None)
    unc = False
    for j in r:
        v = kv(fn(j))
        if v is False:
            return K(False)
        if v is None:
            unc = True
    return K(None if unc else True)


def exists(lo, hi, fn):
    r = _range(lo, hi)
    if r is None:
        return K(None)
    unc = False
    for j in r:
        v = kv(fn(j))
        if v is True:
            return K(True)
        if v is None:
            unc = True
    return K(None if unc else False)


def implies(a, b):
    a, b = kv(a), kv(b)
    if a is False or b is True:
        return K(True)
    if a is True:
        return K(b)
    return K(None)


def iff(a, b):
    a, b = kv(a), kv(b)
    if a is None or b is None:
        return K(None)
    return K(a == b)


def Sigma(lo, hi, fn):
    r = _range(lo, hi)
    if r is None:
        return UNK
    tot = N(0)
    for j in r:
        q = to_q(fn(j))
        if q is UNK:
            return UNK
        tot = k_bin("+", tot, q)
    return tot


def Count(lo, hi, fn):
    r = _range(lo, hi)
    if r is None:
        return UNK
    n = 0
    for j in r:
        v = kv(fn(j))
        if v is None:
            return UNK
        n += 1 if v else 0
    return n


def _extreme(lo, hi, fn, pick):
    r = _range(lo, hi)
    if r is None or len(r) == 0:
        return UNK
    vals = [to_q(fn(j)) for j in r]
    if any(v is UNK for v in vals):
        return UNK
    return pick(vals, key=lambda q: q.v)


def MinOf(lo, hi, fn):
    return _extreme(lo, hi, fn, min)


def MaxOf(lo, hi, fn):
    return _extreme(lo, hi, fn, max)


def _mm(args, pick):
    qs = [to_q(a) for a in args]
    if any(q is UNK for q in qs):
        return UNK
    r = pick(qs, key=lambda q: q.v)
    return int(r.v) if all(isinstance(a, int) and not isinstance(a, bool) for a in args) else r


def num(v):
    return to_q(v) if is_num(v) else UNK


def numb(v):
    return to_q(v)


def num0(v):
    return N(0) if v is None else to_q(v)


def Rnd(x, k):
    q, kk = to_q(x), _idx(k)
    if q is UNK or kk is None:
        return UNK
    return N(Fraction(round(float(q.v), kk)), q.mag, q.exact)


def Hulp(k):
    kk = _idx(k)
    if kk is None:
        return UNK
    return N(Fraction(1, 2) / Fraction(10) ** kk)


def Sqrt(x):
    q = to_q(x)
    if q is UNK or q.v < 0:
        return UNK
    return N(Fraction(math.sqrt(float(q.v))), q.mag, False)


def Abs(x):
    q = to_q(x)
    return UNK if q is UNK else abs(q)


def Int(x):
    q = to_q(x)
    return UNK if q is UNK else int(q.v)


def same(a, b):
    if a is UNK or b is UNK:
        return K(None)
    if a is None or b is None:
        return K(a is None and b is None)
    if isinstance(a, bool) or isinstance(b, bool):
        return K(isinstance(a, bool) and isinstance(b, bool) and a == b)
    if isinstance(a, dict) or isinstance(b, dict):
        return K(None)
    fa, fb = isinstance(a, float), isinstance(b, float)
    r = _cmp_num("==", to_q(a), to_q(b))
    if r is None:
        return K(None)
    return K(r and fa == fb)


def _typ(pred):
    def f(v):
        if v is UNK:
            return K(None)
        return K(bool(pred(v)))
    return f


NAMESPACE = {
    "__k_and": k_and, "__k_or": k_or, "__k_not": lambda a: K(k_not(kv(a))), "__k_neg": k_neg, "__k_cmp": k_cmp, "__k_ite": k_ite,
    "__k_bin": k_bin,
    "Rd": Rd, "RdI": RdI, "RdC": RdC, "forall": forall, "exists": exists, "implies": implies, "iff": iff,
    "Sigma": Sigma, "Count": Count, "MinOf": MinOf, "MaxOf": MaxOf,
    "Min": lambda *a: _mm(a, min), "Max": lambda *a: _mm(a, max),
    "num": num, "numb": numb, "num0": num0, "Rnd": Rnd, "Hulp": Hulp, "Sqrt": Sqrt, "Abs": Abs, "Int": Int, "Pow": lambda b, e: k_bin("**", b, e),
    "Len": lambda x: len(x), "norm": lambda j, n: (j + n if j < 0 else j),
    "valid": lambda idx, n: K(False) if idx is None else K(-n <= idx < n),
    "isnone": _typ(lambda v: v is None), "isnum": _typ(is_num), "isbool": _typ(lambda v: isinstance(v, bool)),
    "isdict": _typ(lambda v: isinstance(v, dict)), "isfloat": _typ(lambda v: isinstance(v, float)),
    "isint": _typ(lambda v: isinstance(v, int) and not isinstance(v, bool)),
    "isscalar": _typ(lambda v: isinstance(v, (int, float))),
    "truthy": lambda v: K(k_truth(v)), "same": same,
    "attr": lambda candle, name: getattr(candle, name),
    "True": True, "False": False, "None": None,
}


def ceval(src, env):
    """evaluate a specification expression; returns a python value or a K"""
    ns = dict(NAMESPACE)
    ns.update(env)
    # one namespace used as globals: names inside a specification's lambdas must resolve too
    ns["__builtins__"] = {"len": len, "int": int, "abs": abs, "min": min, "max": max, "str": str}
    return eval(compile_spec(src), ns)


def verdict(src, env):
    """True / False / None (uncertain or not evaluable)"""
    try:
        return kv(ceval(src, env))
    except SpecError:
        return None
