"""Contract language (DESIGN.md section 4): sidecar contracts are python expressions in strings,
evaluated by SpecEval into z3 (total semantics, no obligations, no path splitting).
"""
from __future__ import annotations

import ast

import z3

from . import values as vals
from .series import CandleAt, RDictAt, SeriesP, SliceView
from .state import DictP, ListP, ObjP, QAssume, SetP, fresh_name
from .values import (
    PathDead,
    Ref,
    SBool,
    SFloat,
    SInt,
    SNum,
    SV,
    Tmpl,
    Unsupported,
    V,
    concretize,
    mkstr,
    to_int_term,
    to_real_term,
    to_V,
    wrap_bool,
    zand,
    zbool,
    zimplies,
    znot,
    zor,
)


class Contract:
    def __init__(self, qualname, types=None, requires=None, ensures=None, returns=None, reads=None,
                 modifies=None, raises="never", props=None, result_type=None, native_effect=None,
                 assumed=False, note=None, alternatives=None, setup=None, inline_in_callers=False,
                 hints=None, lets=None, use_at_calls=True, pure=False, ghost=None, cost=None, pure_args=None):
        self.qualname = qualname
        self.types = types or {}
        self.requires = requires or {}
        self.ensures = ensures or {}
        self.returns = returns
        self.reads = reads or []
        self.modifies = modifies or []
        self.raises = raises
        self.props = props or []
        self.result_type = result_type
        self.native_effect = native_effect
        self.assumed = assumed  # contract of code outside the verifier's reach: listed, never proved
        self.note = note
        self.setup = setup
        self.hints = hints or []
        self.lets = lets or {}
        self.pure_args = pure_args  # names of arguments whose object graphs must be left unchanged
        self.ghost = ghost or {}  # ghost parameters (symbols the contract is universally quantified over)
        self.cost = cost
        self.pure = pure  # True: the call must leave every object that existed before it unchanged
        self.use_at_calls = use_at_calls  # False: proved against its body, but callers execute the real body

    def bind_lets(self, ex, st, env):
        for k, src in self.lets.items():
            env[k] = SpecEval(ex, st, env).ev(src)
        return env


EXTRA_TERMS = []  # skolem constants created while expanding nested quantifiers (instantiation terms)


def _intlike(v):
    if isinstance(v, vals.SOpt):
        return _intlike(v.v)
    return isinstance(v, (int, SInt)) and not isinstance(v, bool) or (z3.is_expr(v) and v.sort() == z3.IntSort())


class _Quantified:
    def truthy(self):
        raise Unsupported("quantified specification used as a plain truth value (nest quantifiers only as "
                          "forall inside forall, or under implies / and)")


class QF(_Quantified):
    """a bounded universal: forall j in [lo, hi): guard -> fn(j)"""

    def __init__(self, lo, hi, fn, guard=True):
        self.lo, self.hi, self.fn, self.guard = lo, hi, fn, guard

    def inst(self, j):
        rng = z3.And(to_int_term(self.lo) <= j, j < to_int_term(self.hi))
        return zimplies(zand(zbool(self.guard), rng), zbool(self.fn(j)))


class Conj(_Quantified):
    def __init__(self, items):
        self.items = items


class QE(_Quantified):
    """a bounded existential: exists j in [lo, hi): fn(j)"""

    def __init__(self, lo, hi, fn):
        self.lo, self.hi, self.fn = lo, hi, fn

    def inst(self, j, inner=None):
        r = self.fn(j)
        if isinstance(r, (Conj, QF)):
            # exists k. (A(k) and forall t. P(k, t)) as a goal: the inner universal is skolemised per
            # candidate k with a fresh t (sound: see DESIGN.md, spec language)
            parts = []
            for prt in _parts(r):
                if isinstance(prt, QF):
                    t = z3.Int(fresh_name("jn"))
                    EXTRA_TERMS.append(t)
                    parts.append(zbool(prt.inst(t)))
                elif isinstance(prt, _Quantified):
                    raise Unsupported("unsupported quantifier nesting inside exists")
                else:
                    parts.append(zbool(vals.truthy_term(prt)))
            r = zand(*parts)
        if isinstance(r, QE):
            if inner is None:
                raise Unsupported("nested existential needs candidate terms")
            r = zor(*[zbool(r.inst(t, inner)) for t in inner]) if inner else False
        return zand(to_int_term(self.lo) <= j, j < to_int_term(self.hi), zbool(r))


class Imp(_Quantified):
    """antecedent -> consequent where either side contains quantifiers"""

    def __init__(self, ante, cons):
        self.ante, self.cons = ante, cons


def has_quant(x):
    if isinstance(x, (QF, QE, Imp)):
        return True
    if isinstance(x, Conj):
        return any(has_quant(i) for i in x.items)
    return False


def flatten_spec(x, heap=None):
    """-> (list of ground z3 bools, list of QF)   (QE / Imp are handled by assume_spec / oblige_spec)"""
    if isinstance(x, Conj):
        g, q = [], []
        for it in x.items:
            a, b = flatten_spec(it, heap)
            g += a
            q += b
        return g, q
    if isinstance(x, QF):
        return [], [x]
    t = vals.truthy_term(x, heap)
    return [zbool(t)], []


class SpecEval:
    """evaluates a contract expression in an environment of symbolic values; total semantics"""

    def __init__(self, ex, st, env, old_st=None):
        self.ex = ex
        self.st = st
        self.env = env
        self.old_st = old_st
        self.heap = st.heap

    def ev(self, src_or_node):
        node = ast.parse(src_or_node, mode="eval").body if isinstance(src_or_node, str) else src_or_node
        return self.e(node)

    def e(self, node):
        m = getattr(self, "e_" + type(node).__name__, None)
        if m is None:
            raise Unsupported(f"spec expression {type(node).__name__}")
        return m(node)

    def e_Constant(self, node):
        return node.value

    def e_Name(self, node):
        if node.id in self.env:
            return self.env[node.id]
        if node.id in SPEC_FUNCS:
            return SpecFn(node.id)
        if node.id in ("True", "False", "None"):
            return {"True": True, "False": False, "None": None}[node.id]
        raise Unsupported(f"spec name {node.id}")

    def e_JoinedStr(self, node):
        parts = []
        for v in node.values:
            x = self.e(v.value if isinstance(v, ast.FormattedValue) else v)
            parts.append(self.ex.format_piece(x, self.st))
        return mkstr(parts)

    def e_Tuple(self, node):
        from .exec import TupleV

        return TupleV([self.e(x) for x in node.elts])

    def e_List(self, node):
        return [self.e(x) for x in node.elts]

    def e_Lambda(self, node):
        params = [a.arg for a in node.args.args]

        def fn(*args):
            sub = SpecEval(self.ex, self.st, dict(self.env), self.old_st)
            for p, a in zip(params, args):
                sub.env[p] = concretize(SInt(a)) if z3.is_expr(a) and a.sort() == z3.IntSort() else a
            return sub.e(node.body)

        return fn

    def e_UnaryOp(self, node):
        v = self.e(node.operand)
        if isinstance(node.op, ast.Not):
            return wrap_bool(znot(vals.truthy_term(v, self.heap)))
        if isinstance(node.op, ast.USub):
            return vals.unop_neg(v, _noneed)
        raise Unsupported("spec unary")

    def e_BinOp(self, node):
        from .exec import Exec

        a, b = self.e(node.left), self.e(node.right)
        if isinstance(node.op, ast.Add) and isinstance(a, (str, Tmpl)) and isinstance(b, (str, Tmpl)):
            return mkstr([a, b])
        op = Exec._binops[type(node.op)]
        try:
            return vals.binop(op, a, b, _noneed)
        except PathDead:
            return SFloat(z3.Real(fresh_name("unspec")))

    def e_BoolOp(self, node):
        vs = [self.e(v) for v in node.values]
        if isinstance(node.op, ast.And):
            if any(isinstance(v, (QF, QE, Imp, Conj)) for v in vs):
                return Conj(vs)
            return wrap_bool(zand(*[zbool(vals.truthy_term(v, self.heap)) for v in vs]))
        return wrap_bool(zor(*[zbool(vals.truthy_term(v, self.heap)) for v in vs]))

    def e_Compare(self, node):
        from .exec import Exec

        left = self.e(node.left)
        out = []
        for opn, cn in zip(node.ops, node.comparators):
            right = self.e(cn)
            if isinstance(opn, (ast.In, ast.NotIn)):
                r = self.ex.contains(right, left, self.st, node)
                r = znot(r) if isinstance(opn, ast.NotIn) else r
            else:
                try:
                    r = vals.compare(Exec._cmpops[type(opn)], left, right, _noneed, self.heap)
                except PathDead:
                    # ill-typed comparison in a specification: unspecified truth value
                    r = z3.Bool(fresh_name("unspec"))
            out.append(zbool(r))
            left = right
        return wrap_bool(zand(*out))

    def e_IfExp(self, node):
        from .iteration import merge_values

        c = vals.truthy_term(self.e(node.test), self.heap)
        if isinstance(c, bool):
            return self.e(node.body if c else node.orelse)
        a, b = self.e(node.body), self.e(node.orelse)
        return merge_values([(c, a), (True, b)], self.heap)

    def e_Attribute(self, node):
        obj = self.e(node.value)
        outs = list(self.ex.getattr(obj, node.attr, self.st, node))
        if len(outs) != 1:
            raise Unsupported("forking attribute in spec")
        return outs[0][1]

    def e_Subscript(self, node):
        obj = self.e(node.value)
        idx = self.e(node.slice)
        if isinstance(obj, list):
            return obj[idx]
        if isinstance(obj, Ref):
            p = self.heap[obj.oid]
            if isinstance(p, ListP) and isinstance(idx, int):
                # total semantics: an absent element / key reads as None (the clause about it is then simply false)
                return p.items[idx] if -len(p.items) <= idx < len(p.items) else None
            if isinstance(p, DictP):
                return p.items.get(idx)
            if isinstance(p, SeriesP):
                return CandleAt(obj, p.norm(idx))
        raise Unsupported("spec subscript")

    def e_Call(self, node):
        fn = self.e(node.func)
        if isinstance(fn, SpecFn):
            return SPEC_FUNCS[fn.name](self, node)
        args = [self.e(a) for a in node.args]
        if callable(fn):
            return fn(*args)
        raise Unsupported(f"spec call {ast.unparse(node.func)}")


class SpecFn:
    def __init__(self, name):
        self.name = name


def _noneed(cond, exc):
    return None


SPEC_FUNCS = {}


def specfn(name):
    def deco(f):
        SPEC_FUNCS[name] = f
        return f

    return deco


@specfn("implies")
def _implies(ev, node):
    a0 = ev.e(node.args[0])
    if has_quant(a0):
        return Imp(a0, ev.e(node.args[1]))
    a = vals.truthy_term(a0, ev.heap)
    if isinstance(a, bool) and not a:
        return True
    b = ev.e(node.args[1])
    if isinstance(b, QF):
        return QF(b.lo, b.hi, b.fn, zand(zbool(a), zbool(b.guard)))
    if isinstance(b, (QE, Imp)):
        return Imp(wrap_bool(a), b)
    if isinstance(b, Conj):
        if any(isinstance(x, (QE, Imp)) for x in b.items):
            return Imp(wrap_bool(a), b)
        return Conj([_imp_into(a, x, ev) for x in b.items])
    return wrap_bool(zimplies(a, zbool(vals.truthy_term(b, ev.heap))))


def _imp_into(a, x, ev):
    if isinstance(x, QF):
        return QF(x.lo, x.hi, x.fn, zand(zbool(a), zbool(x.guard)))
    if isinstance(x, Conj):
        return Conj([_imp_into(a, y, ev) for y in x.items])
    return wrap_bool(zimplies(a, zbool(vals.truthy_term(x, ev.heap))))


@specfn("exists")
def _exists(ev, node):
    snap = SpecEval(ev.ex, ev.st.fork(), ev.env, ev.old_st)
    lo, hi, fn = ev.e(node.args[0]), ev.e(node.args[1]), snap.e(node.args[2])
    if not _intlike(lo) or not _intlike(hi):
        return SBool(z3.Bool(fresh_name("unspec")))

    def body(j):
        r = fn(j)
        if isinstance(r, (QE, QF, Conj)):
            return r  # nested quantifiers: expanded by QE.inst
        return vals.truthy_term(r, snap.heap)

    return QE(lo, hi, body)


@specfn("forall")
def _forall(ev, node):
    # the body is instantiated lazily: it must be evaluated against the state as of now
    snap = SpecEval(ev.ex, ev.st.fork(), ev.env, ev.old_st)
    lo, hi, fn = ev.e(node.args[0]), ev.e(node.args[1]), snap.e(node.args[2])
    if not _intlike(lo) or not _intlike(hi):
        return SBool(z3.Bool(fresh_name("unspec")))  # ill-typed bound in a (guarded) specification

    def body(j):
        r = fn(j)
        if isinstance(r, QF):
            # forall j. forall t. P  : one instance at a fresh t (a goal is skolemised, a hypothesis weakened)
            t = z3.Int(fresh_name("jn"))
            ctx = ev.ex.ctx
            if not hasattr(ctx, "extra_terms"):
                ctx.extra_terms = []
            ctx.extra_terms.append(t)
            return r.inst(t)
        return vals.truthy_term(r, snap.heap)

    return QF(lo, hi, body)


@specfn("iff")
def _iff(ev, node):
    a = zbool(vals.truthy_term(ev.e(node.args[0]), ev.heap))
    b = zbool(vals.truthy_term(ev.e(node.args[1]), ev.heap))
    return wrap_bool(a == b)


@specfn("isnone")
def _isnone(ev, node):
    return wrap_bool(vals.compare("is", ev.e(node.args[0]), None, _noneed))


@specfn("isnum")
def _isnum(ev, node):
    v = ev.e(node.args[0])
    if isinstance(v, SV):
        return wrap_bool(V.is_vnum(v.t))
    return isinstance(v, (int, float, SInt, SFloat, SNum)) and not isinstance(v, bool)


@specfn("isbool")
def _isbool(ev, node):
    v = ev.e(node.args[0])
    if isinstance(v, SV):
        return wrap_bool(V.is_vbool(v.t))
    return isinstance(v, (bool, SBool))


@specfn("isdict")
def _isdict(ev, node):
    v = ev.e(node.args[0])
    return wrap_bool(zbool(vals.py_isinstance(v, "dict", ev.heap)))


@specfn("isfloat")
def _isfloat(ev, node):
    return wrap_bool(zbool(vals.py_isinstance(ev.e(node.args[0]), "float", ev.heap)))


@specfn("isint")
def _isint(ev, node):
    v = ev.e(node.args[0])
    if isinstance(v, SV):
        return wrap_bool(z3.And(V.is_vnum(v.t), z3.Not(V.isf(v.t))))
    if isinstance(v, SNum):
        return wrap_bool(znot(v.isf))
    return isinstance(v, (int, SInt)) and not isinstance(v, bool)


@specfn("num")
def _num(ev, node):
    """numeric value of a reading as a float-kind real (unspecified when it is not a number)"""
    v = ev.e(node.args[0])
    if isinstance(v, SV):
        return SFloat(V.nv(v.t))
    if v is None:
        return SFloat(z3.RealVal(0))
    return SFloat(to_real_term(v))


@specfn("num0")
def _num0(ev, node):
    v = ev.e(node.args[0])
    if isinstance(v, SV):
        return SFloat(z3.If(V.is_vnone(v.t), z3.RealVal(0), to_real_term(v)))
    if v is None:
        return SFloat(z3.RealVal(0))
    return SFloat(to_real_term(v))


@specfn("truthy")
def _truthy(ev, node):
    return wrap_bool(vals.truthy_term(ev.e(node.args[0]), ev.heap))


@specfn("Abs")
def _abs(ev, node):
    return vals.py_abs(ev.e(node.args[0]), _noneed)


@specfn("Min")
def _min(ev, node):
    from .iteration import pair_minmax

    args = [ev.e(a) for a in node.args]
    acc = args[0]
    for v in args[1:]:
        acc = pair_minmax(ev.ex, ev.st, acc, v, False, node)
    return acc


@specfn("Max")
def _max(ev, node):
    from .iteration import pair_minmax

    args = [ev.e(a) for a in node.args]
    acc = args[0]
    for v in args[1:]:
        acc = pair_minmax(ev.ex, ev.st, acc, v, True, node)
    return acc


@specfn("Int")
def _int(ev, node):
    return vals.py_int(ev.e(node.args[0]), _noneed)


@specfn("Len")
def _len(ev, node):
    x = ev.e(node.args[0])
    if isinstance(x, Ref):
        p = ev.heap[x.oid]
        if isinstance(p, SeriesP):
            return SInt(p.length)
        if isinstance(p, (ListP, SetP, DictP)):
            return len(p.items)
        if hasattr(p, "length_value"):
            return p.length_value(ev.ex, ev.st)
    if isinstance(x, (list, tuple, str)):
        return len(x)
    raise Unsupported("Len")


@specfn("Rd")
def _rd(ev, node):
    """Rd(candles, j, name): the reading `name` of candle j (spec function of C20)"""
    ser, j, key = [ev.e(a) for a in node.args]
    p = ev.heap[ser.oid] if isinstance(ser, Ref) else None
    if isinstance(j, (SFloat, SNum, float)) or j is None:
        # ill-typed position in a (guarded) specification: unspecified reading
        return SV(z3.Const(fresh_name("unspec"), V))
    if isinstance(p, SeriesP):
        return p.lookup(key, j)
    if hasattr(p, "spec_rd"):
        return p.spec_rd(ev, j, key)
    raise Unsupported("Rd on non-series")


@specfn("RdC")
def _rdc(ev, node):
    """RdC(candle, name): the reading `name` of a candle value"""
    c, key = [ev.e(a) for a in node.args]
    if isinstance(c, CandleAt):
        return ev.heap[c.series.oid].lookup(key, c.j)
    if hasattr(c, "spec_rd"):
        return c.spec_rd(ev, key)
    if isinstance(c, Ref) and hasattr(ev.heap[c.oid], "spec_rd"):
        return ev.heap[c.oid].spec_rd(ev, c, key)
    raise Unsupported("RdC on non-candle")


@specfn("norm")
def _norm(ev, node):
    j, n = ev.e(node.args[0]), ev.e(node.args[1])
    jt, nt = to_int_term(j), to_int_term(n)
    return concretize(SInt(z3.If(jt < 0, jt + nt, jt)))


@specfn("Sigma")
def _sigma(ev, node):
    """Sigma(lo, hi, lambda j: term): sum over lo <= j < hi (0 when empty)"""
    from .iteration import find_or_make_sum

    snap = SpecEval(ev.ex, ev.st.fork(), ev.env, ev.old_st)  # body is unfolded lazily: freeze the state
    lo, hi, fn = ev.e(node.args[0]), ev.e(node.args[1]), snap.e(node.args[2])
    lo_t, hi_t = to_int_term(lo), to_int_term(hi)
    body = lambda k: to_real_term(fn(k))
    return SFloat(find_or_make_sum(ev.ex, ev.st, body, lo_t, hi_t))


@specfn("Rnd")
def _rnd(ev, node):
    x, k = ev.e(node.args[0]), ev.e(node.args[1])
    return SFloat(vals.rnd(to_real_term(x), to_int_term(k)))


@specfn("Hulp")
def _hulp(ev, node):
    return SFloat(vals.hulp(to_int_term(ev.e(node.args[0]))))


@specfn("old")
def _old(ev, node):
    if ev.old_st is None:
        raise Unsupported("old() outside a postcondition")
    sub = SpecEval(ev.ex, ev.old_st, ev.env, None)
    return sub.e(node.args[0])


@specfn("Pow")
def _pow(ev, node):
    b, e = ev.e(node.args[0]), ev.e(node.args[1])
    return vals.binop("**", b, e, _noneed)


# ---------------------------------------------------------------------------- symbolic inputs


def make_symbolic(ex, st, name, ty):
    """returns a list of (value, [assumptions]) alternatives for a declared type"""
    alts = []
    for t in [x.strip() for x in ty.split("|")]:
        if t == "int":
            alts.append((SInt(z3.Int(name)), []))
        elif t == "nat":
            x = z3.Int(name)
            alts.append((SInt(x), [x >= 0]))
        elif t == "float":
            alts.append((SFloat(z3.Real(name)), []))
        elif t == "num":
            alts.append((SNum(z3.Real(name), z3.Bool(name + ".isf")), []))
        elif t == "bool":
            alts.append((SBool(z3.Bool(name)), []))
        elif t == "None":
            alts.append((None, []))
        elif t == "reading":
            alts.append((SV(z3.Const(name, V)), []))
        elif t == "name":
            alts.append((Tmpl((vals.Atom(name, "str"),)), []))
        elif t.startswith("lit:"):
            alts.append((t[4:], []))
        elif t == "series":
            alts.append(("__series__", []))
        elif t == "candle":
            alts.append(("__candle__", []))
        elif t == "indicator":
            alts.append(("__indicator__", []))
        elif t == "symcandle":
            alts.append(("__symcandle__", []))
        elif t == "symname":
            alts.append(("__symname__", []))
        else:
            raise Unsupported(f"symbolic input type {t}")
    return alts


def _parts(x):
    if isinstance(x, Conj):
        out = []
        for i in x.items:
            out += _parts(i)
        return out
    return [x]


def assume_spec(ex, st, x, name=""):
    """add a specification as a hypothesis.  Universals become engine-instantiated hypotheses,
    existentials are skolemised; an implication whose antecedent is itself quantified is skipped
    (assuming less is sound)."""
    for p in _parts(x):
        if isinstance(p, QF):
            st.qassumes.append(QAssume(p.inst, name))
        elif isinstance(p, QE):
            w = z3.Int(fresh_name("wit"))
            w2 = z3.Int(fresh_name("wit"))
            st.inst_terms.append(("term", w))
            st.inst_terms.append(("term", w2))
            st.assume(zbool(p.inst(w, [w2])))
        elif isinstance(p, Imp):
            if has_quant(p.ante):
                ex.ctx.notes.append(f"hypothesis with a quantified antecedent not used: {name}")
                continue
            a = zbool(vals.truthy_term(p.ante, st.heap))
            for c in _parts(p.cons):
                if isinstance(c, QF):
                    st.qassumes.append(QAssume(QF(c.lo, c.hi, c.fn, zand(a, zbool(c.guard))).inst, name))
                elif isinstance(c, QE):
                    w = z3.Int(fresh_name("wit"))
                    st.inst_terms.append(("term", w))
                    st.assume(zimplies(a, zbool(c.inst(w))))
                elif isinstance(c, Imp):
                    ex.ctx.notes.append(f"nested implication not used as hypothesis: {name}")
                else:
                    st.assume(zimplies(a, zbool(vals.truthy_term(c, st.heap))))
        else:
            st.assume(zbool(vals.truthy_term(p, st.heap)))


def _candidates(ex, st):
    """integer terms at which an existential goal is tried: candle positions mentioned on the path"""
    from .solve import index_terms

    terms, _ = index_terms([zbool(c) for c in st.pc if not isinstance(c, bool)], getattr(ex.ctx, "sums", []), getattr(ex.ctx, "exts", []))
    out = list(terms.values())
    for it in st.inst_terms:
        if it[0] == "term":
            out.append(it[1])
    seen = {}
    for t in out:
        seen.setdefault(t.get_id(), t)
    return list(seen.values())[:40]


def oblige_spec(ex, st, kind, label, x, node=None, props=None):
    for p in _parts(x):
        if isinstance(p, QF):
            j = z3.Int(fresh_name("j"))
            st2 = st.fork()
            st2.inst_terms.append(("term", j))
            ex.ctx.oblige(st2, kind, label, p.inst(j), node, props=props)
        elif isinstance(p, QE):
            cands = _candidates(ex, st)
            goal = zor(*[zbool(p.inst(t, cands)) for t in cands]) if cands else False
            ex.ctx.oblige(st, kind, label, goal, node, props=props, note="existential goal: disjunction over the candle positions on the path")
        elif isinstance(p, Imp):
            st2 = st.fork()
            assume_spec(ex, st2, p.ante, "antecedent")
            if ex.ctx.feasible(st2):
                oblige_spec(ex, st2, kind, label, p.cons, node, props)
        else:
            ex.ctx.oblige(st, kind, label, zbool(vals.truthy_term(p, st.heap)), node, props=props)


def apply_contract(ex, contract, fv, args, kwargs, st, node):
    """modular call: check the precondition, havoc the write frame, assume the postcondition"""
    env = ex.bind_params(fv, args, kwargs, st)
    q = contract.qualname
    short = q.rsplit(".", 1)[-1]
    site = ex.ctx.site("call", q)
    contract.bind_lets(ex, st, env)
    ev = SpecEval(ex, st, env)
    for label, src in contract.requires.items():
        oblige_spec(ex, st, "pre@call", f"{short}:{label}#{site}", ev.ev(src), node)
        assume_spec(ex, st, ev.ev(src))
    # read frame of the callee must lie within the caller's
    for (ser_src, lo_src, hi_src, cond_src) in contract.reads:
        ser = ev.ev(ser_src)
        if isinstance(ser, Ref) and isinstance(st.heap[ser.oid], SeriesP):
            p = st.heap[ser.oid]
            if p.read_frame is not None:
                lo, hi = ev.ev(lo_src), ev.ev(hi_src)
                cond = vals.truthy_term(ev.ev(cond_src), st.heap) if cond_src else True
                flo, fhi = p.read_frame
                goal = zimplies(zbool(cond), z3.And(to_int_term(flo) <= to_int_term(lo), to_int_term(hi) <= to_int_term(fhi)))
                ex.ctx.oblige(st, "frame-read", f"{short}#{site} @ {ast.unparse(node)[:60] if node is not None else ''}", goal, node)
                st.assume(zbool(goal))
    old_st = st.fork() if contract.ensures and any("old(" in s for s in contract.ensures.values()) else None
    if contract.native_effect is not None:
        contract.native_effect(ex, st, env, node)
    if contract.returns is not None:
        ev = SpecEval(ex, st, env, old_st)
        result = ev.ev(contract.returns)
    else:
        rt = contract.result_type or "None"
        alts = make_symbolic(ex, st, fresh_name(short + ".ret"), rt)
        if len(alts) == 2 and any(a[0] is None for a in alts) and not isinstance([a for a in alts if a[0] is not None][0][0], (SV, str)):
            inner = [a for a in alts if a[0] is not None][0]
            for a in inner[1]:
                st.assume(a)
            result = vals.SOpt(z3.Bool(fresh_name(short + ".ret.none")), inner[0])
        elif len(alts) != 1:
            # dynamic result: one fresh reading value
            result = SV(z3.Const(fresh_name(short + ".ret"), V))
        else:
            result = alts[0][0]
            for a in alts[0][1]:
                st.assume(a)
    env2 = dict(env)
    env2["result"] = result
    rv = result.v if isinstance(result, vals.SOpt) else result
    if isinstance(rv, SInt):
        st.inst_terms.append(("term", rv.t))  # an integer result may be the witness of an existential goal
    ev = SpecEval(ex, st, env2, old_st)
    for label, src in contract.ensures.items():
        assume_spec(ex, st, ev.ev(src), f"{short}:{label}")
    yield st, result


@specfn("RdI")
def _rdi(ev, node):
    """RdI(candles, index, name): reading_by_index semantics - None for an invalid index,
    python wrap-around for a valid negative one"""
    from .iteration import merge_values

    ser, idx, key = [ev.e(a) for a in node.args]
    p = ev.heap[ser.oid]
    if idx is None:
        return None
    it = to_int_term(idx)
    valid = z3.And(it >= -p.length, it < p.length)
    v = p.lookup(key, p.norm(idx))
    return merge_values([(valid, v), (True, None)], ev.heap)


@specfn("valid")
def _valid(ev, node):
    idx, n = ev.e(node.args[0]), ev.e(node.args[1])
    if idx is None:
        return False
    it, nt = to_int_term(idx), to_int_term(n)
    return wrap_bool(z3.And(it >= -nt, it < nt))


@specfn("Sqrt")
def _sqrt(ev, node):
    x = to_real_term(ev.e(node.args[0]))
    return SFloat(vals.sqrtf(x))


def _extremum(ev, node, is_max):
    """MinOf/MaxOf(lo, hi, lambda t: term): extremum over lo <= t < hi (unspecified when empty)"""
    from .iteration import ExtSym
    from .state import QAssume, fresh_name

    snap = SpecEval(ev.ex, ev.st.fork(), ev.env, ev.old_st)
    lo, hi, fn = ev.e(node.args[0]), ev.e(node.args[1]), snap.e(node.args[2])
    lo_t, hi_t = to_int_term(lo), to_int_term(hi)
    ctx = ev.ex.ctx
    if not hasattr(ctx, "exts"):
        ctx.exts = []
    body = lambda k: to_real_term(fn(k))
    j = z3.Int("extj")
    bj = z3.simplify(body(j))
    for es in ctx.exts:
        if es.is_max == is_max and z3.simplify(es.body(j)).eq(bj):
            return SFloat(es.val(lo_t, hi_t))
    es = ExtSym(fresh_name("MaxOf" if is_max else "MinOf"), body, is_max)
    ctx.exts.append(es)
    return SFloat(es.val(lo_t, hi_t))


@specfn("MinOf")
def _minof(ev, node):
    return _extremum(ev, node, False)


@specfn("MaxOf")
def _maxof(ev, node):
    return _extremum(ev, node, True)


@specfn("numb")
def _numb(ev, node):
    """numeric value of a scalar reading, booleans counting as 0/1 (python comparison semantics)"""
    v = ev.e(node.args[0])
    if v is None:
        return SFloat(z3.RealVal(0))
    return SFloat(to_real_term(v))


@specfn("isscalar")
def _isscalar(ev, node):
    """float | int | bool : what isinstance(x, (float, int)) accepts"""
    v = ev.e(node.args[0])
    if isinstance(v, SV):
        return wrap_bool(vals.v_is_numlike(v.t))
    return vals.is_numeric_static(v)


@specfn("Count")
def _count(ev, node):
    """Count(lo, hi, lambda j: cond): number of lo <= j < hi with cond"""
    from .iteration import find_or_make_sum

    snap = SpecEval(ev.ex, ev.st.fork(), ev.env, ev.old_st)
    lo, hi, fn = ev.e(node.args[0]), ev.e(node.args[1]), snap.e(node.args[2])
    lo_t, hi_t = to_int_term(lo), to_int_term(hi)
    body = lambda k: z3.If(zbool(vals.truthy_term(fn(k), snap.heap)), z3.RealVal(1), z3.RealVal(0))
    t = find_or_make_sum(ev.ex, ev.st, body, lo_t, hi_t)
    c = z3.ToInt(t)
    ev.st.assume(z3.And(t == z3.ToReal(c), c >= 0))
    return SInt(c)


@specfn("same")
def _same(ev, node):
    """same(a, b): the very same value including its type (True is not the same as 1.0)"""
    a, b = ev.e(node.args[0]), ev.e(node.args[1])
    return wrap_bool(to_V(a, ev.heap) == to_V(b, ev.heap))


@specfn("attr")
def _attr(ev, node):
    """attr(candle, 'open'): a price field of a candle value"""
    c, name = ev.e(node.args[0]), ev.e(node.args[1])
    if isinstance(c, CandleAt):
        return ev.heap[c.series.oid].attr_value(name, c.j)
    raise Unsupported("attr of non-candle")


@specfn("DictKey")
def _dictkey(ev, node):
    """DictKey(d, k): the k-th key of the (arbitrary, duplicate free) enumeration of a symbolic dict"""
    from .symdict import SKey, SymDictP

    d, k = ev.e(node.args[0]), ev.e(node.args[1])
    p = ev.heap[d.oid]
    if not isinstance(p, SymDictP):
        raise Unsupported("DictKey of a non symbolic dict")
    return SKey(p.keys(to_int_term(k)))


@specfn("Elem")
def _elem(ev, node):
    """Elem(lst, k): element k of a (possibly abstract) list value"""
    from .exec import AList

    lst, k = ev.e(node.args[0]), ev.e(node.args[1])
    if isinstance(lst, AList):
        if lst.keep is not None:
            raise Unsupported("Elem of a filtered list")
        return lst.elem(to_int_term(k))
    if isinstance(lst, Ref) and isinstance(ev.heap[lst.oid], ListP):
        return ev.heap[lst.oid].items[k]
    raise Unsupported("Elem of non-list")


@specfn("LenOf")
def _lenof(ev, node):
    from .exec import AList

    lst = ev.e(node.args[0])
    if isinstance(lst, AList) and lst.keep is None:
        return SInt(lst.n)
    if isinstance(lst, Ref) and isinstance(ev.heap[lst.oid], (ListP, DictP, SetP)):
        return len(ev.heap[lst.oid].items)
    if isinstance(lst, Ref) and isinstance(ev.heap[lst.oid], SeriesP):
        return SInt(ev.heap[lst.oid].length)
    raise Unsupported("LenOf")


@specfn("isinstance_str")
def _isstr(ev, node):
    return isinstance(ev.e(node.args[0]), (str, Tmpl))


@specfn("isdictobj")
def _isdictobj(ev, node):
    v = ev.e(node.args[0])
    return isinstance(v, Ref) and isinstance(ev.heap[v.oid], DictP)


@specfn("Has")
def _has(ev, node):
    """Has(candles, j, name): the key is present in one of the two per-candle dicts (even with value None)"""
    ser, j, key = [ev.e(a) for a in node.args]
    p = ev.heap[ser.oid]
    jt = to_int_term(j)
    return wrap_bool(z3.Or(p.has("I", key, jt), p.has("S", key, jt)))


@specfn("HasIn")
def _hasin(ev, node):
    """HasIn(candles, j, name, 'I'|'S'): the key is present in candle.indicators ('I') / candle.sub_indicators ('S')"""
    ser, j, key, which = [ev.e(a) for a in node.args]
    p = ev.heap[ser.oid]
    return wrap_bool(p.has(which, key, to_int_term(j)))


@specfn("HasAny")
def _hasany(ev, node):
    """HasAny(candles, j, names): some name of the (concrete) set is present on candle j"""
    ser, j, names = [ev.e(a) for a in node.args]
    p = ev.heap[ser.oid]
    jt = to_int_term(j)
    items = ev.heap[names.oid].items if isinstance(names, Ref) else [names]
    return wrap_bool(zor(*[z3.Or(p.has("I", k, jt), p.has("S", k, jt)) for k in items]) if items else False)


@specfn("SetEq")
def _seteq(ev, node):
    a, b = ev.e(node.args[0]), ev.e(node.args[1])
    ia = list(ev.heap[a.oid].items) if isinstance(a, Ref) else list(a)
    ib = list(ev.heap[b.oid].items) if isinstance(b, Ref) else list(b)
    return len(ia) == len(ib) and all(any(x == y for y in ib) for x in ia)


@specfn("Sec")
def _sec(ev, node):
    v = ev.e(node.args[0])
    return concretize(SInt(to_int_term(v.sec)))


@specfn("Micro")
def _micro(ev, node):
    v = ev.e(node.args[0])
    return concretize(SInt(to_int_term(v.micro)))


@specfn("LLen")
def _llen(ev, node):
    l = ev.heap[ev.e(node.args[0]).oid]
    return concretize(SInt(l.length()))


@specfn("LLo")
def _llo(ev, node):
    return concretize(SInt(ev.heap[ev.e(node.args[0]).oid].lo))


@specfn("LHi")
def _lhi(ev, node):
    return concretize(SInt(ev.heap[ev.e(node.args[0]).oid].hi))


@specfn("LId")
def _lid(ev, node):
    """LId(lst, k): id of the candle at position k (0-based) of a heap list"""
    l = ev.heap[ev.e(node.args[0]).oid]
    k = to_int_term(ev.e(node.args[1]))
    return concretize(SInt(z3.Select(l.arr, z3.simplify(l.lo + k))))


@specfn("LRaw")
def _lraw(ev, node):
    """LRaw(lst, p): id stored at absolute array position p"""
    l = ev.heap[ev.e(node.args[0]).oid]
    return concretize(SInt(z3.Select(l.arr, to_int_term(ev.e(node.args[1])))))


@specfn("F")
def _field(ev, node):
    """F(store, 'field', id): a candle field on the heap model"""
    cs = ev.heap[ev.e(node.args[0]).oid]
    f = ev.e(node.args[1])
    i = to_int_term(ev.e(node.args[2]))
    t = cs.get(f, i)
    if t.sort() == z3.RealSort():
        return SFloat(t)
    if t.sort() == z3.IntSort():
        return concretize(SInt(t))
    return wrap_bool(t)


@specfn("CId")
def _cid(ev, node):
    return concretize(SInt(ev.e(node.args[0]).i))


@specfn("F0")
def _field0(ev, node):
    """F0(store, 'field', id): the field as it was when the function under verification was entered"""
    base = ev.ex.ctx.base_state
    cs = base.heap[ev.e(node.args[0]).oid]
    f = ev.e(node.args[1])
    i = to_int_term(ev.e(node.args[2]))
    t = cs.get(f, i)
    if t.sort() == z3.RealSort():
        return SFloat(t)
    if t.sort() == z3.IntSort():
        return concretize(SInt(t))
    return wrap_bool(t)


@specfn("NextId")
def _nextid(ev, node):
    return concretize(SInt(ev.heap[ev.e(node.args[0]).oid].next_id))


@specfn("SameIndicator")
def _sameind(ev, node):
    """same class and the same constructor fields (every dataclass field with init=True)"""
    a, b = ev.e(node.args[0]), ev.e(node.args[1])
    pa, pb = ev.heap[a.oid], ev.heap[b.oid]
    if pa.cls is not pb.cls:
        return False
    conds = []
    for (name, default, init, factory), owner in pa.cls.all_fields():
        if not init or name == "candles":
            continue
        x, y = pa.fields.get(name), pb.fields.get(name)
        r = vals.py_eq(x, y, ev.heap) if not (x is None and y is None) else True
        conds.append(zbool(r))
    return wrap_bool(zand(*conds))
