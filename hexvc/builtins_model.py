"""Models of the python built-ins and library functions the verified functions use
(assumptions L1-L5 of DESIGN.md section 10)."""
from __future__ import annotations

import ast

import z3

from . import values as vals
from .series import CandleAt, RDictAt, SeriesP, SliceView
from .state import DictP, ListP, ObjP, SetP, fresh_name
from .values import (
    Atom,
    PathDead,
    Ref,
    SBool,
    SFloat,
    SInt,
    SNum,
    SV,
    Tmpl,
    Unsupported,
    V,
    concretize,
    mkstr,
    to_int_term,
    to_real_term,
    wrap_bool,
    zand,
    zbool,
    znot,
    zor,
)


class SuperV:
    """super() inside a method of `cls`: attribute lookup continues after `cls` in the MRO of the object"""

    def __init__(self, selfv, cls):
        self.selfv, self.cls = selfv, cls

    def getattr(self, name, ex, st, node):
        from .exec import BoundMethod, Builtin, FuncVal
        from .objects import dataclass_init

        ocls = st.heap[self.selfv.oid].cls
        mro = ocls.mro()
        rest = mro[mro.index(self.cls) + 1:]
        for c in rest:
            if name in c.methods:
                yield st, BoundMethod(self.selfv, FuncVal(c.module, c.methods[name], c))
                return
            if name == "__init__" and c.is_dataclass:
                def init(ex, st_, args, kwargs, node_, c=c):
                    for s1, _ in dataclass_init(ex, ocls, self.selfv, args, kwargs, st_, node_, fields_of=c):
                        yield s1, None
                yield st, Builtin("dataclass.__init__", init)
                return
        raise Unsupported(f"super().{name}")


class VarsView:
    """vars(obj) / obj.__dict__ : an alias of the object's field map (not a copy)"""

    pyclass = "dict"

    def __init__(self, ref):
        self.ref = ref


def _gen1(v):
    def g(ex, st, args, kwargs, node):
        yield st, v

    return g


def make_builtins(ex):
    from .exec import Builtin, GenVal, TupleV, AList
    from .iteration import (
        RangeV,
        Space,
        enumerate_space,
        reduce_anyall,
        reduce_minmax,
        reduce_sum,
        reversed_space,
        space_of,
    )

    B = {}

    def reg(name):
        def deco(fn):
            B[name] = Builtin(name, fn)
            return fn

        return deco

    @reg("len")
    def _len(ex, st, args, kwargs, node):
        (x,) = args
        if isinstance(x, Ref):
            p = st.heap[x.oid]
            if isinstance(p, (ListP, SetP)):
                yield st, len(p.items)
                return
            if isinstance(p, DictP):
                yield st, len(p.items)
                return
            if isinstance(p, SeriesP):
                yield st, SInt(p.length)
                return
            if hasattr(p, "length_value"):
                yield st, p.length_value(ex, st)
                return
        if isinstance(x, SliceView):
            yield st, concretize(SInt(z3.If(x.hi > x.lo, x.hi - x.lo, 0)))
            return
        if isinstance(x, (str, TupleV)):
            yield st, len(x)
            return
        if isinstance(x, AList):
            if x.keep is None:
                yield st, concretize(SInt(x.n))
                return
            from .counting import count_of

            yield st, count_of(ex, st, x)
            return
        if hasattr(x, "length_value"):
            yield st, x.length_value(ex, st)
            return
        raise Unsupported(f"len of {x!r}")

    @reg("range")
    def _range(ex, st, args, kwargs, node):
        for a in args:
            if isinstance(a, (SFloat, SNum, float, SV)) or a is None:
                ex.need(st, False, "TypeError", node)
                return
        if len(args) == 1:
            yield st, RangeV(0, args[0], 1)
        elif len(args) == 2:
            yield st, RangeV(args[0], args[1], 1)
        else:
            yield st, RangeV(args[0], args[1], args[2])

    @reg("enumerate")
    def _enumerate(ex, st, args, kwargs, node):
        start = kwargs.get("start", args[1] if len(args) > 1 else 0)
        yield st, enumerate_space(space_of(ex, st, args[0]), start)

    @reg("reversed")
    def _reversed(ex, st, args, kwargs, node):
        yield st, reversed_space(space_of(ex, st, args[0]))

    @reg("list")
    def _list(ex, st, args, kwargs, node):
        if not args:
            yield st, st.alloc(ListP([]))
            return
        sp = space_of(ex, st, args[0])
        if sp.concrete is not None:
            yield st, st.alloc(ListP(sp.concrete))
        else:
            yield st, AList(sp.n, sp.elem, sp.keep, sp.span)

    @reg("tuple")
    def _tuple(ex, st, args, kwargs, node):
        if not args:
            yield st, TupleV(())
            return
        sp = space_of(ex, st, args[0])
        if sp.concrete is None:
            raise Unsupported("tuple of a symbolic sequence")
        yield st, TupleV(sp.concrete)

    @reg("dict")
    def _dict(ex, st, args, kwargs, node):
        if args:
            x = args[0]
            if isinstance(x, VarsView):
                d = dict(st.heap[x.ref.oid].fields)
            elif isinstance(x, Ref) and isinstance(st.heap[x.oid], DictP):
                d = dict(st.heap[x.oid].items)
            else:
                raise Unsupported("dict(x)")
            d.update(kwargs)
            yield st, st.alloc(DictP(d))
            return
        yield st, st.alloc(DictP(dict(kwargs)))

    @reg("set")
    def _set(ex, st, args, kwargs, node):
        if not args:
            yield st, st.alloc(SetP([]))
            return
        sp = space_of(ex, st, args[0])
        if sp.concrete is None:
            raise Unsupported("set of symbolic sequence")
        out = []
        for v in sp.concrete:
            if not any(ex.key_same(v, o) for o in out):
                out.append(v)
        yield st, st.alloc(SetP(out))

    @reg("sum")
    def _sum(ex, st, args, kwargs, node):
        yield st, reduce_sum(ex, st, space_of(ex, st, args[0]), node)

    def _mm(is_max):
        def f(ex, st, args, kwargs, node):
            if len(args) >= 2:
                from .iteration import pair_minmax

                acc = args[0]
                for v in args[1:]:
                    acc = pair_minmax(ex, st, acc, v, is_max, node)
                yield st, acc
                return
            sp = space_of(ex, st, args[0])
            if sp.concrete is None and sp.keep is not None and "default" in kwargs:
                from .counting import minmax_filtered

                yield from minmax_filtered(ex, st, sp, is_max, kwargs["default"], node)
                return
            yield st, reduce_minmax(ex, st, sp, is_max, node, kwargs.get("default"), "default" in kwargs)

        return f

    B["max"] = Builtin("max", _mm(True))
    B["min"] = Builtin("min", _mm(False))

    @reg("any")
    def _any(ex, st, args, kwargs, node):
        yield st, reduce_anyall(ex, st, space_of(ex, st, args[0]), True, node)

    @reg("all")
    def _all(ex, st, args, kwargs, node):
        yield st, reduce_anyall(ex, st, space_of(ex, st, args[0]), False, node)

    @reg("abs")
    def _abs(ex, st, args, kwargs, node):
        yield st, vals.py_abs(args[0], ex.needer(st, node))

    @reg("int")
    def _int(ex, st, args, kwargs, node):
        x = args[0]
        if isinstance(x, str):
            try:
                yield st, int(x)
            except ValueError:
                ex.need(st, False, "ValueError", node)
            return
        if isinstance(x, Tmpl):
            # int(str(k)) == k  (library axiom L5) for a template that is exactly one int atom
            if len(x.parts) == 1 and isinstance(x.parts[0], Atom) and x.parts[0].kind == "int" and x.parts[0].term is not None:
                yield st, SInt(x.parts[0].term)  # library axiom L5: int(str(k)) == k
                return
            raise Unsupported("int() of symbolic string")
        yield st, vals.py_int(x, ex.needer(st, node))

    @reg("float")
    def _float(ex, st, args, kwargs, node):
        yield st, vals.py_float(args[0], ex.needer(st, node))

    @reg("bool")
    def _bool(ex, st, args, kwargs, node):
        yield st, wrap_bool(ex.truthy(st, args[0])) if args else False

    @reg("str")
    def _str(ex, st, args, kwargs, node):
        try:
            yield st, mkstr([ex.format_piece(args[0], st)])
        except Unsupported:
            # the text of an arbitrary object: an opaque string (only its being a str matters)
            yield st, Tmpl((Atom(fresh_name("str"), "str"),))

    @reg("round")
    def _round(ex, st, args, kwargs, node):
        x = args[0]
        k = args[1] if len(args) > 1 else kwargs.get("ndigits")
        if k is None:
            raise Unsupported("round to int")
        yield st, py_round(ex, st, x, k, node)

    @reg("isinstance")
    def _isinstance(ex, st, args, kwargs, node):
        from .exec import ClassVal, TupleV, Builtin as Bt, ExtVal

        v, t = args

        def tname(x):
            if isinstance(x, ClassVal):
                return x.cls.name
            if isinstance(x, Bt):
                return x.name
            if isinstance(x, ExtVal):
                return x.name.rsplit(".", 1)[-1]
            raise Unsupported(f"isinstance against {x!r}")

        names = [tname(x) for x in t] if isinstance(t, TupleV) else [tname(t)]
        r = zor(*[zbool(vals.py_isinstance(v, n, st.heap)) for n in names])
        yield st, wrap_bool(r)

    @reg("getattr")
    def _getattr(ex, st, args, kwargs, node):
        obj, name = args[0], args[1]
        has_default = len(args) > 2
        if isinstance(obj, Ref) and type(st.heap[obj.oid]).__name__ == "SymCandleP":
            from .symdict import SKey, attrval

            if not isinstance(name, SKey) or not has_default or args[2] is not None:
                raise Unsupported("getattr on symbolic candle")
            yield st, vals.from_V_term(attrval(st.heap[obj.oid].cid, name.t))
            return
        if isinstance(obj, CandleAt):
            if isinstance(name, str):
                from .series import CANDLE_ATTRS

                yield from ex.candle_attr(obj, name, st, node)
                return
            # a non-literal (template / atom) name is an indicator name, never a Candle attribute:
            # precondition `names are not Candle attribute names`
            ex.ctx.assumptions.add("reading names that are not string literals are not names of Candle attributes")
            if has_default:
                yield st, args[2]
                return
            ex.need(st, False, "AttributeError", node)
            return
        if not isinstance(name, str):
            raise Unsupported("getattr with symbolic name")
        try:
            outs = list(ex.getattr(obj, name, st, node))
        except Unsupported:
            if has_default:
                yield st, args[2]
                return
            raise
        yield from outs

    @reg("super")
    def _super(ex, st, args, kwargs, node):
        fr = st.frames[-1]
        cur, selfv = fr.get("__cls__"), fr.get("self")
        if cur is None or selfv is None or args:
            raise Unsupported("super() outside a method")
        yield st, SuperV(selfv, cur)

    @reg("vars")
    def _vars(ex, st, args, kwargs, node):
        yield st, VarsView(args[0])

    @reg("callable")
    def _callable(ex, st, args, kwargs, node):
        from .exec import FuncVal, BoundMethod, ClassVal, Builtin as Bt

        yield st, isinstance(args[0], (FuncVal, BoundMethod, ClassVal, Bt))

    @reg("type")
    def _type(ex, st, args, kwargs, node):
        from .exec import ClassVal

        x = args[0]
        if isinstance(x, Ref) and isinstance(st.heap[x.oid], ObjP):
            yield st, ClassVal(st.heap[x.oid].cls)
            return
        raise Unsupported("type()")

    for nm in ("float", "int", "bool", "str", "dict", "list"):
        B[nm].name = nm
    B["TypeError"] = Builtin("TypeError", _gen1(None))
    B["ValueError"] = Builtin("ValueError", _gen1(None))
    return B


def py_round(ex, st, x, k, node):
    if isinstance(x, (bool, int, SInt, SBool)):
        return x
    need = ex.needer(st, node)
    x = vals.num_coerce(x, need)
    if isinstance(k, (SFloat, SNum, float)) or k is None:
        ex.need(st, False, "TypeError", node)
        raise PathDead()
    kt = to_int_term(k)
    xt = to_real_term(x)
    r = vals.rnd(xt, kt)
    add_round_facts(st, xt, kt, r)
    if isinstance(x, SNum):
        return SNum(z3.If(x.isf, r, xt), x.isf)
    return SFloat(r)


def add_round_facts(st, xt, kt, r):
    h = vals.hulp(kt)
    st.assume(z3.And(h > 0, r - xt <= h, xt - r <= h, vals.rnd(r, kt) == r))
    # rounding to k >= 0 decimals fixes the integers 0 and 100 and is monotone: sign and the
    # [0, 100] range are preserved
    st.assume(z3.Implies(kt >= 0, z3.And(z3.Implies(xt >= 0, r >= 0), z3.Implies(xt <= 0, r <= 0),
                                          z3.Implies(xt <= 100, r <= 100), z3.Implies(xt >= 100, r >= 100),
                                          z3.Implies(xt >= -100, r >= -100), z3.Implies(xt <= -100, r <= -100))))
    # monotone w.r.t. earlier applications with the same k; integers are fixed points
    prev = st.ghost.setdefault("rnd", RndLog())
    for (x2, k2, r2) in prev.items:
        if k2.eq(kt):
            st.assume(z3.And(z3.Implies(xt <= x2, r <= r2), z3.Implies(x2 <= xt, r2 <= r)))
    prev.items.append((xt, kt, r))


class RndLog:
    def __init__(self, items=None):
        self.items = list(items or [])

    def clone(self):
        return RndLog(self.items)


def py_sqrt(ex, st, x, node):
    need = ex.needer(st, node)
    x = vals.num_coerce(x, need)
    xt = to_real_term(x)
    ex.need(st, xt >= 0, "ValueError", node, label=f"math.sqrt domain @ {ast.unparse(node)[:40]}")
    r = vals.sqrtf(xt)
    st.assume(z3.And(r >= 0, r * r == xt))
    prev = st.ghost.setdefault("sqrt", RndLog())
    for (x2, r2) in prev.items:
        st.assume(z3.And(z3.Implies(xt <= x2, r <= r2), z3.Implies(x2 <= xt, r2 <= r)))
    prev.items.append((xt, r))
    return SFloat(r)


def call_ext(ex, fv, args, kwargs, st, node):
    n = fv.name
    if n in ("math.sqrt",):
        yield st, py_sqrt(ex, st, args[0], node)
        return
    if n in ("copy.deepcopy", "copy.copy"):
        from .objects import model_copy

        yield st, model_copy(ex, st, args[0], deep=n.endswith("deepcopy"))
        return
    if n in ("datetime.timedelta",):
        from .timevals import TimeDeltaV

        mult = {"seconds": 1, "minutes": 60, "hours": 3600, "days": 86400}
        tot = z3.IntVal(0)
        if args:
            kwargs = dict(kwargs, days=args[0])
        for k, v in kwargs.items():
            if k not in mult:
                raise Unsupported(f"timedelta({k}=...)")
            if isinstance(v, (SFloat, SNum)) or isinstance(v, float):
                # a float amount: modelled when it is provably a whole number on this path (no sub-second part to carry)
                rt = to_real_term(v)
                probe = st.fork()
                probe.assume(z3.Not(z3.IsInt(rt)))
                if ex.ctx.feasible(probe):
                    raise Unsupported(f"timedelta({k}=<float that may have a fractional part>)")
                tot = tot + mult[k] * z3.ToInt(rt)
                continue
            tot = tot + mult[k] * to_int_term(v)
        yield st, TimeDeltaV(z3.simplify(tot))
        return
    if n in ("datetime.datetime.fromtimestamp",):
        from .timevals import DateTimeV, tzoff_back

        x = to_real_term(vals.num_coerce(args[0], ex.needer(st, node)))
        u = z3.ToInt(x)
        yield st, DateTimeV(z3.simplify(u + tzoff_back(u)), 0)
        return
    if n in ("datetime.datetime",):
        from .timevals import DateTimeV

        # datetime(1970, 1, 1[, tzinfo=...]) : the epoch of the naive wall-clock axis
        if [a for a in args] == [1970, 1, 1]:
            yield st, DateTimeV(0, 0, kwargs.get("tzinfo"))
            return
        if 3 <= len(args) <= 7 and all(isinstance(a, int) and not isinstance(a, bool) for a in args) and set(kwargs) <= {"tzinfo"}:
            # any concrete naive date: its position on the wall-clock axis, by python's own calendar arithmetic
            import datetime as _dt

            try:
                d = _dt.datetime(*args)
            except ValueError:
                ex.need(st, False, "ValueError", node)
                return
            delta = d - _dt.datetime(1970, 1, 1)
            yield st, DateTimeV(delta.days * 86400 + delta.seconds, delta.microseconds, kwargs.get("tzinfo"))
            return
        raise Unsupported("datetime(...) with symbolic fields")
    if n.startswith("hexital.exceptions."):
        yield st, None
        return
    if n in ("dataclasses.field",):
        raise Unsupported("field() call outside a dataclass body")
    hook = ex.ctx.natives.get("ext:" + n)
    if hook is not None:
        yield from hook(ex, st, args, kwargs, node)
        return
    raise Unsupported(f"library call {n}")


def method_of(ex, obj, p, name):
    """bound methods of built-in containers / strings"""
    from .exec import Builtin, TupleV, AList

    def mk(fn):
        return Builtin(f"{type(p).__name__}.{name}", fn)

    if isinstance(p, ExtAttrHolder):
        return p.method(ex, name)
    if isinstance(p, ListP):
        if name == "append":
            def f(ex, st, args, kwargs, node):
                st.heap[obj.oid].items.append(args[0])
                yield st, None
            return mk(f)
        if name == "extend":
            def f(ex, st, args, kwargs, node):
                from .iteration import space_of
                sp = space_of(ex, st, args[0])
                if sp.concrete is None:
                    raise Unsupported("extend with symbolic sequence")
                st.heap[obj.oid].items.extend(sp.concrete)
                yield st, None
            return mk(f)
        if name == "pop":
            def f(ex, st, args, kwargs, node):
                items = st.heap[obj.oid].items
                idx = args[0] if args else -1
                j = ex.list_index(st, len(items), idx, node)
                if not isinstance(j, int):
                    raise Unsupported("symbolic pop index")
                yield st, items.pop(j)
            return mk(f)
        if name == "insert":
            def f(ex, st, args, kwargs, node):
                items = st.heap[obj.oid].items
                if not isinstance(args[0], int):
                    raise Unsupported("symbolic insert index")
                items.insert(args[0], args[1])
                yield st, None
            return mk(f)
        if name == "copy":
            def f(ex, st, args, kwargs, node):
                yield st, st.alloc(ListP(st.heap[obj.oid].items))
            return mk(f)
    if isinstance(p, DictP):
        if name == "get":
            def f(ex, st, args, kwargs, node):
                k = ex.hashkey(args[0])
                d = st.heap[obj.oid].items
                for kk, v in d.items():
                    if ex.key_same(kk, k):
                        yield st, v
                        return
                yield st, (args[1] if len(args) > 1 else kwargs.get("default"))
            return mk(f)
        if name == "pop":
            def f(ex, st, args, kwargs, node):
                k = ex.hashkey(args[0])
                d = st.heap[obj.oid].items
                for kk in list(d):
                    if ex.key_same(kk, k):
                        yield st, d.pop(kk)
                        return
                if len(args) > 1:
                    yield st, args[1]
                    return
                ex.need(st, False, "KeyError", node)
            return mk(f)
        if name in ("items", "keys", "values"):
            def f(ex, st, args, kwargs, node):
                from .iteration import Space
                d = st.heap[obj.oid].items
                if name == "items":
                    yield st, Space(concrete=[TupleV((k, v)) for k, v in d.items()])
                elif name == "keys":
                    yield st, Space(concrete=list(d.keys()))
                else:
                    yield st, Space(concrete=list(d.values()))
            return mk(f)
        if name == "setdefault":
            def f(ex, st, args, kwargs, node):
                k = ex.hashkey(args[0])
                d = st.heap[obj.oid].items
                for kk, v in d.items():
                    if ex.key_same(kk, k):
                        yield st, v
                        return
                d[k] = args[1] if len(args) > 1 else None
                yield st, d[k]
            return mk(f)
        if name == "clear":
            def f(ex, st, args, kwargs, node):
                st.heap[obj.oid].items.clear()
                yield st, None
            return mk(f)
        if name == "update":
            def f(ex, st, args, kwargs, node):
                d = st.heap[obj.oid].items
                src = st.heap[args[0].oid]
                if not isinstance(src, DictP):
                    raise Unsupported("dict.update source")
                for k, v in src.items.items():
                    d[k] = v
                yield st, None
            return mk(f)
        if name == "copy":
            def f(ex, st, args, kwargs, node):
                yield st, st.alloc(DictP(st.heap[obj.oid].items))
            return mk(f)
    if isinstance(p, SetP):
        if name == "add":
            def f(ex, st, args, kwargs, node):
                items = st.heap[obj.oid].items
                if not any(ex.key_same(args[0], o) for o in items):
                    items.append(args[0])
                yield st, None
            return mk(f)
    if isinstance(p, RDictAt):
        if name == "get":
            def f(ex, st, args, kwargs, node):
                ser = st.heap[p.series.oid]
                k = ex.hashkey(args[0])
                default = args[1] if len(args) > 1 else None
                t = z3.If(ser.has(p.which, k, p.j), ser.whole(p.which, k, p.j), vals.to_V(default, st.heap))
                ex.note_series_read(st, ser, p.j, k, node)
                yield st, vals.from_V_term(t)
            return mk(f)
        if name == "pop":
            def f(ex, st, args, kwargs, node):
                ser = st.heap[p.series.oid]
                k = ex.hashkey(args[0])
                if len(args) < 2:
                    ex.need(st, ser.has(p.which, k, p.j), "KeyError", node)
                old = z3.If(ser.has(p.which, k, p.j), ser.whole(p.which, k, p.j),
                            vals.to_V(args[1] if len(args) > 1 else None, st.heap))
                ser.remove(p.which, k, p.j)
                yield st, vals.from_V_term(old)
            return mk(f)
    if isinstance(p, VarsView):
        if name == "get":
            def f(ex, st, args, kwargs, node):
                o = st.heap[p.ref.oid]
                yield st, o.fields.get(args[0], args[1] if len(args) > 1 else None)
            return mk(f)
        if name == "items":
            def f(ex, st, args, kwargs, node):
                from .iteration import Space
                o = st.heap[p.ref.oid]
                yield st, Space(concrete=[TupleV((k, v)) for k, v in o.fields.items()])
            return mk(f)
        if name == "pop":
            def f(ex, st, args, kwargs, node):
                o = st.heap[p.ref.oid]
                hook = ex.ctx.natives.get("delattr")
                if hook is not None:
                    hook(ex, st, p.ref, args[0], node)
                if args[0] in o.fields:
                    yield st, o.fields.pop(args[0])
                elif len(args) > 1:
                    yield st, args[1]
                else:
                    ex.need(st, False, "KeyError", node)
            return mk(f)
        if name == "keys":
            def f(ex, st, args, kwargs, node):
                from .iteration import Space
                yield st, Space(concrete=list(st.heap[p.ref.oid].fields.keys()))
            return mk(f)
    if isinstance(p, (str, Tmpl)):
        if name == "split":
            def f(ex, st, args, kwargs, node):
                if args == ["."]:
                    yield st, st.alloc(ListP(vals.str_split_dot(p)))
                    return
                if isinstance(p, str) and all(isinstance(a, str) for a in args):
                    yield st, st.alloc(ListP(p.split(*args)))
                    return
                raise Unsupported("str.split")
            return mk(f)
        if name == "upper":
            def f(ex, st, args, kwargs, node):
                if isinstance(p, str):
                    yield st, p.upper()
                    return
                if all((not isinstance(q, str)) or q.upper() == q for q in p.parts) and all(isinstance(q, str) or q.kind == "int" for q in p.parts):
                    yield st, p  # upper-case literals and digits: unchanged
                    return
                raise Unsupported("upper of template")
            return mk(f)
        if name == "startswith":
            def f(ex, st, args, kwargs, node):
                pre = args[0]
                parts = vals.str_parts(p)
                if isinstance(pre, tuple) and isinstance(p, str) and all(isinstance(q, str) for q in pre):
                    yield st, p.startswith(tuple(pre))
                    return
                if isinstance(pre, str) and parts and isinstance(parts[0], str) and len(parts[0]) >= len(pre):
                    yield st, parts[0].startswith(pre)
                    return
                if isinstance(pre, str) and isinstance(p, str):
                    yield st, p.startswith(pre)
                    return
                raise Unsupported("startswith on template")
            return mk(f)
        if name == "replace":
            def f(ex, st, args, kwargs, node):
                a, b = args
                if isinstance(p, str):
                    yield st, p.replace(a, b)
                    return
                if a == "." and isinstance(b, str):
                    # atoms are dot free: replacing in the literal pieces is exact
                    yield st, mkstr([q.replace(a, b) if isinstance(q, str) else q for q in p.parts])
                    return
                raise Unsupported("replace on template")
            return mk(f)
        if isinstance(p, str) and name in ("lower", "capitalize", "title", "strip", "lstrip", "rstrip", "endswith", "isdigit", "isupper",
                                            "islower", "casefold", "removeprefix", "removesuffix", "count", "find", "zfill"):
            def f(ex, st, args, kwargs, node):
                # a concrete string with concrete arguments: python's own method
                if not all(isinstance(a, (str, int, tuple)) and not isinstance(a, bool) for a in args):
                    a2 = []
                    for a in args:
                        if isinstance(a, TupleV) and all(isinstance(x, str) for x in a.items):
                            a2.append(tuple(a.items))
                        elif isinstance(a, (str, int)):
                            a2.append(a)
                        else:
                            raise Unsupported(f"str.{name} with a symbolic argument")
                    yield st, getattr(p, name)(*a2)
                    return
                yield st, getattr(p, name)(*args)
            return mk(f)
        if name == "format":
            def f(ex, st, args, kwargs, node):
                if not isinstance(p, str):
                    raise Unsupported("format on template")
                bits = p.split("{}")
                if len(bits) != len(args) + 1:
                    raise Unsupported("format string")
                out = []
                for b, a in zip(bits, list(args) + [""]):
                    out.append(b)
                    out.append(ex.format_piece(a, st) if a != "" else "")
                yield st, mkstr(out)
            return mk(f)
    return None


class ExtAttrHolder:
    pass
