"""Loop rule: a loop over a symbolic sequence is cut at the invariant given in the sidecar.

Obligations: inv-entry (invariant holds before the first iteration), inv-preserve (one arbitrary
iteration re-establishes it, on every path through the body), and the code after the loop runs from
"invariant at the end".  Variables assigned in the body are havocked; `it` is the number of
completed iterations (ghost).  Termination of `for` loops is by construction; `while` loops carry a
`decreases` term.
"""
from __future__ import annotations

import ast

import z3

from . import values as vals
from .contracts import SpecEval, assume_spec, oblige_spec
from .state import fresh_name
from .values import SBool, SFloat, SInt, SNum, SOpt, SV, Unsupported, V, to_int_term


class LoopSpec:
    def __init__(self, invariant, types=None, decreases=None, note=None, ghost=None, modifies_series=None, modifies_fields=None, modifies_heap=None, write_frame=None):
        self.invariant = invariant  # label -> clause (may use `it`, locals, function parameters, old(...))
        self.types = types or {}  # havocked variable -> type string
        self.decreases = decreases
        self.ghost = ghost or {}
        self.modifies_series = modifies_series or []  # [(series expr, key expr)]: reading keys the body may write
        self.write_frame = write_frame  # (store expr, [local names]): candle fields may only be written on those candles
        self.modifies_heap = modifies_heap or []  # expressions evaluating to heap lists / the candle store the body may change
        self.modifies_fields = modifies_fields or []  # [(object expr, field, type)]: object fields the body may assign


def assigned_names(stmts):
    out = []
    for st in stmts:
        for n in ast.walk(st):
            if isinstance(n, (ast.Assign, ast.AugAssign, ast.AnnAssign)):
                tgts = n.targets if isinstance(n, ast.Assign) else [n.target]
                for t in tgts:
                    for x in ast.walk(t):
                        if isinstance(x, ast.Name) and isinstance(x.ctx, ast.Store) and x.id not in out:
                            out.append(x.id)
            elif isinstance(n, ast.For):
                for x in ast.walk(n.target):
                    if isinstance(x, ast.Name) and x.id not in out:
                        out.append(x.id)
    return out


def fresh_like(name, ty, cur):
    if ty == "hlist":
        return cur  # heap lists are havocked in place (see run_loop)
    if ty in ("datetime", "timedelta"):
        from .timevals import DateTimeV, TimeDeltaV

        t = z3.Int(fresh_name(name))
        return DateTimeV(t, 0) if ty == "datetime" else TimeDeltaV(t, 0)
    if ty == "hcandle":
        from .store import HCandle

        return HCandle(cur.store, z3.Int(fresh_name(name)))
    nm = fresh_name(name)
    if ty is None:
        if isinstance(cur, bool) or isinstance(cur, SBool):
            ty = "bool"
        elif isinstance(cur, (int, SInt)):
            ty = "int"
        elif isinstance(cur, (float, SFloat)):
            ty = "float"
        elif isinstance(cur, SNum):
            ty = "num"
        elif isinstance(cur, SV):
            ty = "reading"
        else:
            raise Unsupported(f"loop variable {name} needs a declared type")
    alts = [t.strip() for t in ty.split("|")]
    base = [t for t in alts if t != "None"]
    if len(base) != 1:
        if set(alts) == {"reading"}:
            return SV(z3.Const(nm, V))
        raise Unsupported(f"loop variable type {ty}")
    b = base[0]
    if b == "int":
        v = SInt(z3.Int(nm))
    elif b == "float":
        v = SFloat(z3.Real(nm))
    elif b == "num":
        v = SNum(z3.Real(nm), z3.Bool(nm + ".isf"))
    elif b == "bool":
        v = SBool(z3.Bool(nm))
    elif b == "reading":
        return SV(z3.Const(nm, V))
    else:
        raise Unsupported(f"loop variable type {b}")
    if "None" in alts:
        return SOpt(z3.Bool(nm + ".none"), v)
    return v


def _obj_fields(st):
    """every mutable cell of the concrete part of the heap: object fields, list / set elements, dict entries"""
    out = {}
    for oid, p in st.heap.items():
        n = type(p).__name__
        if n == "ObjP":
            for f, v in p.fields.items():
                out[(oid, f)] = v
        elif n in ("ListP", "SetP"):
            out[(oid, "<len>")] = len(p.items)
            for k, v in enumerate(p.items):
                out[(oid, f"[{k}]")] = v
        elif n == "DictP":
            out[(oid, "<len>")] = len(p.items)
            for k, v in p.items.items():
                out[(oid, f"[{k!r}]")] = v
    return out


def _same(a, b):
    if a is b:
        return True
    if isinstance(a, vals.Ref) and isinstance(b, vals.Ref):
        return a.oid == b.oid
    if z3.is_expr(getattr(a, "t", None)) and z3.is_expr(getattr(b, "t", None)):
        return type(a) is type(b) and a.t.eq(b.t)
    try:
        return type(a) is type(b) and a == b
    except Exception:
        return False


def _heap_gens(st):
    return {oid: getattr(p, "gen", None) for oid, p in st.heap.items()}


def run_loop(ex, node, st, spec, cond_fn, bind_fn, n_term, keep_fn, label):
    """generic cut-point execution.  cond_fn(st, it) -> z3 bool 'another iteration happens';
    bind_fn(st, it) binds the loop target for iteration number `it`."""
    from .exec import Signal

    frame = st.frames[-1]
    names = [n for n in assigned_names(node.body) if n in frame or n in spec.types]
    env0 = lambda s, it: dict(getattr(ex.ctx, 'ghost_env', {}), **dict(s.frames[-1], it=SInt(it) if z3.is_expr(it) else it))
    # a concrete list of heap candles that the loop goes on appending to becomes a symbolic heap list
    from .store import HCandle, HListP
    from .state import ListP

    for nme, ty in spec.types.items():
        cur = st.frames[-1].get(nme)
        if ty == "hlist" and isinstance(cur, vals.Ref) and isinstance(st.heap[cur.oid], ListP):
            items = st.heap[cur.oid].items
            if items and all(isinstance(x, HCandle) for x in items):
                hl = HListP(fresh_name(nme), items[0].store, lo=z3.IntVal(0), hi=z3.IntVal(len(items)))
                for pos, x in enumerate(items):
                    hl.arr = z3.Store(hl.arr, pos, x.i)
                st.heap[cur.oid] = hl
    entry = st.fork()  # old(...) in invariants refers to the state at loop entry

    def SE(s, it):
        return SpecEval(ex, s, env0(s, it), entry)

    # ---- entry
    for lab, src in spec.invariant.items():
        oblige_spec(ex, st, "inv-entry", f"{label}:{lab}", SE(st, z3.IntVal(0)).ev(src), node)
    allowed = set()

    def havoc(s):
        for nme in names:
            if spec.types.get(nme) == "hcandle":
                from .store import HCandle

                s.frames[-1][nme] = HCandle(ex.ctx.ghost_env["cs"], z3.Int(fresh_name(nme)))
                continue
            s.frames[-1][nme] = fresh_like(nme, spec.types.get(nme), s.frames[-1].get(nme))
        for ser_src, key_src in spec.modifies_series:
            ev = SpecEval(ex, s, env0(s, 0))
            ser, key = ev.ev(ser_src), ev.ev(key_src)
            p = s.heap[ser.oid]
            allowed.add(ser.oid)
            keys = list(s.heap[key.oid].items) if isinstance(key, vals.Ref) else [key]
            for kk in keys:
                for which in ("I", "S"):
                    p.havoc_all(which, kk, fresh_name("loop"))
        for nme, ty in spec.types.items():
            if ty == "hlist":
                cur = s.frames[-1].get(nme)
                if isinstance(cur, vals.Ref):
                    allowed.add(cur.oid)
                    s.heap[cur.oid].havoc(fresh_name("loop"))
        for h_src in spec.modifies_heap:
            r = SpecEval(ex, s, env0(s, 0)).ev(h_src)
            allowed.add(r.oid)
            s.heap[r.oid].havoc(fresh_name("loop"))
        for obj_src, fld, ty in spec.modifies_fields:
            o = SpecEval(ex, s, env0(s, 0)).ev(obj_src)
            allowed.add(o.oid)
            s.heap[o.oid].fields[fld] = fresh_like(fld, ty, s.heap[o.oid].fields.get(fld))

    # ---- arbitrary iteration
    body_st = st.fork()
    havoc(body_st)
    it = z3.Int(fresh_name("it"))
    body_st.assume(it >= 0)
    body_st.inst_terms.append(("term", it))
    body_st.inst_terms.append(("term", it - 1))
    body_st.inst_terms.append(("term", it + 1))
    for lab, src in spec.invariant.items():
        assume_spec(ex, body_st, SE(body_st, it).ev(src), f"inv:{lab}")
    body_st.assume(vals.zbool(cond_fn(body_st, it)))
    if keep_fn is not None:
        # filtered sequence: an element that is filtered out leaves the state unchanged
        skip_st = body_st.fork()
        skip_st.assume(z3.Not(vals.zbool(keep_fn(it))))
        if ex.ctx.feasible(skip_st):
            for lab, src in spec.invariant.items():
                oblige_spec(ex, skip_st, "inv-preserve", f"{label}:{lab}:skipped-element", SE(skip_st, it + 1).ev(src), node)
        body_st.assume(vals.zbool(keep_fn(it)))
    if ex.ctx.feasible(body_st):
        gens = _heap_gens(body_st)
        bind_fn(body_st, it)
        variant0 = None
        if spec.decreases is not None:
            # termination: an integer measure that is non-negative whenever another iteration starts and strictly
            # smaller when the next one starts (evaluated on the state at the loop head, before the body runs)
            variant0 = vals.to_int_term(SE(body_st, it).ev(spec.decreases))
            ex.ctx.oblige(body_st, "loop-variant", f"{label}:bounded-below", variant0 >= 0, node)
        if spec.write_frame is not None:
            cs_ref = SpecEval(ex, body_st, env0(body_st, it)).ev(spec.write_frame[0])
            body_st.heap[cs_ref.oid].allowed = list(spec.write_frame[1])
        fields0 = _obj_fields(body_st)
        existed = set(body_st.heap)
        declared = set()
        for obj_src, fld, _ty in spec.modifies_fields:
            o = SpecEval(ex, body_st, env0(body_st, 0)).ev(obj_src)
            declared.add((o.oid, fld))
        for st1, sig in ex.exec_block(node.body, body_st):
            for oid, g in _heap_gens(st1).items():
                if oid in gens and gens[oid] != g and oid not in allowed:
                    raise Unsupported("heap modification inside an invariant-cut loop (declare it in the loop spec)")
            # the loop's frame is part of its specification: an object field written by the body but not declared would be
            # forgotten at the cut (and read with its pre-loop value by the next iteration)
            for (oid, fld), v in _obj_fields(st1).items():
                if oid in allowed or (oid, fld) in declared:
                    continue
                if oid not in existed:
                    continue  # an object created inside the body
                if (oid, fld) not in fields0 or not _same(fields0[(oid, fld)], v):
                    cname = getattr(getattr(st1.heap[oid], "cls", None), "name", None) or type(st1.heap[oid]).__name__
                    ex.ctx.oblige(st1, "frame-write", f"{label}:body-writes-only-the-declared-frame: {cname}.{fld}", z3.BoolVal(False), node)
            if spec.write_frame is not None:
                cs_ref1 = SpecEval(ex, st1, env0(st1, it)).ev(spec.write_frame[0])
                st1.heap[cs_ref1.oid].allowed = None
            if sig[0] in ("next", "continue"):
                for lab, src in spec.invariant.items():
                    oblige_spec(ex, st1, "inv-preserve", f"{label}:{lab}", SE(st1, it + 1).ev(src), node)
                if variant0 is not None:
                    v1 = vals.to_int_term(SE(st1, it + 1).ev(spec.decreases))
                    ex.ctx.oblige(st1, "loop-variant", f"{label}:decreases", v1 < variant0, node)
            elif sig[0] == "break":
                yield st1, Signal.NEXT
            else:
                yield st1, sig
    # ---- exit
    exit_st = st
    havoc(exit_st)
    itx = z3.Int(fresh_name("itx"))
    exit_st.assume(itx >= 0)
    exit_st.inst_terms.append(("term", itx))
    exit_st.inst_terms.append(("term", itx - 1))
    for lab, src in spec.invariant.items():
        assume_spec(ex, exit_st, SE(exit_st, itx).ev(src), f"inv:{lab}")
    exit_st.assume(z3.Not(vals.zbool(cond_fn(exit_st, itx))))
    if n_term is not None:
        exit_st.assume(itx == n_term)
    if ex.ctx.feasible(exit_st):
        yield exit_st, Signal.NEXT


def exec_symbolic_for(ex, node, st, sp, spec):
    n = sp.n
    st.assume(n >= 0)

    def cond(s, it):
        return it < n

    def bind(s, it):
        out = list(ex.assign(node.target, sp.elem(it), s))
        if len(out) != 1:
            raise Unsupported("forking loop target")

    yield from run_loop(ex, node, st, spec, cond, bind, n, sp.keep, f"for@L{node.lineno}")


def exec_symbolic_while(ex, node, st, spec):
    def cond(s, it):
        # a short-circuit condition (`a and b and c`) over symbolic values evaluates along several paths: the condition
        # is the disjunction over those paths of (what the path assumed) and (its truth value); evaluated on a copy, the
        # test of a while loop has no effect on the state
        n0 = len(s.pc)
        outs = list(ex.eval(node.test, s.fork()))
        if not outs:
            raise Unsupported("while condition without an outcome")
        terms = []
        for st_k, val_k in outs:
            extra = [vals.zbool(c) for c in st_k.pc[n0:]]
            terms.append(z3.And(*extra, vals.zbool(ex.truthy(st_k, val_k))) if extra else vals.zbool(ex.truthy(st_k, val_k)))
        return terms[0] if len(terms) == 1 else z3.Or(*terms)

    def bind(s, it):
        return

    yield from run_loop(ex, node, st, spec, cond, bind, None, None, f"while@L{node.lineno}")
