"""Symbolic candle list of unbounded length (the abstraction used for everything that does
not restructure the list: helpers, indicator bodies, driver, movement/pattern functions).

A series has a symbolic length and, per reading key, one presence array and one value array
for each of the two per-candle dicts (`indicators` = 'I', `sub_indicators` = 'S'), plus one
array per dict field that is addressed with a dotted name.  Candle price fields are typed
arrays (never looked up through the reading maps: DESIGN.md, lesson of the spike).
"""
from __future__ import annotations

import z3

from .values import (
    V,
    SV,
    SBool,
    SFloat,
    SInt,
    SNum,
    Ref,
    Tmpl,
    Unsupported,
    concretize,
    from_V_term,
    str_contains_dot,
    str_definitely_distinct,
    str_split_dot,
    to_V,
    to_int_term,
    zand,
    zite,
)

PRICE_ATTRS = ("open", "high", "low", "close")
CANDLE_ATTRS = PRICE_ATTRS + ("volume", "timestamp")
IntArr = lambda name, rng: z3.Array(name, z3.IntSort(), rng)


def keyname(k):
    return k if isinstance(k, str) else repr(k)


class SeriesP:
    is_list = True
    pyclass = "list"

    def __init__(self, name):
        self.name = name
        self.length = z3.Int(f"{name}.len")
        self.maps = {}  # (which, key) -> [P array, W array]
        self.fields = {}  # (which, key, field) -> array Int->V
        self.log = []  # (which, key, idx_term, scalar V term | dict field->V term, ne)
        self.attrs = {}
        self.read_frame = None  # (lo, hi) z3 Int terms / python ints
        self.write_keys = None  # set of keys that may be written (None: no restriction)
        self.write_index = None
        self.own_keys = set()
        self.written_now = set()
        self.reads = []  # (normalised index term, key) for reporting
        self.gen = 0

    def clone(self):
        s = SeriesP.__new__(SeriesP)
        s.name = self.name
        s.length = self.length
        s.maps = {k: list(v) for k, v in self.maps.items()}
        s.fields = dict(self.fields)
        s.log = list(self.log)
        s.attrs = dict(self.attrs)
        s.read_frame = self.read_frame
        s.write_keys = None if self.write_keys is None else set(self.write_keys)
        s.write_index = self.write_index
        s.own_keys = set(self.own_keys)
        s.written_now = set(self.written_now)
        s.reads = list(self.reads)
        s.gen = self.gen
        return s

    def truthy(self):
        return self.length > 0

    # ------------------------------------------------------------------ arrays
    def canon(self, key):
        """keys are python strings or templates; identical templates are the same key"""
        return key

    def map(self, which, key):
        k = (which, key)
        if k not in self.maps:
            nm = f"{self.name}.{which}[{keyname(key)}]"
            self.maps[k] = [IntArr(nm + ".has", z3.BoolSort()), IntArr(nm + ".val", V)]
        return self.maps[k]

    def field(self, which, key, fld):
        k = (which, key, fld)
        if k not in self.fields:
            nm = f"{self.name}.{which}[{keyname(key)}]/{fld}"  # "/": never the name of the whole-value array
            arr = IntArr(nm, V)
            for (w, kk, idx, val) in self.log:
                if w == which and kk == key:
                    if isinstance(val, dict):
                        arr = z3.Store(arr, idx, val.get(fld, V.vnone))
            self.fields[k] = arr
        return self.fields[k]

    def attr(self, name):
        if name not in self.attrs:
            if name in PRICE_ATTRS:
                self.attrs[name] = IntArr(f"{self.name}.{name}", z3.RealSort())
            elif name == "volume":
                self.attrs[name] = IntArr(f"{self.name}.volume", z3.RealSort())
                self.attrs["volume.isf"] = IntArr(f"{self.name}.volume.isf", z3.BoolSort())
            elif name == "timestamp":
                self.attrs[name] = IntArr(f"{self.name}.timestamp", z3.IntSort())
                self.attrs["timestamp.has"] = IntArr(f"{self.name}.timestamp.has", z3.BoolSort())
            else:
                raise Unsupported(f"candle attribute {name}")
        return self.attrs[name]

    # ------------------------------------------------------------------ reads
    def norm(self, j):
        jt = to_int_term(j)
        return z3.simplify(z3.If(jt < 0, jt + self.length, jt))

    def attr_value(self, name, j):
        jt = to_int_term(j)
        if name in PRICE_ATTRS:
            return SFloat(z3.Select(self.attr(name), jt))
        if name == "volume":
            return SNum(z3.Select(self.attr("volume"), jt), z3.Select(self.attr("volume.isf"), jt))
        raise Unsupported(f"candle attribute {name}")

    def has(self, which, key, j):
        return z3.Select(self.map(which, key)[0], to_int_term(j))

    def whole(self, which, key, j):
        return z3.Select(self.map(which, key)[1], to_int_term(j))

    def lookup_V(self, key, j):
        """the spec function Rd(candle j, key) as a V term.  key: str | Tmpl (may be dotted)"""
        jt = to_int_term(j)
        if str_contains_dot(key):
            bits = str_split_dot(key)
            if len(bits) != 2:
                raise Unsupported("reading name with more than one dot")
            main, fld = bits
            if not isinstance(fld, str):
                raise Unsupported("symbolic nested field name")

            def nested(which):
                w = self.whole(which, main, jt)
                return z3.If(V.is_vdct(w), z3.Select(self.field(which, main, fld), jt), w)

            return z3.If(
                self.has("I", main, jt),
                nested("I"),
                z3.If(self.has("S", main, jt), nested("S"), V.vnone),
            )
        if isinstance(key, str) and key in PRICE_ATTRS + ("volume",):
            return to_V(self.attr_value(key, jt))
        if isinstance(key, str) and key == "timestamp":
            raise Unsupported("timestamp as a reading")
        return z3.If(
            self.has("I", key, jt),
            self.whole("I", key, jt),
            z3.If(self.has("S", key, jt), self.whole("S", key, jt), V.vnone),
        )

    def lookup(self, key, j):
        if isinstance(key, str) and key in PRICE_ATTRS + ("volume",):
            return self.attr_value(key, j)
        return from_V_term(self.lookup_V(key, j))

    # ------------------------------------------------------------------ writes
    def write(self, which, key, j, value, heap):
        jt = to_int_term(j)
        P, W = self.map(which, key)
        if isinstance(value, Ref):
            p = heap[value.oid]
            if type(p).__name__ != "DictP":
                raise Unsupported("reading of unsupported type")
            d = {}
            for f, v in p.items.items():
                if not isinstance(f, str):
                    raise Unsupported("symbolic reading field name")
                d[f] = to_V(v, heap)
            wv = V.vdct(z3.BoolVal(len(d) > 0))
            for (w, kk, fld), arr in list(self.fields.items()):
                if w == which and kk == key:
                    self.fields[(w, kk, fld)] = z3.Store(arr, jt, d.get(fld, V.vnone))
            self.log.append((which, key, jt, d))
        else:
            wv = to_V(value, heap)
            self.log.append((which, key, jt, wv))
        self.maps[(which, key)] = [z3.Store(P, jt, z3.BoolVal(True)), z3.Store(W, jt, wv)]
        self.written_now.add(key)
        self.gen += 1

    def remove(self, which, key, j):
        jt = to_int_term(j)
        P, W = self.map(which, key)
        self.maps[(which, key)] = [z3.Store(P, jt, z3.BoolVal(False)), W]
        self.gen += 1

    def havoc_at(self, which, key, j, tag):
        """replace the entry of one key at one position by fresh values (write frame of a callee)"""
        jt = to_int_term(j)
        P, W = self.map(which, key)
        nm = f"{self.name}.{which}[{keyname(key)}]#{tag}"
        self.maps[(which, key)] = [z3.Store(P, jt, z3.Bool(nm + ".h")), z3.Store(W, jt, z3.Const(nm + ".w", V))]
        for (w, kk, fld), arr in list(self.fields.items()):
            if w == which and kk == key:
                self.fields[(w, kk, fld)] = z3.Store(arr, jt, z3.Const(f"{nm}/{fld}", V))
        self.log.append((which, key, jt, _Havoc(nm)))
        self.gen += 1

    def havoc_all(self, which, key, tag):
        nm = f"{self.name}.{which}[{keyname(key)}]#{tag}"
        self.maps[(which, key)] = [IntArr(nm + ".has", z3.BoolSort()), IntArr(nm + ".val", V)]
        for (w, kk, fld) in list(self.fields):
            if w == which and kk == key:
                self.fields[(w, kk, fld)] = IntArr(f"{nm}/{fld}", V)
        self.log = [e for e in self.log if not (e[0] == which and e[1] == key)]
        self.gen += 1


class _Havoc(dict):
    """log entry for a havocked dict value: every field is a fresh constant"""

    def __init__(self, nm):
        super().__init__()
        self.nm = nm

    def get(self, fld, default=None):
        return z3.Const(f"{self.nm}/{fld}", V)


class CandleAt:
    """the candle at position j of a series (position normalised to [0, len))"""

    pyclass = "Candle"
    __slots__ = ("series", "j")

    def __init__(self, series, j):
        self.series = series  # Ref
        self.j = j  # z3 Int term (normalised)

    def __repr__(self):
        return f"CandleAt({self.series},{self.j})"


class RDictAt:
    """candle.indicators ('I') or candle.sub_indicators ('S') of the candle at position j"""

    pyclass = "dict"
    __slots__ = ("series", "which", "j")

    def __init__(self, series, which, j):
        self.series = series
        self.which = which
        self.j = j

    def __repr__(self):
        return f"RDictAt({self.which},{self.j})"


class SliceView:
    """series[a:b] with a, b already clamped: 0 <= a, b <= len (b < a means empty)"""

    is_list = True
    pyclass = "list"
    __slots__ = ("series", "lo", "hi")

    def __init__(self, series, lo, hi):
        self.series = series
        self.lo = lo
        self.hi = hi
