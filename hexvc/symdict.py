"""Faithful model of ONE candle whose two reading dicts have symbolic (unknown) keys, used to verify
the key-search loops of reading_by_candle / _nested_indicator against the spec function Rd.

keys are terms of an uninterpreted sort-like Int ("Key"); a dict is (has: Key -> Bool, val: Key -> V)
together with an arbitrary duplicate-free enumeration of its present keys (insertion order abstracted)."""
from __future__ import annotations

import z3

from . import values as vals
from .state import QAssume, fresh_name
from .values import SBool, SInt, SV, Unsupported, V, concretize, wrap_bool

KeyS = z3.IntSort()
hasdot = z3.Function("hasdot", KeyS, z3.BoolSort())
mainpart = z3.Function("mainpart", KeyS, KeyS)
nestedpart = z3.Function("nestedpart", KeyS, KeyS)
dictget = z3.Function("dictget", V, KeyS, V)  # reading.get(k) for a dict-valued reading
substr = z3.Function("substr", KeyS, KeyS, z3.BoolSort())
attrval = z3.Function("attrval", z3.IntSort(), KeyS, V)  # getattr(candle, name, None) as a reading


class SKey:
    """a symbolic string used as a reading name"""

    pyclass = "str"

    def __init__(self, t):
        self.t = t

    def eq_term(self, other):
        if isinstance(other, SKey):
            return self.t == other.t
        return False

    def contains(self, item, ex, st):
        if item == ".":
            return hasdot(self.t)
        if isinstance(item, SKey):
            # `a in b` on strings: an arbitrary relation that contains equality (a string contains itself)
            st.assume(z3.Implies(item.t == self.t, substr(item.t, self.t)))
            return substr(item.t, self.t)
        raise Unsupported("substring test on a symbolic name")

    def truthy(self):
        return True  # registered names are non-empty

    def getattr(self, name, ex, st, node):
        from .exec import Builtin
        from .state import ListP

        if name == "split":
            def f(ex, st, args, kwargs, node):
                if args != ["."]:
                    raise Unsupported("split of symbolic name")
                # exactly one dot (names with several dots make the tuple unpacking raise ValueError:
                # outside the contract - `name` is a plain or once-dotted reading name)
                ex.ctx.assumptions.add("reading names contain at most one '.'")
                st.assume(hasdot(self.t))
                yield st, st.alloc(ListP([SKey(mainpart(self.t)), SKey(nestedpart(self.t))]))
            yield st, Builtin("str.split", f)
            return
        raise Unsupported(f"str.{name} on symbolic name")


class SymDictP:
    """heap payload: dict with symbolic keys"""

    pyclass = "dict"

    def __init__(self, name):
        self.name = name
        self.has = z3.Function(name + ".has", KeyS, z3.BoolSort())
        self.val = z3.Function(name + ".val", KeyS, V)
        self.n = z3.Int(name + ".n")
        self.keys = z3.Function(name + ".keys", z3.IntSort(), KeyS)
        self.pos = z3.Function(name + ".pos", KeyS, z3.IntSort())
        self.gen = 0

    def clone(self):
        return self  # immutable in this model

    def axioms(self, st):
        n, keys, pos, has = self.n, self.keys, self.pos, self.has
        st.assume(n >= 0)
        st.qassumes.append(QAssume(lambda i: z3.Implies(z3.And(i >= 0, i < n), z3.And(has(keys(i)), pos(keys(i)) == i)), "dict-enumeration-sound"))
        self.key_axiom = lambda k: z3.Implies(has(k), z3.And(pos(k) >= 0, pos(k) < n, keys(pos(k)) == k))

    def space(self, ref, ex, st):
        from .iteration import Space

        return Space(n=self.n, elem=lambda k: SKey(self.keys(k)))

    def getitem(self, ref, idx, ex, st, node):
        if not isinstance(idx, SKey):
            raise Unsupported("symbolic dict indexed by a non symbolic key")
        ex.need(st, self.has(idx.t), "KeyError", node)
        yield st, vals.from_V_term(self.val(idx.t))

    def truthy(self):
        return self.n > 0


class SymReading:
    pass


class SymCandleP:
    """heap payload: one candle with symbolic reading dicts"""

    pyclass = "Candle"

    def __init__(self, st, name="candle"):
        self.name = name
        self.cid = z3.Int(name + ".id")
        self.ind = SymDictP(name + ".indicators")
        self.sub = SymDictP(name + ".sub_indicators")
        self.ind_ref = st.alloc(self.ind)
        self.sub_ref = st.alloc(self.sub)
        self.ind.axioms(st)
        self.sub.axioms(st)

    def clone(self):
        return self

    def key_facts(self, st, k):
        st.assume(self.ind.key_axiom(k))
        st.assume(self.sub.key_axiom(k))

    def spec_rd(self, ev, ref, key):
        """the spec function Rd(candle, name)"""
        if not isinstance(key, SKey):
            raise Unsupported("Rd on a symbolic candle needs a symbolic name")
        k = key.t
        I, S = self.ind, self.sub
        m, nst = mainpart(k), nestedpart(k)

        def nested(d):
            w = d.val(m)
            return z3.If(V.is_vdct(w), dictget(w, nst), w)

        dotted = z3.If(I.has(m), nested(I), z3.If(S.has(m), nested(S), V.vnone))
        a = attrval(self.cid, k)
        plain = z3.If(z3.Not(V.is_vnone(a)), a, z3.If(I.has(k), I.val(k), z3.If(S.has(k), S.val(k), V.vnone)))
        return vals.from_V_term(z3.If(hasdot(k), dotted, plain))


def sv_get(ex, st, v, args, node):
    """reading.get(key) on a dict-valued symbolic reading"""
    k = args[0]
    if not isinstance(k, SKey):
        raise Unsupported("dict reading .get with non symbolic key")
    return vals.from_V_term(dictget(v.t, k.t))
