"""Object construction (dataclass __init__ is modelled, E4) and copy/deepcopy (L2)."""
from __future__ import annotations

from .state import DictP, ListP, ObjP, SetP
from .values import Ref, Unsupported


def instantiate(ex, cls, args, kwargs, st, node):
    from .exec import FuncVal

    ex.ctx.source.resolve_class_bases(cls)
    hook = ex.ctx.natives.get("new:" + cls.qualname) or ex.ctx.natives.get("new:" + cls.name)
    if hook is not None:
        yield from hook(ex, cls, args, kwargs, st, node)
        return
    obj = st.alloc(ObjP(cls, {}))
    c, init = cls.find("methods", "__init__")
    if init is not None:
        for st1, _ in ex.call_function(FuncVal(c.module, init, c), [obj] + list(args), kwargs, st, node):
            yield st1, obj
        return
    if any(k.is_dataclass for k in cls.mro()):
        yield from dataclass_init(ex, cls, obj, args, kwargs, st, node)
        return
    if args or kwargs:
        raise Unsupported(f"constructor arguments for {cls.name}")
    yield st, obj


def dataclass_init(ex, cls, obj, args, kwargs, st, node, fields_of=None):
    """the generated __init__ of a kw_only dataclass (modelled, E4): fields from keyword arguments, default
    factories and defaults in definition order, then the real __post_init__"""
    from .exec import FuncVal

    fcls = fields_of or cls  # the class whose generated __init__ runs (nearest dataclass in the MRO)
    if True:
        if args:
            raise Unsupported("positional args to kw_only dataclass")
        kw = dict(kwargs)
        sts = [st]
        for (name, default, init_, factory), owner in fcls.all_fields():
            nxt = []
            for s in sts:
                p = s.heap[obj.oid]
                if init_ and name in kw:
                    p.fields[name] = kw[name]
                    nxt.append(s)
                elif factory is not None:
                    for s1, fv in ex.eval_in_module(factory, owner.module, s):
                        for s2, v in ex.call(fv, [], {}, s1, node):
                            s2.heap[obj.oid].fields[name] = v
                            nxt.append(s2)
                elif default is not None:
                    for s1, v in ex.eval_in_module(default, owner.module, s):
                        s1.heap[obj.oid].fields[name] = v
                        nxt.append(s1)
                elif init_:
                    ex.need(s, False, "TypeError", node, label=f"missing argument {name} for {fcls.name}")
                else:
                    nxt.append(s)
            sts = nxt
        extra = set(kw) - {f[0][0] for f in fcls.all_fields() if f[0][2]}
        if extra:
            for s in sts:
                ex.need(s, False, "TypeError", node, label=f"unexpected keyword {sorted(extra)} for {cls.name}")
            return
        c, post = cls.find("methods", "__post_init__")
        for s in sts:
            if post is not None:
                for s1, _ in ex.call_function(FuncVal(c.module, post, c), [obj], {}, s, node):
                    yield s1, obj
            else:
                yield s, obj
        return


def model_copy(ex, st, v, deep, memo=None):
    """L2: deepcopy returns a fresh isomorphic graph sharing nothing mutable"""
    memo = {} if memo is None else memo
    if not isinstance(v, Ref):
        return v
    if v.oid in memo:
        return memo[v.oid]
    p = st.heap[v.oid]
    if hasattr(p, "model_copy"):
        return p.model_copy(ex, st, v, deep, memo)
    q = p.clone()
    r = st.alloc(q)
    memo[v.oid] = r
    if deep:
        if isinstance(q, (ListP, SetP)):
            q.items = [model_copy(ex, st, x, True, memo) for x in q.items]
        elif isinstance(q, DictP):
            q.items = {k: model_copy(ex, st, x, True, memo) for k, x in q.items.items()}
        elif isinstance(q, ObjP):
            q.fields = {k: model_copy(ex, st, x, True, memo) for k, x in q.fields.items()}
    return r
