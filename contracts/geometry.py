"""Candle geometry (hexital/core/candle.py) and the gap / average helpers of hexital/analysis/utils.py - C17."""
from hexvc.contracts import Contract

K = "hexital.core.candle.Candle."
U = "hexital.analysis.utils."
O, H, L, C = "attr(self, 'open')", "attr(self, 'high')", "attr(self, 'low')", "attr(self, 'close')"
T = {"self": "candle"}
CONTRACTS = [
    Contract(K + "positive", types=T, returns=f"{C} > {O}", props=["C17"]),
    Contract(K + "negative", types=T, returns=f"{C} < {O}", props=["C17"]),
    Contract(K + "realbody", types=T, returns=f"Abs({O} - {C})", props=["C17"]),
    # on well-formed candles (low <= open, close <= high)
    Contract(K + "shadow_upper", types=T, returns=f"{H} - Max({O}, {C})", props=["C17"]),
    Contract(K + "shadow_lower", types=T, returns=f"Min({O}, {C}) - {L}", props=["C17"]),
    Contract(K + "high_low", types=T, returns=f"{H} - {L}", props=["C17"]),
]
for fn, a, b in (("realbody_gapup", "Min(attr(candle, 'open'), attr(candle, 'close')) > Max(attr(candle_two, 'open'), attr(candle_two, 'close'))", None),
                 ("realbody_gapdown", "Max(attr(candle, 'open'), attr(candle, 'close')) < Min(attr(candle_two, 'open'), attr(candle_two, 'close'))", None),
                 ("candle_gapup", "attr(candle, 'low') > attr(candle_two, 'high')", None),
                 ("candle_gapdown", "attr(candle, 'high') < attr(candle_two, 'low')", None)):
    CONTRACTS.append(Contract(U + fn, types={"candle": "candle", "candle_two": "candle"}, returns=a, props=["C17"]))

A = lambda name, j: f"num(Rd(candles, {j}, '{name}'))"
RB = lambda j: f"Abs({A('open', j)} - {A('close', j)})"
HL_ = lambda j: f"({A('high', j)} - {A('low', j)})"
SU = lambda j: f"({A('high', j)} - Max({A('open', j)}, {A('close', j)}))"
SL = lambda j: f"(Min({A('open', j)}, {A('close', j)}) - {A('low', j)})"


def avg(fn, body):
    return Contract(
        U + fn,
        types={"candles": "series", "length": "int", "index": "int|None"},
        lets={"idx": "Len(candles) - 1 if index is None else index"},
        requires={"length-positive": "length > 0", "index-in-range": "0 <= idx and idx < Len(candles)"},
        returns=f"Sigma(Max(0, idx + 1 - length), idx + 1, lambda t: {body('t')}) / length",
        reads=[("candles", "Max(0, idx + 1 - length)", "idx", "True")],
        props=["C17", "C16"],
    )


CONTRACTS += [avg("realbody_avg", RB), avg("high_low_avg", HL_), avg("shadow_upper_avg", SU), avg("shadow_lower_avg", SL)]

PT = "hexital.analysis.patterns."
AVG = lambda body, n, j: f"(Sigma(Max(0, {j} + 1 - {n}), {j} + 1, lambda u: {body('u')}) / {n})"
DOJI = lambda t: f"({t} >= 10 and {RB(t)} < {AVG(HL_, 10, t)} * 0.1)"
GAPUP = lambda a, b: f"(Min({A('open', a)}, {A('close', a)}) > Max({A('open', b)}, {A('close', b)}))"
GAPDOWN = lambda a, b: f"(Max({A('open', a)}, {A('close', a)}) < Min({A('open', b)}, {A('close', b)}))"
DOJISTAR = lambda t: (f"({t} >= 10 and {RB(f'{t} - 1')} > {AVG(RB, 10, f'{t} - 1')} and {RB(t)} <= {AVG(HL_, 10, t)} * 0.1"
                      f" and (({A('close', f'{t} - 1')} > {A('open', f'{t} - 1')} and {GAPUP(t, f'{t} - 1')})"
                      f" or ({A('close', f'{t} - 1')} < {A('open', f'{t} - 1')} and {GAPDOWN(t, f'{t} - 1')})))")
HAMMER = lambda t: (f"({t} >= 10 and {RB(t)} < {AVG(RB, 10, t)} and {SL(t)} > {RB(t)} and {SU(t)} < {AVG(HL_, 10, t)} * 0.1"
                    f" and Min({A('close', t)}, {A('open', t)}) <= {A('low', f'{t} - 1')} + {AVG(HL_, 5, f'{t} - 1')} * 0.2)")
INVHAMMER = lambda t: (f"({t} >= 10 and {RB(t)} < {AVG(RB, 10, t)} and {SU(t)} > {RB(t)} and {SL(t)} < {AVG(HL_, 10, t)} * 0.1"
                       f" and {GAPDOWN(t, f'{t} - 1')})")


def pattern(fn, shape):
    ok = "Len(candles) > 0 and (index is None or valid(index, Len(candles)))"
    return Contract(
        PT + fn,
        types={"candles": "series", "lookback": "int|None", "index": "int|None"},
        lets={"idx": "Len(candles) - 1 if index is None else norm(index, Len(candles))"},
        ensures={
            "bool": "isbool(result)",
            "false-for-invalid-index": f"implies(not ({ok}), result == False)",
            "shape-at-index": f"implies(({ok}) and lookback is None, iff(result == True, {shape('idx')}))",
            "lookback-true-only-if": f"implies(({ok}) and lookback is not None and result == True, exists(idx + 1 - lookback, idx + 1, lambda t: {shape('t')}))",
            "lookback-true-if": f"implies(({ok}) and lookback is not None and exists(idx + 1 - lookback, idx + 1, lambda t: {shape('t')}), result == True)",
        },
        result_type="bool",
        reads=[("candles", "0", "idx", ok)],
        props=["C16", "C17"],
    )


CONTRACTS += [pattern("doji", DOJI), pattern("dojistar", DOJISTAR), pattern("hammer", HAMMER), pattern("inverted_hammer", INVHAMMER)]

for _c in CONTRACTS:
    if "C16" in _c.props:
        _c.props += [p for p in ("C01", "C02") if p not in _c.props]
