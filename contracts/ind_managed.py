"""Layer 3: indicators with managed data series (STDEV, RSI, VWAP, Supertrend) and composites of
prior sub-indicators (BBANDS, KC, STDEVTHRES)."""
from hexvc.indicators import IndSpec
from contracts.ind_simple import RV, PRE_RV, ROUNDED, LETS, H, L, C, C1, VOL

SX = "num(Rd(c, t, X))"
STDEV_LETS = dict(LETS, X="input_value", D="f'{N}_data'", w="s + period",
                  )
STDEV_INV = {
    "data-absent-before-input": ("implies(j < s, Rd(c, j, f'{N}_data.mean') is None and Rd(c, j, f'{N}_data.variance') is None)", ["C05"]),
    "data-shape": ("implies(j >= s, isnum(Rd(c, j, f'{N}_data.mean')) and isnum(Rd(c, j, f'{N}_data.variance')))", ["C05", "C09"]),
    "data-mean": ("implies(j >= s, isnum(Rd(c, j, f'{N}_data.mean')) and num(Rd(c, j, f'{N}_data.mean')) * period"
                  " == Sigma(Max(s, j - period + 1), j + 1, lambda t: num(Rd(c, t, X))))", ["C05"]),
    "data-variance": ("implies(j >= s, isnum(Rd(c, j, f'{N}_data.variance')) and num(Rd(c, j, f'{N}_data.variance')) * period"
                      " == Sigma(Max(s, j - period + 1), j + 1, lambda t: num(Rd(c, t, X)) * num(Rd(c, t, X)))"
                      " - period * num(Rd(c, j, f'{N}_data.mean')) * num(Rd(c, j, f'{N}_data.mean')))", ["C05"],
                      {"assume_below_only": True}),  # recompute step: the stale (pre-recompute) instance at i is not among the hypotheses
    "presence": ("iff(Rd(c, j, N) is not None, j >= w)", ["C05", "C09"]),
    "type": ("implies(j >= w, isfloat(Rd(c, j, N)))", ["C05", "C09"]),
    "rounded": ROUNDED,
    "sqrt-of-population-variance": ("implies(j >= w and num(Rd(c, j, f'{N}_data.variance')) > 0,"
                                    " Abs(num(Rd(c, j, N)) - Sqrt(num(Rd(c, j, f'{N}_data.variance')))) <= eps)", ["C05"]),
    "stdev>=0": ("implies(j >= w, num(Rd(c, j, N)) >= 0)", ["C10"]),
}

_X0, _XR = "num(Rd(c, j, X))", "(num(Rd(c, j - period, X)) if j >= s + period else 0)"
_M0, _V0 = "num(Rd(c, j - 1, f'{N}_data.mean'))", "num(Rd(c, j - 1, f'{N}_data.variance'))"
_M1 = f"({_M0} + ({_X0} - {_XR}) / period)"
_V1 = f"({_V0} + ({_X0} - {_XR}) * ({_X0} - {_M1} + {_XR} - {_M0}) / period)"
_S0 = "Sigma(Max(s, j - period), j, lambda t: num(Rd(c, t, X)) * num(Rd(c, t, X)))"
# the running update of Welford / Salonen: if period * V == sum(x^2) - period * M^2 holds for the previous window, it holds for the
# window moved by one (x enters, r leaves; r = 0 while the window is still filling)
STDEV_LEMMAS = {
    "running-variance-update": ((f"implies(period > 0 and period * {_V0} == {_S0} - period * {_M0} * {_M0},"
                                 f" period * {_V1} == ({_S0} + {_X0} * {_X0} - {_XR} * {_XR}) - period * {_M1} * {_M1})"), ["data-variance"]),
}
SPECS = [
    IndSpec(
        "hexital.indicators.stdev.StandardDeviation",
        lemmas=STDEV_LEMMAS,
        params=dict(RV, period=("int", None), input_value=("name", None), s=("int", None)),
        ctor={"skip": ("s",)},
        lets=STDEV_LETS,
        extra_pre=dict(PRE_RV, **{"period>=2": "period >= 2"}),
        inputs={"X": ("s", "num")},
        helpers=["f'{N}_data'"],
        inv=STDEV_INV,
        variants=[{}, {"input_value": "dotted"}],
        window="period",
        props=["C01", "C02", "C05", "C09", "C10", "C14"],
    ),
]

from contracts.ind_simple import ATR_INV  # noqa: E402


def R(key, j="j"):
    return f"Rd(c, {j}, {key})"


def NUM(key, j="j"):
    return f"num(Rd(c, {j}, {key}))"


BB_W = "s + period"
SPECS += [
    IndSpec(
        "hexital.indicators.bbands.BBANDS",
        params=dict(RV, period=("int", None), input_value=("name", None), s=("int", None)),
        ctor={"skip": ("s",)},
        lets=dict(LETS, X="input_value", w=BB_W, SMA="f'{N}_SMA'", SD="f'{N}_STDEV'"),
        extra_pre=dict(PRE_RV, **{"period>=2": "period >= 2"}),
        inputs={"X": ("s", "num")},
        subs={"self.sub_indicators[f'{N}_STDEV']": {"role": "prior", "ghost": {"s": "s"}},
              "self.sub_indicators[f'{N}_SMA']": {"role": "prior", "ghost": {"s": "s"}}},
        inv={
            "dict": (f"isdict({R('N')})", ["C05", "C09"]),
            "presence": (f"iff({R('''f'{N}.BBM' ''')} is not None, j >= w) and iff({R('''f'{N}.BBL' ''')} is not None, j >= w) and iff({R('''f'{N}.BBU' ''')} is not None, j >= w)", ["C05", "C09"]),
            "middle-is-sma": (f"implies(j >= w, isfloat({R('''f'{N}.BBM' ''')}) and Abs({NUM('''f'{N}.BBM' ''')} - {NUM('SMA')}) <= eps)", ["C05"]),
            "lower": (f"implies(j >= w, isfloat({R('''f'{N}.BBL' ''')}) and Abs({NUM('''f'{N}.BBL' ''')} - ({NUM('SMA')} - 2 * {NUM('SD')})) <= eps)", ["C05"]),
            "upper": (f"implies(j >= w, isfloat({R('''f'{N}.BBU' ''')}) and Abs({NUM('''f'{N}.BBU' ''')} - ({NUM('SMA')} + 2 * {NUM('SD')})) <= eps)", ["C05"]),
            "ordered": (f"implies(j >= w, {NUM('''f'{N}.BBL' ''')} <= {NUM('''f'{N}.BBM' ''')} and {NUM('''f'{N}.BBM' ''')} <= {NUM('''f'{N}.BBU' ''')})", ["C10"]),
        },
        variants=[{}, {"input_value": "dotted"}],
        window="0",
        props=["C01", "C02", "C05", "C09", "C10", "C14"],
    ),
    IndSpec(
        "hexital.indicators.stdevthres.StandardDeviationThreshold",
        params=dict(RV, period=("int", None), multiplier=("float", None), input_value=("name", None), s=("int", None)),
        ctor={"skip": ("s",)},
        lets=dict(LETS, X="input_value", w="s + period", SD="f'{N}_stdev'"),
        extra_pre=dict(PRE_RV, **{"period>=2": "period >= 2", "multiplier>0": "multiplier > 0"}),
        inputs={"X": ("s", "num")},
        subs={"self.sub_indicators[f'{N}_stdev']": {"role": "prior", "ghost": {"s": "s"}}},
        inv={
            "bool": (f"isbool({R('N')})", ["C05", "C09"]),
            "false-during-warm-up": (f"implies(j < w, {R('N')} == False)", ["C05"]),
            "flag": (f"implies(j >= w, iff({R('N')} == True, Abs({NUM('X')} - {NUM('X', 'j - 1')}) > {NUM('SD')} * multiplier))", ["C05"]),
        },
        variants=[{}, {"input_value": "dotted"}],
        window="1",
        props=["C01", "C02", "C05", "C09", "C10", "C14"],
    ),
    IndSpec(
        "hexital.indicators.kc.KC",
        params=dict(RV, period=("int", None), multiplier=("float", None), input_value=("name", None), s=("int", None)),
        ctor={"skip": ("s",)},
        lets=dict(LETS, X="input_value", w="Max(s + period - 1, period)", EMA="f'{N}_EMA'", ATR="f'{N}_ATR'"),
        extra_pre=dict(PRE_RV, **{"period>=2": "period >= 2", "multiplier>0": "multiplier > 0"}),
        inputs={"X": ("s", "num")},
        subs={"self.sub_indicators[f'{N}_ATR']": {"role": "prior"},
              "self.sub_indicators[f'{N}_EMA']": {"role": "prior", "ghost": {"s": "s"}}},
        inv={
            "dict": (f"isdict({R('N')})", ["C05", "C09"]),
            "presence": (f"iff({R('''f'{N}.band' ''')} is not None, j >= w) and iff({R('''f'{N}.lower' ''')} is not None, j >= w) and iff({R('''f'{N}.upper' ''')} is not None, j >= w)", ["C05", "C09"]),
            "band-is-ema": (f"implies(j >= w, isfloat({R('''f'{N}.band' ''')}) and Abs({NUM('''f'{N}.band' ''')} - {NUM('EMA')}) <= eps)", ["C05"]),
            "lower": (f"implies(j >= w, isfloat({R('''f'{N}.lower' ''')}) and Abs({NUM('''f'{N}.lower' ''')} - ({NUM('EMA')} - multiplier * {NUM('ATR')})) <= eps)", ["C05"]),
            "upper": (f"implies(j >= w, isfloat({R('''f'{N}.upper' ''')}) and Abs({NUM('''f'{N}.upper' ''')} - ({NUM('EMA')} + multiplier * {NUM('ATR')})) <= eps)", ["C05"]),
            "ordered": (f"implies(j >= w, {NUM('''f'{N}.lower' ''')} <= {NUM('''f'{N}.band' ''')} and {NUM('''f'{N}.band' ''')} <= {NUM('''f'{N}.upper' ''')})", ["C10"]),
        },
        variants=[{}, {"input_value": "dotted"}],
        window="0",
        props=["C01", "C02", "C05", "C09", "C10", "C14"],
    ),
    IndSpec(
        "hexital.indicators.vwap.VWAP",
        params=dict(RV, period=("int", None)),
        lets=dict(LETS, PV="f'{N}_data.pv'", VV="f'{N}_data.vol'"),
        extra_pre=dict(PRE_RV),
        helpers=["f'{N}_data'"],
        inv={
            "data-shape": (f"isnum({R('PV')}) and isnum({R('VV')}) and {NUM('VV')} >= 0", ["C06", "C09"]),
            "cumulative-price-volume": (f"{NUM('PV')} == ({NUM('PV', 'j - 1')} if j >= 1 else 0) + {VOL} * ({H} + {L} + {C}) / 3", ["C06"]),
            "cumulative-volume": (f"{NUM('VV')} == ({NUM('VV', 'j - 1')} if j >= 1 else 0) + {VOL}", ["C06"]),
            "presence": (f"isnum({R('N')})", ["C06", "C09"]),
            "rounded": ROUNDED,
            "vwap": (f"implies({NUM('VV')} > 0, Abs({NUM('N')} - {NUM('PV')} / {NUM('VV')}) <= eps)", ["C06"]),
            "vwap-no-volume": (f"implies({NUM('VV')} == 0, Abs({NUM('N')} - {NUM('PV')}) <= eps)", ["C06"]),
        },
        window="1",
        props=["C01", "C02", "C06", "C09", "C10", "C14"],
    ),
]

DX = "num(Rd(c, j, X)) - num(Rd(c, j - 1, X))"
G, LS = "f'{N}_data.gain'", "f'{N}_data.loss'"
SPECS += [
    IndSpec(
        "hexital.indicators.rsi.RSI",
        params=dict(RV, period=("int", None), input_value=("name", None), s=("int", None)),
        ctor={"skip": ("s",)},
        lets=dict(LETS, X="input_value", w="s + period", D="f'{N}_data'"),
        extra_pre=dict(PRE_RV, **{"period>=2": "period >= 2"}),
        inputs={"X": ("s", "num")},
        helpers=["f'{N}_data'"],
        inv={
            "data-none-during-warm-up": (f"implies(j < w, {R('D')} is None and {R(G)} is None and {R(LS)} is None)", ["C06"]),
            "data-shape": (f"implies(j >= w, isdict({R('D')}) and isfloat({R(G)}) and isfloat({R(LS)}) and {NUM(G)} >= 0 and {NUM(LS)} >= 0)", ["C06", "C09"]),
            "seed-mean-gain": (f"implies(j == w, {NUM(G)} * period == Sigma(j - period + 1, j + 1, lambda t: Max(num(Rd(c, t, X)) - num(Rd(c, t - 1, X)), 0)))", ["C06"], {"assume": False}),
            "seed-mean-loss": (f"implies(j == w, {NUM(LS)} * period == Sigma(j - period + 1, j + 1, lambda t: Max(num(Rd(c, t - 1, X)) - num(Rd(c, t, X)), 0)))", ["C06"], {"assume": False}),
            "wilder-gain": (f"implies(j > w, {NUM(G)} == ({NUM(G, 'j - 1')} * (period - 1) + Max({DX}, 0)) / period)", ["C06"]),
            "wilder-loss": (f"implies(j > w, {NUM(LS)} == ({NUM(LS, 'j - 1')} * (period - 1) + Max(-({DX}), 0)) / period)", ["C06"]),
            "presence": (f"iff({R('N')} is not None, j >= w)", ["C06", "C09"]),
            "type": (f"implies(j >= w, isfloat({R('N')}))", ["C06", "C09"]),
            "rounded": ROUNDED,
            "rsi": (f"implies(j >= w and {NUM(LS)} > 0, Abs({NUM('N')} - (100 - 100 / (1 + {NUM(G)} / {NUM(LS)}))) <= eps)", ["C06"]),
            "rsi-no-losses": (f"implies(j >= w and {NUM(LS)} == 0, {NUM('N')} == 100)", ["C06"]),
            "0<=rsi<=100": (f"implies(j >= w, 0 <= {NUM('N')} and {NUM('N')} <= 100)", ["C10"]),
        },
        variants=[{}, {"input_value": "dotted"}],
        window="period",
        props=["C01", "C02", "C06", "C09", "C10", "C14"],
    ),
]

HI = lambda j="j": f"num(Rd(c, {j}, 'high'))"
LO = lambda j="j": f"num(Rd(c, {j}, 'low'))"
DCU, DCL, DCM = "f'{N}.DCU'", "f'{N}.DCL'", "f'{N}.DCM'"
SPECS += [
    IndSpec(
        "hexital.indicators.donchian.Donchian",
        params=dict(RV, period=("int", None)),
        lets=dict(LETS, w="period - 1"),
        extra_pre=dict(PRE_RV, **{"period>=2": "period >= 2"}),
        inv={
            "dict": (f"isdict({R('N')})", ["C05", "C09"]),
            "presence": (f"iff({R(DCU)} is not None, j >= w) and iff({R(DCL)} is not None, j >= w) and iff({R(DCM)} is not None, j >= w)", ["C05", "C09"]),
            "types": (f"implies(j >= w, isnum({R(DCU)}) and isnum({R(DCL)}) and isnum({R(DCM)}))", ["C05", "C09"]),
            "upper-bounds-window-highs": (f"implies(j >= w, forall(j - period + 1, j + 1, lambda t: {HI('t')} <= {NUM(DCU)} + eps))", ["C05", "C10"], {"assume": False}),
            "upper-is-a-window-high": (f"implies(j >= w, exists(j - period + 1, j + 1, lambda t: Abs({NUM(DCU)} - {HI('t')}) <= eps))", ["C05"], {"assume": False}),
            "lower-bounds-window-lows": (f"implies(j >= w, forall(j - period + 1, j + 1, lambda t: {LO('t')} >= {NUM(DCL)} - eps))", ["C05", "C10"], {"assume": False}),
            "lower-is-a-window-low": (f"implies(j >= w, exists(j - period + 1, j + 1, lambda t: Abs({NUM(DCL)} - {LO('t')}) <= eps))", ["C05"], {"assume": False}),
            "middle-is-mean-of-bounds": (f"implies(j >= w, Abs({NUM(DCM)} - ({NUM(DCU)} + {NUM(DCL)}) / 2) <= 2 * eps)", ["C05", "C10"]),
            "ordered": (f"implies(j >= w, {NUM(DCL)} <= {NUM(DCM)} and {NUM(DCM)} <= {NUM(DCU)})", ["C10"]),
        },
        window="period",
        props=["C01", "C02", "C05", "C09", "C10", "C14"],
    ),
    IndSpec(
        "hexital.indicators.highest_lowest.HighestLowest",
        params=dict(RV, period=("int", None)),
        lets=dict(LETS, HH="f'{N}.high'", LL="f'{N}.low'"),
        extra_pre=dict(PRE_RV, **{"period>=2": "period >= 2"}),
        inv={
            "dict": (f"isdict({R('N')})", ["C05", "C09"]),
            "types": (f"isnum({R('HH')}) and isnum({R('LL')})", ["C05", "C09"]),
            "high-bounds-window-highs": (f"forall(Max(0, j - period), j + 1, lambda t: {HI('t')} <= {NUM('HH')} + eps)", ["C05", "C10"], {"assume": False}),
            "high-is-a-window-high": (f"exists(Max(0, j - period), j + 1, lambda t: Abs({NUM('HH')} - {HI('t')}) <= eps)", ["C05"], {"assume": False}),
            "low-bounds-window-lows": (f"forall(Max(0, j - period), j + 1, lambda t: {LO('t')} >= {NUM('LL')} - eps)", ["C05", "C10"], {"assume": False}),
            "low-is-a-window-low": (f"exists(Max(0, j - period), j + 1, lambda t: Abs({NUM('LL')} - {LO('t')}) <= eps)", ["C05"], {"assume": False}),
        },
        window="period",
        props=["C01", "C02", "C05", "C09", "C10", "C14"],
    ),
]

AU, AD_, AO = "f'{N}.AROONU'", "f'{N}.AROOND'", "f'{N}.AROONOSC'"
HP = lambda k: f"num(Rd(c, j - {k}, 'high'))"
LP = lambda k: f"num(Rd(c, j - {k}, 'low'))"
SPECS += [
    IndSpec(
        "hexital.indicators.aroon.AROON",
        params=dict(RV, period=("int", None)),
        lets=dict(LETS, w="period"),
        extra_pre=dict(PRE_RV, **{"period>=2": "period >= 2"}),
        inv={
            "dict": (f"isdict({R('N')})", ["C06", "C09"]),
            "presence": (f"iff({R(AU)} is not None, j >= w) and iff({R(AD_)} is not None, j >= w) and iff({R(AO)} is not None, j >= w)", ["C06", "C09"]),
            "types": (f"implies(j >= w, isfloat({R(AU)}) and isfloat({R(AD_)}) and isfloat({R(AO)}))", ["C06", "C09"]),
            # 100 * (period - bars since the most recent extreme) / period over period + 1 candles
            "up-from-most-recent-high": (
                f"implies(j >= w, exists(0, period + 1, lambda k: Abs({NUM(AU)} - (period - k) / period * 100) <= eps"
                f" and forall(0, period + 1, lambda t: {HP('t')} <= {HP('k')})"
                f" and forall(0, k, lambda t: {HP('t')} < {HP('k')})))", ["C06"], {"assume": False}),
            "down-from-most-recent-low": (
                f"implies(j >= w, exists(0, period + 1, lambda k: Abs({NUM(AD_)} - (period - k) / period * 100) <= eps"
                f" and forall(0, period + 1, lambda t: {LP('t')} >= {LP('k')})"
                f" and forall(0, k, lambda t: {LP('t')} > {LP('k')})))", ["C06"], {"assume": False}),
            "oscillator-is-up-minus-down": (f"implies(j >= w, Abs({NUM(AO)} - ({NUM(AU)} - {NUM(AD_)})) <= 3 * eps)", ["C06", "C10"]),
            "0<=aroon<=100": (f"implies(j >= w, 0 <= {NUM(AU)} and {NUM(AU)} <= 100 and 0 <= {NUM(AD_)} and {NUM(AD_)} <= 100)", ["C10"]),
        },
        window="period",
        props=["C01", "C02", "C06", "C09", "C10", "C14"],
    ),
]
