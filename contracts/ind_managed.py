"""Layer 3: indicators with managed data series (STDEV, RSI, VWAP, Supertrend) and composites of
prior sub-indicators (BBANDS, KC, STDEVTHRES)."""
from hexvc.indicators import IndSpec
from contracts.ind_simple import RV, PRE_RV, ROUNDED, LETS, H, L, C, C1, VOL

SX = "num(Rd(c, t, X))"
STDEV_LETS = dict(LETS, X="input_value", D="f'{N}_data'", w="s + period",
                  )
STDEV_INV = {
    "data-absent-before-input": ("implies(j < s, Rd(c, j, f'{N}_data.mean') is None and Rd(c, j, f'{N}_data.variance') is None)", ["C05"]),
    "data-shape": ("implies(j >= s, isnum(Rd(c, j, f'{N}_data.mean')) and isnum(Rd(c, j, f'{N}_data.variance')))", ["C05", "C09"]),
    "data-mean": ("implies(j >= s, isnum(Rd(c, j, f'{N}_data.mean')) and num(Rd(c, j, f'{N}_data.mean')) * period"
                  " == Sigma(Max(s, j - period + 1), j + 1, lambda t: num(Rd(c, t, X))))", ["C05"], {"defer": True}),
    "data-variance": ("implies(j >= s, isnum(Rd(c, j, f'{N}_data.variance')) and num(Rd(c, j, f'{N}_data.variance')) * period"
                      " == Sigma(Max(s, j - period + 1), j + 1, lambda t: num(Rd(c, t, X)) * num(Rd(c, t, X)))"
                      " - period * num(Rd(c, j, f'{N}_data.mean')) * num(Rd(c, j, f'{N}_data.mean')))", ["C05"], {"defer": True}),
    "presence": ("iff(Rd(c, j, N) is not None, j >= w)", ["C05", "C09"]),
    "type": ("implies(j >= w, isfloat(Rd(c, j, N)))", ["C05", "C09"]),
    "rounded": ROUNDED,
    "sqrt-of-population-variance": ("implies(j >= w and num(Rd(c, j, f'{N}_data.variance')) > 0,"
                                    " Abs(num(Rd(c, j, N)) - Sqrt(num(Rd(c, j, f'{N}_data.variance')))) <= eps)", ["C05"]),
    "stdev>=0": ("implies(j >= w, num(Rd(c, j, N)) >= 0)", ["C10"]),
}

SPECS = [
    IndSpec(
        "hexital.indicators.stdev.StandardDeviation",
        params=dict(RV, period=("int", None), input_value=("name", None), s=("int", None)),
        ctor={"skip": ("s",)},
        lets=STDEV_LETS,
        extra_pre=dict(PRE_RV, **{"period>=2": "period >= 2"}),
        inputs={"X": ("s", "num")},
        helpers=["f'{N}_data'"],
        inv=STDEV_INV,
        variants=[{}, {"input_value": "dotted"}],
        window="period",
        props=["C01", "C02", "C05", "C09", "C10", "C14"],
    ),
]
