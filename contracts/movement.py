"""Layer 0/3: movement functions (hexital/analysis/movement.py) - C16, C17 (and the window extremes used by
Donchian, HighestLowest, AROON)."""
from hexvc.contracts import Contract
from hexvc.loops import LoopSpec

M = "hexital.analysis.movement."
SCALARS = "forall(0, Len(candles), lambda j: isnone(Rd(candles, j, {0})) or isnum(Rd(candles, j, {0})) or isbool(Rd(candles, j, {0})))"

CONTRACTS = [
    Contract(
        M + "above",
        types={"candles": "series", "indicator": "name", "indicator_two": "name", "index": "int"},
        lets={"r1": "RdI(candles, index, indicator)", "r2": "RdI(candles, index, indicator_two)"},
        # a reading that is present but not a scalar (a dict) is outside C16/C17's 'missing readings'
        requires={"scalar-readings": SCALARS.format("indicator") + " and " + SCALARS.format("indicator_two")},
        returns="Len(candles) > 0 and r1 is not None and r2 is not None and numb(r1) > numb(r2)",
        reads=[("candles", "norm(index, Len(candles))", "norm(index, Len(candles))", "valid(index, Len(candles))")],
        props=["C16", "C17"],
    ),
    Contract(
        M + "below",
        types={"candles": "series", "indicator": "name", "indicator_two": "name", "index": "int"},
        lets={"r1": "RdI(candles, index, indicator)", "r2": "RdI(candles, index, indicator_two)"},
        requires={"scalar-readings": SCALARS.format("indicator") + " and " + SCALARS.format("indicator_two")},
        returns="Len(candles) > 0 and r1 is not None and r2 is not None and numb(r1) < numb(r2)",
        reads=[("candles", "norm(index, Len(candles))", "norm(index, Len(candles))", "valid(index, Len(candles))")],
        props=["C16", "C17"],
    ),
    Contract(
        M + "positive",
        types={"candles": "series", "index": "int"},
        returns="valid(index, Len(candles)) and num(Rd(candles, norm(index, Len(candles)), 'close')) > num(Rd(candles, norm(index, Len(candles)), 'open'))",
        reads=[("candles", "norm(index, Len(candles))", "norm(index, Len(candles))", "valid(index, Len(candles))")],
        props=["C16", "C17"],
    ),
    Contract(
        M + "negative",
        types={"candles": "series", "index": "int"},
        returns="valid(index, Len(candles)) and num(Rd(candles, norm(index, Len(candles)), 'close')) < num(Rd(candles, norm(index, Len(candles)), 'open'))",
        reads=[("candles", "norm(index, Len(candles))", "norm(index, Len(candles))", "valid(index, Len(candles))")],
        props=["C16", "C17"],
    ),
]
LOOPS = {}

IDX = "norm(index, Len(candles))"
VALID = "valid(index, Len(candles))"
SC = lambda j="j": f"isscalar(Rd(candles, {j}, indicator))"
NB = lambda j="j": f"numb(Rd(candles, {j}, indicator))"


NUMERIC = "forall(0, Len(candles), lambda j: isnone(Rd(candles, j, {0})) or isnum(Rd(candles, j, {0})))"


def extreme(name, rel):
    return Contract(
        M + name,
        types={"candles": "series", "indicator": "name", "length": "int", "index": "int"},
        lets={"idx": IDX, "lo": f"Max(0, {IDX} - length)"},
        # numeric readings: `max_reading is not False` would turn a boolean series whose extremum is the
        # reading False into "no reading" (boolean series are outside this contract)
        requires={"numeric-readings": NUMERIC.format("indicator")},
        ensures={
            "false-for-invalid-arguments": f"implies(not {VALID} or length < 1, result == False)",
            "none-when-nothing-in-window": f"implies({VALID} and length >= 1 and forall(lo, idx + 1, lambda j: not {SC()}), result is None)",
            "bounds-every-reading-in-window": f"implies({VALID} and length >= 1, forall(lo, idx + 1, lambda j: implies({SC()}, result is not None and isscalar(result) and numb(result) {rel} {NB()})))",
            "is-one-of-them": f"implies({VALID} and length >= 1 and result is not None, exists(lo, idx + 1, lambda j: {SC()} and same(result, Rd(candles, j, indicator))))",
        },
        result_type="reading",
        reads=[("candles", "lo", "idx", f"{VALID} and length >= 1")],
        props=["C16", "C17", "C05"],
    )


CONTRACTS += [extreme("highest", ">="), extreme("lowest", "<=")]

P = lambda k: f"Rd(candles, idx - {k}, indicator)"
PN = lambda k: f"numb(Rd(candles, idx - {k}, indicator))"


def bar(name, le, lt, var):
    q = M + name
    c = Contract(
        q,
        types={"candles": "series", "indicator": "name", "length": "int", "index": "int"},
        lets={"idx": IDX, "n": f"Max(0, Min(length, {IDX} + 1))"},
        requires={"scalar-readings": SCALARS.format("indicator")},
        ensures={
            "none-for-invalid-index": f"implies(not {VALID}, result is None)",
            "non-negative-offset": f"implies({VALID}, result is not None and result >= 0)",
            "zero-when-nothing-in-window": f"implies({VALID} and forall(0, n, lambda k: {P('k')} is None), result == 0)",
            "offset-inside-window": f"implies({VALID}, result < Max(n, 1))",
            "nothing-present-unless-pointed-at": f"implies({VALID} and {P('result')} is None, forall(0, n, lambda k: {P('k')} is None))",
            "offset-of-most-recent-extreme": (
                f"implies({VALID} and n >= 1 and {P('result')} is not None,"
                f" forall(0, n, lambda k: implies({P('k')} is not None, {PN('k')} {le} {PN('result')}))"
                f" and forall(0, result, lambda k: implies({P('k')} is not None, {PN('k')} {lt} {PN('result')})))"),
        },
        result_type="int|None",
        reads=[("candles", "idx - n + 1", "idx", f"{VALID} and n >= 1")],
        props=["C16", "C17", "C06"],
    )
    IP = lambda k: f"Rd(candles, index_ - {k}, indicator)"
    IN = lambda k: f"numb(Rd(candles, index_ - {k}, indicator))"
    loop = LoopSpec(
        invariant={
            "nothing-seen": f"implies({var} is None, distance == 0 and forall(0, it, lambda k: {IP('k')} is None))",
            "best-so-far": (
                f"implies({var} is not None, isscalar({var}) and 0 <= distance and distance < it and {IP('distance')} is not None"
                f" and {IN('distance')} == numb({var})"
                f" and forall(0, it, lambda k: implies({IP('k')} is not None, {IN('k')} {le} numb({var})))"
                f" and forall(0, distance, lambda k: implies({IP('k')} is not None, {IN('k')} {lt} numb({var}))))"),
        },
        types={var: "reading", "distance": "int", "idx": "int", "index": "int", "current": "reading"},
    )
    return c, (q, 0), loop


for _n, _le, _lt, _v in (("highestbar", "<=", "<", "high"), ("lowestbar", ">=", ">", "low")):
    _c, _k, _l = bar(_n, _le, _lt, _v)
    CONTRACTS.append(_c)
    LOOPS[_k] = _l

LATEST = "Rd(candles, idx, indicator)"
WIN = "lo, idx"


def trend(name, cmp):
    q = M + name
    basic = f"{VALID} and length >= 1 and Len(candles) >= 2 and {LATEST} is not None"
    c = Contract(
        q,
        types={"candles": "series", "indicator": "name", "length": "int", "index": "int"},
        lets={"idx": IDX, "lo": f"Max(0, {IDX} - length)"},
        requires={"scalar-readings": SCALARS.format("indicator")},
        ensures={
            "bool": "isbool(result)",
            "true-only-if": (f"implies(result == True, {basic} and exists({WIN}, lambda j: {SC()})"
                             f" and forall({WIN}, lambda j: implies({SC()}, {NB()} {cmp} numb({LATEST}))))"),
            "true-if": (f"implies({basic} and exists({WIN}, lambda j: {SC()})"
                        f" and forall({WIN}, lambda j: implies({SC()}, {NB()} {cmp} numb({LATEST}))), result == True)"),
        },
        result_type="bool",
        reads=[("candles", "lo", "idx", f"{VALID}")],
        props=["C16", "C17"],
    )
    loop = LoopSpec(
        invariant={"all-earlier-readings-pass": f"forall(0, it, lambda k: implies(isscalar(Rd(candles, index_ - 1 - k, indicator)),"
                                                f" numb(Rd(candles, index_ - 1 - k, indicator)) {cmp} numb(latest_reading)))"},
        types={"reading": "reading"},
    )
    return c, (q, 0), loop


for _n, _cmp in (("rising", "<"), ("falling", ">")):
    _c, _k, _l = trend(_n, _cmp)
    CONTRACTS.append(_c)
    LOOPS[_k] = _l


def mean_trend(name, cmp):
    basic = f"{VALID} and length >= 1 and Len(candles) >= 2 and {LATEST} is not None"
    tot = f"Sigma({WIN}, lambda j: ({NB()} if {SC()} else 0))"
    cnt = f"Count({WIN}, lambda j: {SC()})"
    return Contract(
        M + name,
        types={"candles": "series", "indicator": "name", "length": "int", "index": "int"},
        lets={"idx": IDX, "lo": f"Max(0, {IDX} - length)"},
        requires={"scalar-readings": SCALARS.format("indicator")},
        ensures={
            "bool": "isbool(result)",
            "false-unless-applicable": f"implies(not ({basic}) or {cnt} == 0, result == False)",
            "mean-comparison": f"implies({basic} and {cnt} > 0, iff(result == True, {tot} / {cnt} {cmp} numb({LATEST})))",
        },
        result_type="bool",
        reads=[("candles", "lo", "idx", f"{VALID}")],
        props=["C16", "C17"],
    )


CONTRACTS += [mean_trend("mean_rising", "<"), mean_trend("mean_falling", ">")]

CONTRACTS.append(Contract(
    M + "value_range",
    types={"candles": "series", "indicator": "name", "length": "int", "index": "int"},
    lets={"idx": IDX, "lo": f"Max(0, {IDX} - length)", "cnt": f"Count(Max(0, {IDX} - length), {IDX} + 1, lambda j: {SC()})"},
    requires={"scalar-readings": SCALARS.format("indicator")},
    ensures={
        "none-unless-two-readings": f"implies(not {VALID} or length < 2 or cnt < 2, result is None)",
        "spans-every-pair": (f"implies({VALID} and length >= 2 and cnt >= 2, result is not None and numb(result) >= 0 and"
                             f" forall(lo, idx + 1, lambda j: implies({SC()}, forall(lo, idx + 1, lambda t: implies({SC('t')}, {NB()} - {NB('t')} <= numb(result))))))"),
        "is-a-difference-of-two": (f"implies({VALID} and length >= 2 and cnt >= 2,"
                                   f" exists(lo, idx + 1, lambda j: exists(lo, idx + 1, lambda t: {SC()} and {SC('t')} and numb(result) == {NB()} - {NB('t')})))"),
    },
    result_type="num|None",
    reads=[("candles", "lo", "idx", f"{VALID} and length >= 2")],
    props=["C16", "C17"],
))


def ab(op, j):
    a, b = f"Rd(candles, {j}, indicator_one)", f"Rd(candles, {j}, indicator_two)"
    return f"({a} is not None and {b} is not None and numb({a}) {op} numb({b}))"


def crossing(name, now, before):
    q = M + name
    ev = lambda k, base: f"({ab(now, f'{base} - {k}')} and {ab(before, f'{base} - {k} - 1')})"
    c = Contract(
        q,
        types={"candles": "series", "indicator_one": "name", "indicator_two": "name", "length": "int", "index": "int"},
        lets={"idx": IDX, "n": f"Max(0, Min(length, {IDX}))"},
        requires={"scalar-readings": SCALARS.format("indicator_one") + " and " + SCALARS.format("indicator_two")},
        ensures={
            "bool": "isbool(result)",
            "false-for-invalid-index": f"implies(not {VALID}, result == False)",
            "true-only-if-a-cross-in-window": f"implies({VALID} and result == True, exists(0, n, lambda k: {ev('k', 'idx')}))",
            "true-if-a-cross-in-window": f"implies({VALID} and exists(0, n, lambda k: {ev('k', 'idx')}), result == True)",
        },
        result_type="bool",
        reads=[("candles", "idx - n", "idx", f"{VALID} and n >= 1")],
        props=["C16", "C17"],
    )
    loop = LoopSpec(invariant={"no-cross-so-far": f"forall(0, it, lambda k: not {ev('k', 'index_')})"}, types={"idx": "int"})
    return c, (q, 0), loop


for _n, _now, _before in (("crossover", ">", "<"), ("crossunder", "<", ">")):
    _c, _k, _l = crossing(_n, _now, _before)
    CONTRACTS.append(_c)
    LOOPS[_k] = _l


def _cross_event(k, base):
    o = lambda j: f"Rd(candles, {j}, indicator_one)"
    t = lambda j: f"Rd(candles, {j}, indicator_two)"
    now, prev = f"{base} - {k}", f"{base} - {k} - 1"
    present = f"{o(now)} is not None and {t(now)} is not None and {o(prev)} is not None and {t(prev)} is not None"
    up = f"(numb({o(now)}) > numb({t(now)}) and numb({o(prev)}) <= numb({t(prev)}))"
    down = f"(numb({o(now)}) < numb({t(now)}) and numb({o(prev)}) >= numb({t(prev)}))"
    return f"({present} and ({up} or {down}))"


CONTRACTS.append(Contract(
    M + "cross",
    types={"candles": "series", "indicator_one": "name", "indicator_two": "name", "length": "int", "index": "int"},
    lets={"idx": IDX, "n": f"Max(0, Min(length, {IDX}))"},
    requires={"scalar-readings": SCALARS.format("indicator_one") + " and " + SCALARS.format("indicator_two")},
    ensures={
        "bool": "isbool(result)",
        "false-for-invalid-index": f"implies(not {VALID}, result == False)",
        "true-only-if-a-cross-in-window": f"implies({VALID} and result == True, exists(0, n, lambda k: {_cross_event('k', 'idx')}))",
        "true-if-a-cross-in-window": f"implies({VALID} and exists(0, n, lambda k: {_cross_event('k', 'idx')}), result == True)",
    },
    result_type="bool",
    reads=[("candles", "idx - n", "idx", f"{VALID} and n >= 1")],
    props=["C16", "C17"],
))
LOOPS[(M + "cross", 0)] = LoopSpec(invariant={"no-cross-so-far": f"forall(0, it, lambda k: not {_cross_event('k', 'index_')})"},
                                   types={"idx": "int", "reading_one": "reading", "reading_two": "reading", "prev_one": "reading", "prev_two": "reading"})

# a movement function wrapped in an Amorph is an indicator column: its causality (read frame inside [0, norm(index)])
# is what C01 / C02 need of it, so the functions belong to those cones too
for _c in CONTRACTS:
    if "C16" in _c.props:
        _c.props += [p for p in ("C01", "C02") if p not in _c.props]
