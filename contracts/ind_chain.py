"""Layer 3: indicators that drive managed sub-indicators per index (MACD, STOCH, TSI, HMA, ADX)."""
from hexvc.indicators import IndSpec
from contracts.ind_simple import RV, PRE_RV, ROUNDED, LETS
from contracts.ind_managed import R, NUM

SPECS = [
    IndSpec(
        "hexital.indicators.macd.MACD",
        params=dict(RV, fast_period=("int", None), slow_period=("int", None), signal_period=("int", None),
                    input_value=("name", None), s=("int", None)),
        ctor={"skip": ("s",)},
        lets=dict(LETS, X="input_value", w="s + slow_period - 1", ws="s + slow_period - 1 + signal_period - 1",
                  F="f'{N}_EMA_fast'", S="f'{N}_EMA_slow'", SIG="f'{N}_signal_line'",
                  M="f'{N}.MACD'", SG="f'{N}.signal'", HI="f'{N}.histogram'"),
        extra_pre=dict(PRE_RV, **{"periods": "2 <= fast_period and fast_period < slow_period and signal_period >= 2"}),
        inputs={"X": ("s", "num")},
        subs={"self.sub_indicators[f'{N}_EMA_fast']": {"role": "prior", "ghost": {"s": "s"}},
              "self.sub_indicators[f'{N}_EMA_slow']": {"role": "prior", "ghost": {"s": "s"}},
              "self.managed_indicators['signal']": {"role": "helper", "ghost": {"s": "w", "xeps": "eps"}}},
        inv={
            "dict": (f"isdict({R('N')})", ["C06", "C09"]),
            "presence-macd": (f"iff({R('M')} is not None, j >= w)", ["C06", "C09"]),
            "presence-signal": (f"iff({R('SG')} is not None, j >= ws) and iff({R('HI')} is not None, j >= ws)", ["C06", "C09"]),
            "macd-is-fast-minus-slow": (f"implies(j >= w, isfloat({R('M')}) and Abs({NUM('M')} - ({NUM('F')} - {NUM('S')})) <= eps)", ["C06"]),
            "signal-is-ema-of-macd": (f"implies(j >= ws, isfloat({R('SG')}) and Abs({NUM('SG')} - {NUM('SIG')}) <= eps)", ["C06"]),
            "histogram": (f"implies(j >= ws, isfloat({R('HI')}) and Abs({NUM('HI')} - ({NUM('M')} - {NUM('SG')})) <= 3 * eps)", ["C06", "C10"]),
        },
        variants=[{}, {"input_value": "dotted"}],
        window="0",
        props=["C01", "C02", "C06", "C09", "C10", "C14"],
    ),
]

ST, SK, SD_ = "f'{N}.stoch'", "f'{N}.k'", "f'{N}.d'"
DST, DK = "f'{N}_data.stoch'", "f'{N}_data.k'"
LLS = "MinOf(j - period + 1, j + 1, lambda t: num(Rd(c, t, 'low')))"
HHS = "MaxOf(j - period + 1, j + 1, lambda t: num(Rd(c, t, 'high')))"
SPECS += [
    IndSpec(
        "hexital.indicators.stoch.STOCH",
        params=dict(RV, period=("int", None), slow_period=("int", None), smoothing_k=("int", None),
                    input_value=("lit:close", None)),
        lets=dict(LETS, X="input_value", w="period - 1", wk="period - 1 + smoothing_k - 1",
                  wd="period - 1 + smoothing_k - 1 + slow_period - 1", KN="f'{N}_k'", DN="f'{N}_d'"),
        extra_pre=dict(PRE_RV, **{"periods": "period >= 2 and slow_period >= 2 and smoothing_k >= 2"}),
        helpers=["f'{N}_data'"],
        subs={"self.managed_indicators['STOCH_data'].sub_indicators[f'{N}_k']": {"role": "helper", "ghost": {"s": "w"}},
              "self.managed_indicators['STOCH_d']": {"role": "helper", "ghost": {"s": "wk"}}},
        inv={
            "dict": (f"isdict({R('N')})", ["C06", "C09"]),
            "data-stoch": (f"iff({R(DST)} is not None, j >= w) and implies(j >= w, isnum({R(DST)}))", ["C06", "C09"]),
            "data-k": (f"iff({R(DK)} is not None, j >= wk) and implies(j >= wk, isnum({R(DK)}))", ["C06", "C09"]),
            "presence": (f"iff({R(ST)} is not None, j >= w) and iff({R(SK)} is not None, j >= wk) and iff({R(SD_)} is not None, j >= wd)", ["C06", "C09"]),
            "stoch-formula": (f"implies(j >= w and {HHS} > {LLS}, Abs({NUM(ST)} - 100 * ({NUM('X')} - {LLS}) / ({HHS} - {LLS})) <= eps)", ["C06"], {"assume": False}),
            "stoch-flat-window": (f"implies(j >= w and {HHS} == {LLS}, {NUM(ST)} == 0)", ["C06"], {"assume": False}),
            "0<=stoch<=100": (f"implies(j >= w, 0 <= {NUM(ST)} and {NUM(ST)} <= 100 and 0 <= {NUM(DST)} and {NUM(DST)} <= 100)", ["C10"]),
            "k-is-stored-k": (f"implies(j >= wk, Abs({NUM(SK)} - {NUM(DK)}) <= eps)", ["C06"]),
            "d-is-sma-of-k": (f"implies(j >= wd, Abs({NUM(SD_)} - {NUM('DN')}) <= eps)", ["C06"]),
        },
        window="period",
        props=["C01", "C02", "C06", "C09", "C10", "C14"],
    ),
]

TD = "self.managed_indicators['TSI_data']"
SPECS += [
    IndSpec(
        "hexital.indicators.tsi.TSI",
        params=dict(RV, period=("int", None), smooth_period=("int", None), input_value=("name", None), s=("int", None)),
        ctor={"skip": ("s",)},
        lets=dict(LETS, X="input_value", w1="s + 1", w2="s + period", w="s + period + smooth_period - 1",
                  P="f'{N}_data.price'", AP="f'{N}_data.abs_price'", S2="f'{N}_second'", A2="f'{N}_abs_second'"),
        extra_pre=dict(PRE_RV, **{"periods": "period >= 2 and smooth_period >= 2"}),
        inputs={"X": ("s", "num")},
        helpers=["f'{N}_data'"],
        subs={
            TD + ".sub_indicators[f'{N}_first']": {"role": "helper", "ghost": {"s": "w1"}},
            TD + ".sub_indicators[f'{N}_first'].sub_indicators[f'{N}_second']": {"role": "helper", "ghost": {"s": "w2"}, "parent": TD + ".sub_indicators[f'{N}_first']"},
            TD + ".sub_indicators[f'{N}_abs_first']": {"role": "helper", "ghost": {"s": "w1"}},
            TD + ".sub_indicators[f'{N}_abs_first'].sub_indicators[f'{N}_abs_second']": {"role": "helper", "ghost": {"s": "w2"}, "parent": TD + ".sub_indicators[f'{N}_abs_first']"},
        },
        inv={
            "data-momentum": (f"iff({R('P')} is not None, j >= w1) and iff({R('AP')} is not None, j >= w1)"
                              f" and implies(j >= w1, isnum({R('P')}) and isnum({R('AP')}) and {NUM('P')} == {NUM('X')} - {NUM('X', 'j - 1')}"
                              f" and {NUM('AP')} == Abs({NUM('X')} - {NUM('X', 'j - 1')}))", ["C06", "C09"]),
            "presence": (f"iff({R('N')} is not None, j >= w)", ["C06", "C09"]),
            "type": (f"implies(j >= w, isfloat({R('N')}))", ["C06", "C09"]),
            "rounded": ROUNDED,
            "tsi": (f"implies(j >= w and {NUM('A2')} != 0, Abs({NUM('N')} - 100 * ({NUM('S2')} / {NUM('A2')})) <= eps)", ["C06"]),
            "tsi-no-movement": (f"implies(j >= w and {NUM('A2')} == 0, {NUM('N')} == 0)", ["C06"]),
        },
        variants=[{}, {"input_value": "dotted"}],
        window="1",
        props=["C01", "C02", "C06", "C09", "C10", "C14"],
    ),
    IndSpec(
        "hexital.indicators.hma.HMA",
        params=dict(RV, period=("int", None), input_value=("name", None), s=("int", None)),
        ctor={"skip": ("s",)},
        lets=dict(LETS, X="input_value", w1="s + period - 1", HS="f'{N}_HMAs'", HR="f'{N}_HMAr'", W1="f'{N}_WMA'", W2="f'{N}_WMAh'"),
        # periods 2 and 3 give helper WMAs of period 1 (int(p / 2), int(sqrt(p))): inside the WMA contract (period >= 1)
        extra_pre=dict(PRE_RV, **{"period>=2": "period >= 2"}),
        inputs={"X": ("s", "num")},
        helpers=["f'{N}_HMAr'"],
        subs={
            "self.sub_indicators[f'{N}_WMA']": {"role": "prior", "ghost": {"s": "s"}},
            "self.sub_indicators[f'{N}_WMAh']": {"role": "prior", "ghost": {"s": "s"}},
            "self.managed_indicators['raw_HMA'].sub_indicators[f'{N}_HMAs']": {"role": "helper", "ghost": {"s": "w1"}},
        },
        inv={
            "raw-series": (f"iff({R('HR')} is not None, j >= w1) and implies(j >= w1, isnum({R('HR')}) and {NUM('HR')} == 2 * {NUM('W2')} - {NUM('W1')})", ["C04", "C09"]),
            "presence": (f"iff({R('N')} is not None, {R('HS')} is not None) and implies(j < w1, {R('N')} is None)", ["C04", "C09"]),
            "hma-is-wma-of-raw": (f"implies({R('N')} is not None, isfloat({R('N')}) and Abs({NUM('N')} - {NUM('HS')}) <= eps)", ["C04"]),
        },
        variants=[{}, {"input_value": "dotted"}],
        window="0",
        props=["C01", "C02", "C04", "C09", "C10", "C14"],
    ),
]

AD = "self.managed_indicators['ADX_data']"
HI1, LO1 = "num(Rd(c, j - 1, 'high'))", "num(Rd(c, j - 1, 'low'))"
HI0, LO0 = "num(Rd(c, j, 'high'))", "num(Rd(c, j, 'low'))"
UP, DOWN = f"({HI0} - {HI1})", f"({LO1} - {LO0})"
SPECS += [
    IndSpec(
        "hexital.indicators.adx.ADX",
        params=dict(RV, period=("int", None), period_signal=("int", None)),
        lets=dict(LETS, w="period", wa="period + period_signal - 1", ATRN="f'{N}_atr'", PN="f'{N}_pos'", NN="f'{N}_neg'", DXN="f'{N}_dx'",
                  DP="f'{N}_data.pos'", DN="f'{N}_data.neg'", DDX="f'{N}_data.dx'",
                  FA="f'{N}.ADX'", FP="f'{N}.DM_Plus'", FN="f'{N}.DM_Neg'"),
        extra_pre=dict(PRE_RV, **{"periods": "period >= 2 and period_signal >= 2"}),
        helpers=["f'{N}_data'"],
        subs={
            "self.sub_indicators[f'{N}_atr']": {"role": "prior"},
            AD + ".sub_indicators[f'{N}_pos']": {"role": "helper", "ghost": {"s": "1"}},
            AD + ".sub_indicators[f'{N}_neg']": {"role": "helper", "ghost": {"s": "1"}},
            "self.managed_indicators['dx']": {"role": "helper", "ghost": {"s": "w"}},
        },
        inv={
            "dict": (f"isdict({R('N')})", ["C06", "C09"]),
            "directional-movement": (f"iff({R('DP')} is not None, j >= 1) and iff({R('DN')} is not None, j >= 1) and implies(j >= 1,"
                                     f" isnum({R('DP')}) and isnum({R('DN')})"
                                     f" and {NUM('DP')} == ({UP} if {UP} > {DOWN} and {UP} > 0 else 0)"
                                     f" and {NUM('DN')} == ({DOWN} if {DOWN} > {UP} and {DOWN} > 0 else 0))", ["C06", "C09"]),
            "dx-series": (f"iff({R('DDX')} is not None, j >= w) and implies(j >= w, isnum({R('DDX')}))", ["C06", "C09"]),
            "presence": (f"iff({R('FP')} is not None, j >= w) and iff({R('FN')} is not None, j >= w) and iff({R('FA')} is not None, j >= wa)", ["C06", "C09"]),
            "plus-di": (f"implies(j >= w and {NUM('ATRN')} != 0, Abs({NUM('FP')} - 100 * {NUM('PN')} / {NUM('ATRN')}) <= eps)", ["C06"]),
            "minus-di": (f"implies(j >= w and {NUM('ATRN')} != 0, Abs({NUM('FN')} - 100 * {NUM('NN')} / {NUM('ATRN')}) <= eps)", ["C06"]),
            "di-flat-market": (f"implies(j >= w and {NUM('ATRN')} == 0, {NUM('FP')} == 0 and {NUM('FN')} == 0)", ["C06"]),
            "adx-is-smoothed-dx": (f"implies(j >= wa, isfloat({R('FA')}) and Abs({NUM('FA')} - {NUM('DXN')}) <= eps)", ["C06"]),
        },
        window="1",
        props=["C01", "C02", "C06", "C09", "C10", "C14"],
    ),
]

CL = "num(Rd(c, j, 'close'))"
UPD, LOD = "f'{N}_data.upper'", "f'{N}_data.lower'"
DIR, TRD, LNG, SHT = "f'{N}.direction'", "f'{N}.trend'", "f'{N}.long'", "f'{N}.short'"
PUP, PLO = "num(Rd(c, j - 1, f'{N}_data.upper'))", "num(Rd(c, j - 1, f'{N}_data.lower'))"
RAWU = "(num(Rd(c, j, f'{N}_HL')) + multiplier * num(Rd(c, j, f'{N}_atr')))"
RAWL = "(num(Rd(c, j, f'{N}_HL')) - multiplier * num(Rd(c, j, f'{N}_atr')))"
SPECS += [
    IndSpec(
        "hexital.indicators.supertrend.Supertrend",
        params=dict(RV, period=("int", None), multiplier=("float", None)),
        lets=dict(LETS, w="period"),
        extra_pre=dict(PRE_RV, **{"period>=2": "period >= 2", "multiplier>0": "multiplier > 0"}),
        helpers=["f'{N}_data'"],
        subs={"self.sub_indicators[f'{N}_atr']": {"role": "prior"},
              "self.sub_indicators[f'{N}_HL']": {"role": "prior"}},
        inv={
            "dict": (f"isdict({R('N')})", ["C05", "C09"]),
            "direction-is-plus-or-minus-one": (f"isint({R(DIR)}) and ({NUM(DIR)} == 1 or {NUM(DIR)} == -1)", ["C05", "C10"]),
            "bands-stored": (f"iff({R(UPD)} is not None, j >= w) and iff({R(LOD)} is not None, j >= w) and implies(j >= w, isnum({R(UPD)}) and isnum({R(LOD)}))", ["C05", "C09"]),
            "presence": (f"iff({R(TRD)} is not None, j >= w) and implies(j < w, {R(LNG)} is None and {R(SHT)} is None and {NUM(DIR)} == 1)", ["C05", "C09"]),
            "exactly-one-of-long-short": (f"implies(j >= w, iff({R(LNG)} is not None, {NUM(DIR)} == 1) and iff({R(SHT)} is not None, {NUM(DIR)} == -1))", ["C10"]),
            "trend-equals-active-band": (f"implies(j >= w and {NUM(DIR)} == 1, {NUM(TRD)} == {NUM(LNG)} and Abs({NUM(TRD)} - {NUM(LOD)}) <= eps)"
                                         f" and implies(j >= w and {NUM(DIR)} == -1, {NUM(TRD)} == {NUM(SHT)} and Abs({NUM(TRD)} - {NUM(UPD)}) <= eps)", ["C05", "C10"]),
            "first-bands": (f"implies(j == w, {NUM(UPD)} == {RAWU} and {NUM(LOD)} == {RAWL} and {NUM(DIR)} == 1)", ["C05"]),
            "flip-up-when-close-breaks-upper": (f"implies(j > w and {CL} > {PUP}, {NUM(DIR)} == 1 and {NUM(UPD)} == {RAWU} and {NUM(LOD)} == {RAWL})", ["C05"]),
            "flip-down-when-close-breaks-lower": (f"implies(j > w and not ({CL} > {PUP}) and {CL} < {PLO}, {NUM(DIR)} == -1 and {NUM(UPD)} == {RAWU} and {NUM(LOD)} == {RAWL})", ["C05"]),
            "otherwise-direction-kept": (f"implies(j > w and not ({CL} > {PUP}) and not ({CL} < {PLO}), {NUM(DIR)} == num(Rd(c, j - 1, f'{{N}}.direction')))", ["C05"]),
            "lower-band-only-rises-in-uptrend": (f"implies(j > w and not ({CL} > {PUP}) and not ({CL} < {PLO}) and {NUM(DIR)} == 1, {NUM(LOD)} == Max({RAWL}, {PLO}) and {NUM(UPD)} == {RAWU})", ["C05"]),
            "upper-band-only-falls-in-downtrend": (f"implies(j > w and not ({CL} > {PUP}) and not ({CL} < {PLO}) and {NUM(DIR)} == -1, {NUM(UPD)} == Min({RAWU}, {PUP}) and {NUM(LOD)} == {RAWL})", ["C05"]),
        },
        window="1",
        props=["C01", "C02", "C05", "C09", "C10", "C14"],
    ),
]
