"""Layer 3: indicators that drive managed sub-indicators per index (MACD, STOCH, TSI, HMA, ADX)."""
from hexvc.indicators import IndSpec
from contracts.ind_simple import RV, PRE_RV, ROUNDED, LETS
from contracts.ind_managed import R, NUM

SPECS = [
    IndSpec(
        "hexital.indicators.macd.MACD",
        params=dict(RV, fast_period=("int", None), slow_period=("int", None), signal_period=("int", None),
                    input_value=("name", None), s=("int", None)),
        ctor={"skip": ("s",)},
        lets=dict(LETS, X="input_value", w="s + slow_period - 1", ws="s + slow_period - 1 + signal_period - 1",
                  F="f'{N}_EMA_fast'", S="f'{N}_EMA_slow'", SIG="f'{N}_signal_line'",
                  M="f'{N}.MACD'", SG="f'{N}.signal'", HI="f'{N}.histogram'"),
        extra_pre=dict(PRE_RV, **{"periods": "2 <= fast_period and fast_period < slow_period and signal_period >= 2"}),
        inputs={"X": ("s", "num")},
        subs={"self.sub_indicators[f'{N}_EMA_fast']": {"role": "prior", "ghost": {"s": "s"}},
              "self.sub_indicators[f'{N}_EMA_slow']": {"role": "prior", "ghost": {"s": "s"}},
              "self.managed_indicators['signal']": {"role": "helper", "ghost": {"s": "w", "xeps": "eps"}}},
        inv={
            "dict": (f"isdict({R('N')})", ["C06", "C09"]),
            "presence-macd": (f"iff({R('M')} is not None, j >= w)", ["C06", "C09"]),
            "presence-signal": (f"iff({R('SG')} is not None, j >= ws) and iff({R('HI')} is not None, j >= ws)", ["C06", "C09"]),
            "macd-is-fast-minus-slow": (f"implies(j >= w, isfloat({R('M')}) and Abs({NUM('M')} - ({NUM('F')} - {NUM('S')})) <= eps)", ["C06"]),
            "signal-is-ema-of-macd": (f"implies(j >= ws, isfloat({R('SG')}) and Abs({NUM('SG')} - {NUM('SIG')}) <= eps)", ["C06"]),
            "histogram": (f"implies(j >= ws, isfloat({R('HI')}) and Abs({NUM('HI')} - ({NUM('M')} - {NUM('SG')})) <= 3 * eps)", ["C06", "C10"]),
        },
        variants=[{}, {"input_value": "dotted"}],
        window="0",
        props=["C01", "C02", "C06", "C09", "C10", "C14"],
    ),
]
