"""The Amorph wrapper: a movement / pattern function used as an indicator (C01, C02, C16)."""
from hexvc.indicators import IndSpec
from contracts.ind_simple import RV, PRE_RV, LETS


def _separate(ex, st, args, kwargs, node):
    """Amorph._separate_indicator_attributes uses inspect.getmembers(Indicator) to find the Indicator field names:
    modelled as the declared dataclass fields of Indicator (same set)"""
    from hexvc.state import DictP

    def gen():
        d = st.heap[args[0].oid].items
        cls = ex.ctx.source.module("hexital.core.indicator").classes["Indicator"]
        ex.ctx.source.resolve_class_bases(cls)
        names = {f[0][0] for f in cls.all_fields()}
        analysis = {k: v for k, v in d.items() if k not in names}
        rest = {k: v for k, v in d.items() if k in names}
        from hexvc.exec import TupleV
        yield st, TupleV((st.alloc(DictP(analysis)), st.alloc(DictP(rest))))
    return gen()


NATIVES = {"hexital.indicators.amorph.Amorph._separate_indicator_attributes": _separate}
SCAL = "forall(0, Len(c), lambda t: isnone(Rd(c, t, indicator)) or isnum(Rd(c, t, indicator)))"
SPECS = [
    IndSpec(
        "hexital.indicators.amorph.Amorph",
        params=dict(RV, analysis=("func:hexital.analysis.movement.rising", None), indicator=("name", None), length=("int", None)),
        lets=dict(LETS),
        extra_pre=dict(PRE_RV, **{"length>=1": "length >= 1", "scalar-input-readings": SCAL}),
        inv={"boolean-column": ("isbool(Rd(c, j, N))", ["C16", "C09"])},
        variants=[{}, {"analysis": "func:hexital.analysis.movement.falling"}, {"analysis": "func:hexital.analysis.movement.mean_rising"}],
        window="length",
        props=["C01", "C02", "C09", "C14", "C16"],
    ),
]
