"""Layer 3: moving averages (C04)."""
from hexvc.indicators import IndSpec

X_NUM = {"X": ("s", "num")}

COMMON_PRE = {"period>=2": "period >= 2", "round>=0": "round_value >= 0", "eps>0": "Hulp(round_value) > 0"}
ROUNDED = ("implies(isfloat(Rd(c, j, N)), Rnd(num(Rd(c, j, N)), round_value) == num(Rd(c, j, N)))", ["C10"])
SIG_X = "Sigma(j - period + 1, j + 1, lambda t: num0(Rd(c, t, X)))"

SPECS = [
    IndSpec(
        "hexital.indicators.sma.SMA",
        params={"period": ("int", None), "input_value": ("name", None), "round_value": ("int", None), "s": ("int", None)},
        ctor={"skip": ("s",)},
        lets={"X": "input_value", "w": "s + period - 1", "eps": "Hulp(round_value)"},
        extra_pre=COMMON_PRE,
        inputs=X_NUM,
        inv={
            "presence": ("iff(Rd(c, j, N) is not None, j >= w)", ["C04", "C09"]),
            "type": ("implies(j >= w, isfloat(Rd(c, j, N)))", ["C04", "C09"]),
            "rounded": ROUNDED,
            # the running update adds one rounding per step: drift (j - w + 1) * eps
            "window-mean": ("implies(j >= w, Abs(num(Rd(c, j, N)) - " + SIG_X + " / period) <= (j - w + 1) * eps)", ["C04"]),
        },
        variants=[{}, {"input_value": "dotted"}],
        window="period",
        props=["C01", "C02", "C04", "C09", "C10", "C14"],
    ),
    IndSpec(
        "hexital.indicators.ema.EMA",
        params={"period": ("int", None), "smoothing": ("float", None), "input_value": ("name", None), "round_value": ("int", None), "s": ("int", None), "xeps": ("float", None)},
        ctor={"skip": ("s", "xeps")},
        # xeps: bound on how much the stored input may differ from the value the reading was computed from
        # (0 for a top-level indicator; the parent's rounding when the input is a managed series that the
        # parent rounds after driving this indicator)
        lets={"X": "input_value", "w": "s + period - 1", "a": "smoothing / (period + 1)", "eps": "Hulp(round_value)"},
        extra_pre=dict(COMMON_PRE, **{"smoothing-range": "0 < smoothing and smoothing <= period + 1", "xeps>=0": "xeps >= 0"}),
        inputs=X_NUM,
        inv={
            "presence": ("iff(Rd(c, j, N) is not None, j >= w)", ["C04", "C09"]),
            "type": ("implies(j >= w, isfloat(Rd(c, j, N)))", ["C04", "C09"]),
            "rounded": ROUNDED,
            "seed": ("implies(j == w, Abs(num(Rd(c, j, N)) - Sigma(j - period + 1, j + 1, lambda t: num0(Rd(c, t, X))) / period) <= eps + xeps)", ["C04"], {"assume": False}),
            "recurrence": ("implies(j > w, Abs(num(Rd(c, j, N)) - (a * num(Rd(c, j, X)) + (1 - a) * num(Rd(c, j - 1, N)))) <= eps + a * xeps)", ["C04"]),
        },
        variants=[{}, {"input_value": "dotted"}],
        window="period",
        props=["C01", "C02", "C04", "C06", "C09", "C14"],
    ),
]

SPECS += [
    IndSpec(
        "hexital.indicators.wma.WMA",
        params={"period": ("int", None), "input_value": ("name", None), "round_value": ("int", None), "s": ("int", None)},
        ctor={"skip": ("s",)},
        lets={"X": "input_value", "w": "s + period - 1", "eps": "Hulp(round_value)"},
        # period 1 is a legal (degenerate) window: HMA builds WMA(int(p / 2)) and WMA(int(sqrt(p))) helpers, which are 1 for p = 2, 3.
        # case split: the symbolic variants assume period >= 2, the "const:1" variant covers period == 1
        extra_pre=dict(COMMON_PRE, **{"period>=2": "period >= 1"}),
        general_pre={"period": "period >= 2"},
        inputs=X_NUM,
        inv={
            "presence": ("iff(Rd(c, j, N) is not None, j >= w)", ["C04", "C09"]),
            "type": ("implies(j >= w, isfloat(Rd(c, j, N)))", ["C04", "C09"]),
            "rounded": ROUNDED,
            "weighted-mean": ("implies(j >= w, Abs(num(Rd(c, j, N)) - Sigma(0, period, lambda k: num(Rd(c, j - k, X)) * (period - k))"
                              " / (period * (period + 1) / 2)) <= eps)", ["C04"], {"assume": False}),
        },
        variants=[{}, {"input_value": "dotted"}, {"period": "const:1"}, {"period": "const:1", "mode": "index"}],
        window="period",
        props=["C01", "C02", "C04", "C09", "C10", "C14"],
    ),
    IndSpec(
        "hexital.indicators.rma.RMA",
        params={"period": ("int", None), "input_value": ("name", None), "round_value": ("int", None), "s": ("int", None)},
        ctor={"skip": ("s",)},
        lets={"X": "input_value", "w": "s + period - 1", "eps": "Hulp(round_value)", "a": "1.0 / period"},
        extra_pre=COMMON_PRE,
        inputs=X_NUM,
        inv={
            "presence": ("iff(Rd(c, j, N) is not None, j >= w)", ["C04", "C09"]),
            "type": ("implies(j >= w, isfloat(Rd(c, j, N)))", ["C04", "C09"]),
            "rounded": ROUNDED,
            # decay-weighted mean of the first full window
            "seed": ("implies(j == w, Abs(num(Rd(c, j, N)) * Sigma(0, period, lambda k: Pow(1 - a, k))"
                     " - Sigma(0, period, lambda k: Pow(1 - a, k) * num(Rd(c, j - k, X)))) <= eps * Sigma(0, period, lambda k: Pow(1 - a, k)))", ["C04"], {"assume": False}),
            "recurrence": ("implies(j > w, Abs(num(Rd(c, j, N)) - (a * num(Rd(c, j, X)) + (1 - a) * num(Rd(c, j - 1, N)))) <= eps)", ["C04"]),
        },
        variants=[{}, {"input_value": "dotted"}],
        window="period",
        props=["C01", "C02", "C04", "C06", "C09", "C10", "C14"],
    ),
]
