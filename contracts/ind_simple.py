"""Layer 3: single-pass indicators without managed helpers (TR, HLA, ROC, OBV, Counter, VWMA)."""
from hexvc.indicators import IndSpec

RV = {"round_value": ("int", None)}
PRE_RV = {"round>=0": "round_value >= 0", "eps>0": "Hulp(round_value) > 0"}
ROUNDED = ("implies(isfloat(Rd(c, j, N)), Rnd(num(Rd(c, j, N)), round_value) == num(Rd(c, j, N)))", ["C10"])
LETS = {"eps": "Hulp(round_value)"}
H, L, C, O, VOL = ("num(Rd(c, j, 'high'))", "num(Rd(c, j, 'low'))", "num(Rd(c, j, 'close'))", "num(Rd(c, j, 'open'))", "num(Rd(c, j, 'volume'))")
C1 = "num(Rd(c, j - 1, 'close'))"

TR_INV = {
    "presence": ("iff(Rd(c, j, N) is not None, j >= 1)", ["C05", "C09"]),
    "type": ("implies(j >= 1, isfloat(Rd(c, j, N)))", ["C05", "C09"]),
    "rounded": ROUNDED,
    "true-range": (f"implies(j >= 1, Abs(num(Rd(c, j, N)) - Max({H} - {L}, Abs({H} - {C1}), Abs({L} - {C1}))) <= eps)", ["C05"]),
    "tr>=0": ("implies(j >= 1, num(Rd(c, j, N)) >= 0)", ["C10"]),
    "tr>=high-low>=0": (f"implies(j >= 1, num(Rd(c, j, N)) >= {H} - {L} - eps and {H} - {L} >= 0)", ["C10"]),
}

SPECS = [
    IndSpec(
        "hexital.indicators.tr.TR",
        params=dict(RV), lets=dict(LETS), extra_pre=dict(PRE_RV),
        inv=TR_INV, window="1",
        props=["C01", "C02", "C05", "C09", "C10", "C14"],
    ),
    IndSpec(
        "hexital.indicators.hla.HighLowAverage",
        params=dict(RV), lets=dict(LETS), extra_pre=dict(PRE_RV),
        inv={
            "presence": ("isfloat(Rd(c, j, N))", ["C05", "C09"]),
            "rounded": ROUNDED,
            "mean-of-high-low": (f"Abs(num(Rd(c, j, N)) - ({H} + {L}) / 2) <= eps", ["C05"]),
        },
        window="0",
        props=["C01", "C02", "C05", "C09", "C10", "C14"],
    ),
    IndSpec(
        "hexital.indicators.roc.ROC",
        params=dict(RV, period=("int", None), input_value=("name", None), s=("int", None)),
        ctor={"skip": ("s",)},
        lets=dict(LETS, X="input_value", w="s + period"),
        extra_pre=dict(PRE_RV, **{"period>=2": "period >= 2",
                                  "inputs-nonzero": "forall(0, Len(c), lambda t: implies(Rd(c, t, X) is not None, num(Rd(c, t, X)) != 0))"}),
        inputs={"X": ("s", "num")},
        inv={
            "presence": ("iff(Rd(c, j, N) is not None, j >= w)", ["C06", "C09"]),
            "type": ("implies(j >= w, isfloat(Rd(c, j, N)))", ["C06", "C09"]),
            "rounded": ROUNDED,
            "rate-of-change": ("implies(j >= w, Abs(num(Rd(c, j, N)) - 100 * (num(Rd(c, j, X)) - num(Rd(c, j - period, X))) / num(Rd(c, j - period, X))) <= eps)", ["C06"]),
        },
        variants=[{}, {"input_value": "dotted"}],
        window="period",
        props=["C01", "C02", "C06", "C09", "C10", "C14"],
    ),
    IndSpec(
        "hexital.indicators.obv.OBV",
        params=dict(RV), lets=dict(LETS), extra_pre=dict(PRE_RV),
        inv={
            "presence": ("isnum(Rd(c, j, N))", ["C06", "C09"]),
            "rounded": ROUNDED,
            "first": (f"implies(j == 0, Abs(num(Rd(c, j, N)) - {VOL}) <= eps)", ["C06"]),
            "rises-with-close": (f"implies(j >= 1 and {C} > {C1}, Abs(num(Rd(c, j, N)) - (num(Rd(c, j - 1, N)) + {VOL})) <= eps)", ["C06", "C10"]),
            "falls-with-close": (f"implies(j >= 1 and {C} < {C1}, Abs(num(Rd(c, j, N)) - (num(Rd(c, j - 1, N)) - {VOL})) <= eps)", ["C06", "C10"]),
            "unchanged-on-equal-close": (f"implies(j >= 1 and {C} == {C1}, Abs(num(Rd(c, j, N)) - num(Rd(c, j - 1, N))) <= eps)", ["C06", "C10"]),
        },
        window="1",
        props=["C01", "C02", "C06", "C09", "C10", "C14"],
    ),
    IndSpec(
        "hexital.indicators.vwma.VWMA",
        params=dict(RV, period=("int", None)),
        lets=dict(LETS, w="period - 1"),
        extra_pre=dict(PRE_RV, **{"period>=2": "period >= 2"}),
        inv={
            "presence": ("iff(Rd(c, j, N) is not None, j >= w)", ["C04", "C09"]),
            "type": ("implies(j >= w, isfloat(Rd(c, j, N)))", ["C04", "C09"]),
            "rounded": ROUNDED,
            "volume-weighted-mean": ("implies(j >= w and Sigma(j - period + 1, j + 1, lambda t: num(Rd(c, t, 'volume'))) > 0,"
                                     " Abs(num(Rd(c, j, N)) * Sigma(j - period + 1, j + 1, lambda t: num(Rd(c, t, 'volume')))"
                                     " - Sigma(j - period + 1, j + 1, lambda t: num(Rd(c, t, 'close')) * num(Rd(c, t, 'volume'))))"
                                     " <= eps * Sigma(j - period + 1, j + 1, lambda t: num(Rd(c, t, 'volume'))))", ["C04"], {"assume": False}),
        },
        window="period",
        props=["C01", "C02", "C04", "C09", "C10", "C14"],
    ),
    IndSpec(
        "hexital.indicators.counter.Counter",
        params=dict(RV, input_value=("name", None), count_value=("bool", None)),
        lets=dict(LETS, X="input_value"),
        extra_pre=dict(PRE_RV),
        inv={
            "non-negative-int": ("isint(Rd(c, j, N)) and num(Rd(c, j, N)) >= 0", ["C05", "C09", "C10"]),
            "missing-input-keeps-count": ("implies(Rd(c, j, X) is None, num(Rd(c, j, N)) == (num(Rd(c, j - 1, N)) if j >= 1 else 0))", ["C05"]),
            "match-increments": ("implies(Rd(c, j, X) is not None and Rd(c, j, X) == count_value, num(Rd(c, j, N)) == (num(Rd(c, j - 1, N)) if j >= 1 else 0) + 1)", ["C05", "C10"]),
            "mismatch-resets": ("implies(Rd(c, j, X) is not None and Rd(c, j, X) != count_value, num(Rd(c, j, N)) == 0)", ["C05", "C10"]),
        },
        variants=[{}, {"input_value": "dotted"}, {"count_value": "int"}],
        window="1",
        props=["C01", "C02", "C05", "C09", "C10", "C14"],
    ),
]


ATR_INV = {
    "presence": ("iff(Rd(c, j, N) is not None, j >= period)", ["C05", "C09"]),
    "type": ("implies(j >= period, isfloat(Rd(c, j, N)))", ["C05", "C09"]),
    "rounded": ROUNDED,
    "seed-mean-of-first-true-ranges": ("implies(j == period, Abs(num(Rd(c, j, N)) - Sigma(1, period + 1, lambda t: num0(Rd(c, t, TRN))) / period) <= eps)", ["C05"]),
    "wilder-recurrence": ("implies(j > period, Abs(num(Rd(c, j, N)) - (num(Rd(c, j - 1, N)) * (period - 1) + num(Rd(c, j, TRN))) / period) <= eps)", ["C05"]),
    "atr>=0": ("implies(j >= period, num(Rd(c, j, N)) >= 0)", ["C10"]),
}

SPECS += [
    IndSpec(
        "hexital.indicators.atr.ATR",
        params=dict(RV, period=("int", None)),
        lets=dict(LETS, TRN="f'{N}_TR'"),
        extra_pre=dict(PRE_RV, **{"period>=2": "period >= 2"}),
        subs={"self.sub_indicators[f'{N}_TR']": {"role": "prior"}},
        inv=ATR_INV,
        window="period",
        props=["C01", "C02", "C05", "C09", "C10", "C14"],
    ),
]
