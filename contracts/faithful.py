"""reading_by_candle / _nested_indicator verified against the spec function Rd on the faithful model of a
candle whose two reading dicts have arbitrary (symbolic) keys - the contract every accessor is phrased in (C20)."""
from hexvc.contracts import Contract
from hexvc.loops import LoopSpec

Q = "hexital.utils.candles."


def _setup(ex, st, env):
    # the key axioms at the looked-up names (and their positions as instantiation terms)
    from hexvc.symdict import mainpart
    c = st.heap[env["candle"].oid]
    for k in (env["name"].t, mainpart(env["name"].t)):
        c.key_facts(st, k)
        for d in (c.ind, c.sub):
            st.inst_terms.append(("term", d.pos(k)))


FAITHFUL = {
    Q + "reading_by_candle#faithful": (Q + "reading_by_candle", Contract(
        Q + "reading_by_candle",
        types={"candle": "symcandle", "name": "symname"},
        returns="RdC(candle, name)",
        setup=_setup,
        props=["C20", "C13"],
    )),
}
NOT_YET = lambda d, v: f"forall(0, it, lambda k: DictKey({d}, k) != {v})"
LOOPS = {
    (Q + "reading_by_candle", 0): LoopSpec(invariant={"not-found-yet": NOT_YET("candle.indicators", "name")}),
    (Q + "reading_by_candle", 1): LoopSpec(invariant={"not-found-yet": NOT_YET("candle.sub_indicators", "name")}),
    (Q + "_nested_indicator", 0): LoopSpec(invariant={"not-found-yet": NOT_YET("candle.indicators", "name")}),
    (Q + "_nested_indicator", 1): LoopSpec(invariant={"not-found-yet": NOT_YET("candle.sub_indicators", "name")}),
}
