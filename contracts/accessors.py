"""Accessors (C20, C19): every way of asking for a reading is specified by the one spec function Rd."""
from hexvc.contracts import Contract
from hexvc.loops import LoopSpec

I = "hexital.core.indicator.Indicator."
NM = "(name if name else self.name)"
CONTRACTS = [
    Contract(
        "hexital.utils.candles.reading_count",
        types={"candles": "series", "name": "name"},
        ensures={
            "range": "0 <= result and result <= Len(candles)",
            "trailing-candles-have-a-reading": "forall(0, result, lambda k: Rd(candles, Len(candles) - 1 - k, name) is not None)",
            "stops-at-first-missing": "implies(result < Len(candles), Rd(candles, Len(candles) - 1 - result, name) is None)",
        },
        result_type="int",
        props=["C20", "C19"],
    ),
    Contract(
        I + "reading",
        types={"self": "indicator", "name": "name|None", "index": "int|None"},
        lets={"ix": "index if index is not None else self._active_index"},
        requires={"index-in-range": "valid(ix, Len(self.candles))"},
        returns=f"Rd(self.candles, norm(ix, Len(self.candles)), {NM})",
        props=["C20", "C19"],
        use_at_calls=False, pure=True,
    ),
    Contract(
        I + "prev_reading",
        types={"self": "indicator", "name": "name|None"},
        requires={"active-in-range": "0 <= self._active_index and self._active_index < Len(self.candles)"},
        returns=f"None if self._active_index == 0 else Rd(self.candles, self._active_index - 1, {NM})",
        props=["C20", "C19"],
        use_at_calls=False, pure=True,
    ),
    Contract(
        I + "read_candle",
        types={"self": "indicator", "candle": "candle", "name": "name|None"},
        returns=f"RdC(candle, {NM})",
        props=["C20", "C19"],
        use_at_calls=False, pure=True,
    ),
    Contract(
        I + "as_list",
        types={"self": "indicator", "name": "name|None"},
        ensures={
            "one-entry-per-candle": "LenOf(result) == Len(self.candles)",
            "entries-are-the-readings": f"forall(0, Len(self.candles), lambda j: same(Elem(result, j), Rd(self.candles, j, {NM})))",
        },
        result_type="None",
        props=["C20", "C19"],
        use_at_calls=False, pure=True,
    ),
    Contract(
        I + "has_reading",
        types={"self": "indicator"},
        returns="Len(self.candles) > 0 and Rd(self.candles, Len(self.candles) - 1, self.name) is not None",
        props=["C20", "C19"],
        use_at_calls=False, pure=True,
    ),
    Contract(
        I + "reading_count",
        types={"self": "indicator", "name": "name|None"},
        ensures={
            "range": "0 <= result and result <= Len(self.candles)",
            "trailing-candles-have-a-reading": f"forall(0, result, lambda k: Rd(self.candles, Len(self.candles) - 1 - k, {NM}) is not None)",
            "stops-at-first-missing": f"implies(result < Len(self.candles), Rd(self.candles, Len(self.candles) - 1 - result, {NM}) is None)",
        },
        result_type="int",
        props=["C20", "C19"],
        use_at_calls=False, pure=True,
    ),
]
LOOPS = {
    ("hexital.utils.candles.reading_count", 0): LoopSpec(
        invariant={"all-seen-have-a-reading": "forall(0, it, lambda k: Rd(candles, Len(candles) - 1 - k, name) is not None)"},
        types={"count": "int"}),
}

H = "hexital.core.hexital.Hexital."


def hexital_builder(params):
    """a Hexital holding the default manager and one derived timeframe, each over its own symbolic candle list
    (object graph built directly: field values as the constructor leaves them)"""
    def build(ex, st):
        import z3
        from hexvc.state import DictP, ObjP
        from hexvc.tasks import new_series
        from hexvc.values import SInt, Tmpl, Atom
        src = ex.ctx.source
        hcls = src.module("hexital.core.hexital").classes["Hexital"]
        mcls = src.module("hexital.core.candle_manager").classes["CandleManager"]
        src.resolve_class_bases(hcls)
        src.resolve_class_bases(mcls)
        a, b = new_series(st, "base"), new_series(st, "t5")
        m0 = st.alloc(ObjP(mcls, {"candles": a, "timeframe": None, "timeframe_fill": False, "candles_lifespan": None, "candlestick_type": None}))
        m1 = st.alloc(ObjP(mcls, {"candles": b, "timeframe": "T5", "timeframe_fill": False, "candles_lifespan": None, "candlestick_type": None}))
        h = st.alloc(ObjP(hcls, {"name": "hex", "_candles": st.alloc(DictP({"default": m0, "T5": m1})), "_indicators": st.alloc(DictP({}))}))
        env = {"self": h, "base": a, "t5": b}
        args = [h]
        for p, ty in params:
            if ty == "name":
                v = Tmpl((Atom(p, "str"),))
            elif ty == "dotted":
                v = Tmpl((Atom(p, "str"), ".val"))
            elif ty == "int":
                v = SInt(z3.Int(p))
            env[p] = v
            args.append(v)
        yield st, args, {}, env
    return build


R0 = "RdI(base, {0}, name)"
R1 = "RdI(t5, {0}, name)"
FIRST = lambda ix: f"({R0.format(ix)} if {R0.format(ix)} is not None else {R1.format(ix)})"
HEX_TASKS = {
    H + "reading": dict(builder=hexital_builder([("name", "name"), ("index", "int")]), contract=Contract(
        H + "reading", returns=FIRST("index"), props=["C20", "C19"], use_at_calls=False, pure=True)),
    H + "reading#dotted": dict(qualname=H + "reading", builder=hexital_builder([("name", "dotted"), ("index", "int")]), contract=Contract(
        H + "reading", returns=FIRST("index"), props=["C20", "C19"], use_at_calls=False, pure=True)),
    H + "prev_reading": dict(builder=hexital_builder([("name", "name")]), contract=Contract(
        H + "prev_reading", returns=FIRST("-2"), props=["C20", "C19"], use_at_calls=False, pure=True)),
    H + "has_reading": dict(builder=hexital_builder([("name", "name")]), contract=Contract(
        H + "has_reading", returns=f"{FIRST('-1')} is not None", props=["C20", "C19"], use_at_calls=False, pure=True)),
}

def hexital_member_builder(ex, st):
    """a Hexital with one registered member (a real EMA built by the real constructor over the default manager's candles)"""
    import z3
    from hexvc.objects import instantiate
    from hexvc.state import DictP, ObjP
    from hexvc.tasks import new_series
    from hexvc.values import SInt
    src = ex.ctx.source
    hcls = src.module("hexital.core.hexital").classes["Hexital"]
    mcls = src.module("hexital.core.candle_manager").classes["CandleManager"]
    icls = src.module("hexital.indicators.ema").classes["EMA"]
    for c in (hcls, mcls, icls):
        src.resolve_class_bases(c)
    a = new_series(st, "base")
    outs = [(s1, o) for s1, o in instantiate(ex, icls, [], {"candles": a, "period": SInt(z3.Int("period")), "fullname_override": "first"}, st, None)]
    keep = [(s1, o) for s1, o in outs if ex.ctx.feasible(s1) and s1.heap[o.oid].fields.get("candles") == a]
    st1, ind = keep[0]
    m0 = st1.heap[ind.oid].fields["_candles"]
    h = st1.alloc(ObjP(hcls, {"name": "hex", "_candles": st1.alloc(DictP({"default": m0})), "_indicators": st1.alloc(DictP({"first": ind}))}))
    yield st1, [h, "first"], {}, {"self": h, "name": "first", "base": a, "ind": ind}


HEX_TASKS[H + "reading_as_list"] = dict(builder=hexital_member_builder, contract=Contract(
    H + "reading_as_list",
    ensures={
        "one-entry-per-candle": "LenOf(result) == Len(base)",
        "entries-are-the-readings": "forall(0, Len(base), lambda j: same(Elem(result, j), Rd(base, j, 'first')))",
    },
    result_type="None", props=["C20", "C19"], use_at_calls=False, pure=True))

def hexital_candles_builder(tf):
    inner = hexital_builder([])

    def build(ex, st):
        for st1, args, kwargs, env in inner(ex, st):
            yield st1, [args[0], tf], {}, dict(env, timeframe=tf)
    return build


for _tf, _want in ((None, "base"), ("T5", "t5"), ("T3", "base")):
    HEX_TASKS[H + f"candles#{_tf}"] = dict(qualname=H + "candles", builder=hexital_candles_builder(_tf), contract=Contract(
        H + "candles", ensures={"the-candles-of-the-named-manager-else-the-base-candles": f"result is {_want}"},
        result_type="None", props=["C19", "C20"], use_at_calls=False, pure=True))

CONTRACTS += [
    Contract(I + "__str__", types={"self": "indicator"}, ensures={"is-a-string": "isinstance_str(result)"}, result_type="None",
             props=["C19"], use_at_calls=False, pure=True),
    Contract(I + "name", types={"self": "indicator"}, returns="self._output_name", props=["C19", "C20"], use_at_calls=False, pure=True),
    Contract(I + "settings", types={"self": "indicator"}, ensures={"names-the-class": "isdictobj(result)"}, result_type="None",
             props=["C19", "C08"], use_at_calls=False, pure=True),
]

K = "hexital.core.candle.Candle."


def candle_list_builder(shape):
    def build(ex, st):
        import z3
        from hexvc.state import ListP
        from hexvc.timevals import DateTimeV
        from hexvc.values import SFloat, SNum
        from hexvc.exec import ClassVal
        src = ex.ctx.source
        ccls = src.module("hexital.core.candle").classes["Candle"]
        src.resolve_class_bases(ccls)
        o, h, l, c = (SFloat(z3.Real(n)) for n in ("o", "h", "l", "c"))
        v = SNum(z3.Real("v"), z3.Bool("v.isf"))
        ts = DateTimeV(z3.Int("ts"))
        items = {"last": [o, h, l, c, v, ts], "first": [ts, o, h, l, c, v], "none": [o, h, l, c, v]}[shape]
        lst = st.alloc(ListP(items))
        env = {"cls": ClassVal(ccls), "candle": lst, "o": o, "h": h, "l": l, "c": c, "v": v, "ts": ts if shape != "none" else None}
        yield st, [ClassVal(ccls), lst], {}, env
    return build


FROM_LIST = Contract(
    K + "from_list",
    ensures={
        "ohlcv": "result.open == o and result.high == h and result.low == l and result.close == c and result.volume == v",
        "timestamp": "(result.timestamp == ts) if ts is not None else (result.timestamp is None)",
        "no-readings": "LenOf(result.indicators_list) == 0" if False else "True",
    },
    result_type="None", props=["C19"], use_at_calls=False, pure=True)
for _shape in ("last", "first", "none"):
    HEX_TASKS[K + f"from_list#timestamp-{_shape}"] = dict(qualname=K + "from_list", builder=candle_list_builder(_shape), contract=FROM_LIST)


# ---- Hexital operations select their target by EXACT name (C13, C14)
def hexital_ops_builder(ex, st):
    """a Hexital with two registered indicators whose names are arbitrary (symbolic) strings; the indicators
    are stubs that record which operation reached them"""
    import z3
    from hexvc.state import DictP, ObjP
    from hexvc.symdict import SKey
    from hexvc.tasks import new_series
    src = ex.ctx.source
    hcls = src.module("hexital.core.hexital").classes["Hexital"]
    icls = src.module("hexital.indicators.ema").classes["EMA"]
    mcls = src.module("hexital.core.candle_manager").classes["CandleManager"]
    for c in (hcls, icls, mcls):
        src.resolve_class_bases(c)
    a = new_series(st, "base")
    m0 = st.alloc(ObjP(mcls, {"candles": a, "timeframe": None, "timeframe_fill": False, "candles_lifespan": None, "candlestick_type": None}))
    n1, n2, name = SKey(z3.Int("n1")), SKey(z3.Int("n2")), SKey(z3.Int("name"))
    st.assume(z3.Int("n1") != z3.Int("n2"))
    i1 = st.alloc(ObjP(icls, {"_output_name": n1, "touched": False}))
    i2 = st.alloc(ObjP(icls, {"_output_name": n2, "touched": False}))
    h = st.alloc(ObjP(hcls, {"name": "hex", "_candles": st.alloc(DictP({"default": m0})), "_indicators": st.alloc(DictP({n1: i1, n2: i2}))}))
    yield st, [h, name], {}, {"self": h, "name": name, "n1": n1, "n2": n2, "i1": i1, "i2": i2}


def _touch(ex, st, args, kwargs, node):
    def gen():
        st.heap[args[0].oid].fields["touched"] = True
        yield st, None
    return gen()


def _writer_forbidden(what):
    def nat(ex, st, args, kwargs, node):
        def gen():
            import z3
            ex.ctx.oblige(st, "frame-write", f"candles-are-only-touched-through-the-members-own-operations: {what}", z3.BoolVal(False), node)
            yield st, None
        return gen()
    return nat


OPS_NATIVES = {I + "purge": _touch, I + "calculate": _touch, I + "recalculate": _touch}
EXACT = {"first-touched-iff-named": "iff(i1.touched == True, name == n1)", "second-touched-iff-named": "iff(i2.touched == True, name == n2)"}
for _op in ("purge", "calculate", "recalculate"):
    HEX_TASKS[H + _op + "#by-name"] = dict(qualname=H + _op, builder=hexital_ops_builder, natives=OPS_NATIVES,
                                           contract=Contract(H + _op, ensures=dict(EXACT), result_type="None", props=["C13", "C14"], use_at_calls=False))


# ---- C14: Hexital.calculate_index hands the caller's index to every selected member unchanged (each member resolves a
# negative index against ITS OWN candle list: members on derived timeframes have lists of other lengths)
def _got_index(ex, st, args, kwargs, node):
    def gen():
        o = st.heap[args[0].oid]
        o.fields["touched"] = True
        o.fields["got"] = args[1] if len(args) > 1 else kwargs.get("start_index", kwargs.get("index"))
        yield st, None
    return gen()


def hexital_index_builder(ex, st):
    import z3
    from hexvc.values import SInt
    for st1, args, kwargs, env in hexital_ops_builder(ex, st):
        ix = SInt(z3.Int("index"))
        env = dict(env, index=ix)
        yield st1, [args[0], None, ix], {}, env


HEX_TASKS[H + "calculate_index#all-members"] = dict(
    qualname=H + "calculate_index", builder=hexital_index_builder, natives={I + "calculate_index": _got_index},
    contract=Contract(H + "calculate_index", ensures={
        "every-member-gets-the-callers-index": "i1.touched == True and i2.touched == True and i1.got == index and i2.got == index"},
        result_type="None", props=["C14"], use_at_calls=False))


# ---- C08: an indicator that is given a new candle manager moves over completely: itself and the helper series that already
# exist (an Indicator object that was used before it was handed to a Hexital)
def setter_builder(ex, st):
    from hexvc.state import DictP, ListP, ObjP
    src = ex.ctx.source
    icls = src.module("hexital.indicators.ema").classes["EMA"]
    mcls = src.module("hexital.core.candle_manager").classes["CandleManager"]
    for c in (icls, mcls):
        src.resolve_class_bases(c)
    mk = lambda tf: st.alloc(ObjP(mcls, {"candles": st.alloc(ListP([])), "timeframe": tf, "timeframe_fill": False, "candles_lifespan": None, "candlestick_type": None}))
    old, new = mk(None), mk("T5")
    mki = lambda nm, subs, man: st.alloc(ObjP(icls, {"_output_name": nm, "_candles": old, "candles": st.heap[old.oid].fields["candles"], "timeframe": None,
                                                      "timeframe_fill": False, "candles_lifespan": None, "candlestick_type": None,
                                                      "sub_indicators": st.alloc(DictP(subs)), "managed_indicators": st.alloc(DictP(man))}))
    deep = mki("owner_sub_deep", {}, {})
    sub = mki("owner_sub", {"owner_sub_deep": deep}, {})
    man = mki("owner_data", {}, {})
    owner = mki("owner", {"owner_sub": sub}, {"data": man})
    yield st, [owner, new], {}, {"self": owner, "manager": new, "sub": sub, "man": man, "deep": deep, "new": new, "old": old}


HEX_TASKS[I + "candle_manager__setter"] = dict(builder=setter_builder, contract=Contract(
    I + "candle_manager__setter",
    ensures={
        "the-indicator-adopts-the-manager": "self._candles is new and self.candles is new.candles and self.timeframe == 'T5'",
        "helper-series-at-any-depth-follow": "sub._candles is new and man._candles is new and deep._candles is new"
                                             " and sub.candles is new.candles and man.candles is new.candles and deep.candles is new.candles",
        "the-managers-are-not-modified": "new.timeframe == 'T5' and new.candles_lifespan is None and old.timeframe is None",
    }, result_type="None", props=["C08", "C13"], use_at_calls=False))


# ---- C13: removing one member leaves the other members and every candle manager in place
def remove_builder(ex, st):
    from hexvc.state import DictP, ListP, ObjP
    src = ex.ctx.source
    hcls = src.module("hexital.core.hexital").classes["Hexital"]
    icls = src.module("hexital.indicators.ema").classes["EMA"]
    mcls = src.module("hexital.core.candle_manager").classes["CandleManager"]
    for c in (hcls, icls, mcls):
        src.resolve_class_bases(c)
    mk = lambda tf: st.alloc(ObjP(mcls, {"candles": st.alloc(ListP([])), "timeframe": tf, "timeframe_fill": False, "candles_lifespan": None, "candlestick_type": None}))
    m0, m1 = mk(None), mk("T5")
    mki = lambda nm, m: st.alloc(ObjP(icls, {"_output_name": nm, "fullname_override": nm, "timeframe": "T5", "_candles": m, "touched": False,
                                            "sub_indicators": st.alloc(DictP({})), "managed_indicators": st.alloc(DictP({}))}))
    i1, i2 = mki("first", m1), mki("second", m1)
    h = st.alloc(ObjP(hcls, {"name": "hex", "_candles": st.alloc(DictP({"default": m0, "T5": m1})),
                             "_indicators": st.alloc(DictP({"first": i1, "second": i2}))}))
    yield st, [h, "first"], {}, {"self": h, "name": "first", "i1": i1, "i2": i2, "m0": m0, "m1": m1}


HEX_TASKS[H + "remove_indicator"] = dict(builder=remove_builder, natives={I + "purge": _touch}, contract=Contract(
    H + "remove_indicator",
    ensures={
        "named-member-purged-and-unregistered": "i1.touched == True and LenOf(self._indicators) == 1 and self._indicators['second'] is i2",
        "other-member-untouched": "i2.touched == False and i2._candles is m1",
        "every-manager-stays-registered": "LenOf(self._candles) == 2 and self._candles['default'] is m0 and self._candles['T5'] is m1",
    }, result_type="None", props=["C13", "C14", "C08"], use_at_calls=False))


# ... with concrete names: a member whose NAME or INPUT merely starts with the given name is not selected ("SMA_2" vs "SMA_20")
def hexital_ops_named_builder(ex, st):
    from hexvc.state import DictP, ListP, ObjP
    src = ex.ctx.source
    hcls = src.module("hexital.core.hexital").classes["Hexital"]
    icls = src.module("hexital.indicators.ema").classes["EMA"]
    mcls = src.module("hexital.core.candle_manager").classes["CandleManager"]
    for c in (hcls, icls, mcls):
        src.resolve_class_bases(c)
    m0 = st.alloc(ObjP(mcls, {"candles": st.alloc(ListP([])), "timeframe": None, "timeframe_fill": False, "candles_lifespan": None, "candlestick_type": None}))
    mki = lambda nm, inp: st.alloc(ObjP(icls, {"_output_name": nm, "input_value": inp, "touched": False}))
    i1, i2, i3 = mki("SMA_2", "close"), mki("SMA_20", "close"), mki("EMA_5", "SMA_20")
    h = st.alloc(ObjP(hcls, {"name": "hex", "_candles": st.alloc(DictP({"default": m0})),
                             "_indicators": st.alloc(DictP({"SMA_2": i1, "SMA_20": i2, "EMA_5": i3}))}))
    yield st, [h, "SMA_2"], {}, {"self": h, "name": "SMA_2", "i1": i1, "i2": i2, "i3": i3}


for _op in ("purge", "calculate", "recalculate"):
    HEX_TASKS[H + _op + "#similar-names"] = dict(
        qualname=H + _op, builder=hexital_ops_named_builder, natives=OPS_NATIVES,
        contract=Contract(H + _op, ensures={"only-the-named-member": "i1.touched == True and i2.touched == False and i3.touched == False"},
                          result_type="None", props=["C13", "C14"], use_at_calls=False))


# ... and without a name every member is reached through its OWN operation (which removes / computes exactly that member's
# entries: Indicator.purge under C14), never by wiping the candles wholesale
def hexital_ops_all_builder(ex, st):
    """two members (stubs recording which operation reached them) and a default manager over two concrete candles that carry an
    entry no member wrote and a conversion tag"""
    from hexvc.state import DictP, ListP, ObjP
    src = ex.ctx.source
    hcls = src.module("hexital.core.hexital").classes["Hexital"]
    icls = src.module("hexital.indicators.ema").classes["EMA"]
    mcls = src.module("hexital.core.candle_manager").classes["CandleManager"]
    ccls = src.module("hexital.core.candle").classes["Candle"]
    for c in (hcls, icls, mcls, ccls):
        src.resolve_class_bases(c)
    mkc = lambda: st.alloc(ObjP(ccls, {"indicators": st.alloc(DictP({"FOREIGN": 1.0})), "sub_indicators": st.alloc(DictP({})), "_tag": "Heikin-Ashi",
                                       "clean_values": st.alloc(DictP({}))}))
    c1, c2 = mkc(), mkc()
    m0 = st.alloc(ObjP(mcls, {"candles": st.alloc(ListP([c1, c2])), "timeframe": None, "timeframe_fill": False, "candles_lifespan": None, "candlestick_type": None}))
    i1 = st.alloc(ObjP(icls, {"_output_name": "first", "touched": False}))
    i2 = st.alloc(ObjP(icls, {"_output_name": "second", "touched": False}))
    h = st.alloc(ObjP(hcls, {"name": "hex", "_candles": st.alloc(DictP({"default": m0})), "_indicators": st.alloc(DictP({"first": i1, "second": i2}))}))
    yield st, [h, None], {}, {"self": h, "name": None, "i1": i1, "i2": i2, "c1": c1, "c2": c2}


for _op in ("purge", "calculate", "recalculate"):
    HEX_TASKS[H + _op + "#every-member"] = dict(
        qualname=H + _op, builder=hexital_ops_all_builder, natives=dict(OPS_NATIVES, **{
            "hexital.core.candle.Candle.reset_candle": _writer_forbidden("Candle.reset_candle"), "hexital.core.candle_manager.CandleManager.purge": _writer_forbidden("CandleManager.purge")}),
        contract=Contract(H + _op, ensures={"every-member-reached-through-its-own-operation": "i1.touched == True and i2.touched == True",
                                            "entries-of-others-and-the-conversion-tag-stay": "c1.indicators['FOREIGN'] == 1.0 and c2.indicators['FOREIGN'] == 1.0"
                                                                                             " and c1._tag == 'Heikin-Ashi' and c2._tag == 'Heikin-Ashi'"},
                          result_type="None", props=["C13", "C14"], use_at_calls=False))


# ---- C08: an indicator's settings dict builds the same indicator again
def roundtrip_builder(clsq, kwargs):
    def build(ex, st):
        import z3
        from hexvc.exec import FuncVal
        from hexvc.objects import instantiate
        from hexvc.state import DictP, ObjP
        from hexvc.tasks import new_series
        from hexvc.values import SInt, SFloat
        src = ex.ctx.source
        mod, cname = clsq.rsplit(".", 1)
        cls = src.module(mod).classes[cname]
        hcls = src.module("hexital.core.hexital").classes["Hexital"]
        src.resolve_class_bases(cls)
        src.resolve_class_bases(hcls)
        kw = {}
        for k, ty in kwargs.items():
            if ty == "int":
                kw[k] = SInt(z3.Int(k)); st.assume(kw[k].t >= 2)
            elif ty == "float":
                kw[k] = SFloat(z3.Real(k)); st.assume(kw[k].t > 0)
            elif ty == "int0":
                kw[k] = SInt(z3.Int(k)); st.assume(kw[k].t >= 0)
            elif isinstance(ty, str) and ty.startswith("func:"):
                fm, _c, fn_node, _k = src.function(ty[5:])
                kw[k] = FuncVal(fm, fn_node)
            else:
                kw[k] = ty
        for st1, obj in list(instantiate(ex, cls, [], kw, st, None)):
            if not ex.ctx.feasible(st1):
                continue
            c0, prop = st1.heap[obj.oid].cls.find("properties", "settings")
            # every path through the real `settings` property (e.g. fields it drops for some values)
            for st2, settings in list(ex.call_function(FuncVal(c0.module, prop, c0), [obj], {}, st1, None)):
                if not ex.ctx.feasible(st2):
                    continue
                h = st2.alloc(ObjP(hcls, {"name": "hex", "_candles": st2.alloc(DictP({})), "_indicators": st2.alloc(DictP({}))}))
                yield st2, [h, settings], {}, {"self": h, "raw_indicator": settings, "orig": obj}
    return build


ROUNDTRIP = Contract(H + "_build_indicator", ensures={"same-class-and-parameters": "SameIndicator(result, orig)"},
                     result_type="None", props=["C08"], use_at_calls=False)
for _cls, _kw in (("hexital.indicators.sma.SMA", {"period": "int"}), ("hexital.indicators.ema.EMA", {"period": "int", "smoothing": "float"}),
                  ("hexital.indicators.rma.RMA", {"period": "int"}), ("hexital.indicators.wma.WMA", {"period": "int"}),
                  ("hexital.indicators.vwma.VWMA", {"period": "int"}), ("hexital.indicators.hma.HMA", {"period": "int"}),
                  ("hexital.indicators.tr.TR", {}), ("hexital.indicators.atr.ATR", {"period": "int"}),
                  ("hexital.indicators.stdev.StandardDeviation", {"period": "int"}), ("hexital.indicators.bbands.BBANDS", {"period": "int"}),
                  ("hexital.indicators.kc.KC", {"period": "int", "multiplier": "float"}), ("hexital.indicators.donchian.Donchian", {"period": "int"}),
                  ("hexital.indicators.highest_lowest.HighestLowest", {"period": "int"}), ("hexital.indicators.hla.HighLowAverage", {}),
                  ("hexital.indicators.supertrend.Supertrend", {"period": "int", "multiplier": "float"}),
                  ("hexital.indicators.stdevthres.StandardDeviationThreshold", {"period": "int", "multiplier": "float"}),
                  ("hexital.indicators.counter.Counter", {"input_value": "positive"}), ("hexital.indicators.rsi.RSI", {"period": "int"}),
                  ("hexital.indicators.macd.MACD", {"fast_period": "int", "signal_period": "int"}), ("hexital.indicators.roc.ROC", {"period": "int"}),
                  ("hexital.indicators.stoch.STOCH", {"period": "int", "slow_period": "int"}), ("hexital.indicators.tsi.TSI", {"period": "int", "smooth_period": "int"}),
                  ("hexital.indicators.aroon.AROON", {"period": "int"}), ("hexital.indicators.adx.ADX", {"period": "int", "period_signal": "int"}),
                  ("hexital.indicators.obv.OBV", {}), ("hexital.indicators.vwap.VWAP", {"period": "int"})):
    HEX_TASKS[H + "_build_indicator#settings-of-" + _cls.rsplit(".", 1)[1]] = dict(qualname=H + "_build_indicator", builder=roundtrip_builder(_cls, dict(_kw, round_value="int0")), contract=ROUNDTRIP)
# naming fields travel too: name_suffix alone, and together with fullname_override
for _tag, _kw in (("suffix", {"period": "int", "name_suffix": "sfx"}), ("override+suffix", {"period": "int", "name_suffix": "sfx", "fullname_override": "custom"}),
                  ("timeframe", {"period": "int", "timeframe": "T5", "timeframe_fill": True})):
    HEX_TASKS[H + "_build_indicator#settings-of-EMA[" + _tag + "]"] = dict(
        qualname=H + "_build_indicator", builder=roundtrip_builder("hexital.indicators.ema.EMA", dict(_kw, round_value="int0")), contract=ROUNDTRIP)
# the Amorph wrapper: the wrapped function travels by name, its arguments under "args", falsy fields (round_value=0) must survive
HEX_TASKS[H + "_build_indicator#settings-of-Amorph"] = dict(
    qualname=H + "_build_indicator",
    builder=roundtrip_builder("hexital.indicators.amorph.Amorph", {"analysis": "func:hexital.analysis.movement.highest", "indicator": "close", "length": "int", "round_value": "int0"}),
    contract=Contract(H + "_build_indicator", ensures={"same-class-and-parameters": "SameIndicator(result, orig)",
                                                      "same-wrapped-function-and-arguments": "result._analysis_method is orig._analysis_method and result._analysis_kwargs == orig._analysis_kwargs"},
                      result_type="None", props=["C08"], use_at_calls=False))


CM = "hexital.core.candle_manager.CandleManager."


# ---- C19: CandleManager.append accepts a Candle, a dict, a list (timestamp last) and lists of those with the
# same result, and leaves the caller's objects alone
def append_builder(form, timeframe=None):
    def build(ex, st):
        import z3
        from hexvc.objects import instantiate
        from hexvc.state import DictP, ListP, ObjP
        from hexvc.timevals import DateTimeV
        from hexvc.values import SFloat, SNum
        src = ex.ctx.source
        mcls = src.module("hexital.core.candle_manager").classes["CandleManager"]
        ccls = src.module("hexital.core.candle").classes["Candle"]
        src.resolve_class_bases(mcls)
        src.resolve_class_bases(ccls)
        vals_ = {f: SFloat(z3.Real(f)) for f in ("open", "high", "low", "close")}
        vals_["volume"] = SNum(z3.Real("volume"), z3.BoolVal(False))
        vals_["timestamp"] = DateTimeV(z3.Int("ts"))
        m = st.alloc(ObjP(mcls, {"candles": st.alloc(ListP([])), "timeframe": timeframe, "timeframe_fill": False,
                                 "candles_lifespan": None, "candlestick_type": None}))
        order = ["open", "high", "low", "close", "volume", "timestamp"]
        if form in ("candle", "candles"):
            outs = list(instantiate(ex, ccls, [], dict(vals_), st, None))
            st, c = outs[0]
            arg = c if form == "candle" else st.alloc(ListP([c]))
        elif form in ("dict", "dicts", "Dict"):
            keys = order if form != "Dict" else [k.capitalize() for k in order]
            d = st.alloc(DictP({k: vals_[o] for k, o in zip(keys, order)}))
            arg = d if form != "dicts" else st.alloc(ListP([d]))
        elif form == "tslist":  # one candle in list form with the timestamp FIRST (Candle.from_list takes it first or last)
            arg = st.alloc(ListP([vals_[o] for o in ["timestamp"] + order[:-1]]))
        else:
            l = st.alloc(ListP([vals_[o] for o in order]))
            arg = l if form == "list" else st.alloc(ListP([l]))
        env = dict(vals_)
        env.update({"self": m, "candles": arg})
        if form in ("candle", "candles"):
            env["c0"] = c
        yield st, [m, arg], {}, env
    return build


APPEND = Contract(
    CM + "append",
    ensures={
        "one-candle-appended": "LenOf(self.candles) == 1",
        "same-values": "self.candles[0].open == open and self.candles[0].high == high and self.candles[0].low == low"
                       " and self.candles[0].close == close and self.candles[0].volume == volume and self.candles[0].timestamp == timestamp",
    },
    result_type="None", props=["C19"], use_at_calls=False, pure_args=["candles"])
for _form in ("candle", "candles", "dict", "Dict", "dicts", "list", "lists", "tslist"):
    HEX_TASKS[CM + "append#" + _form] = dict(qualname=CM + "append", builder=append_builder(_form), contract=APPEND)


# on the base timeframe a new candle is always a NEW last candle, whatever its timestamp (also equal to the newest one):
# candles already in the list are final (C02) and batch == incremental (C01)
def append_nonempty_builder(ex, st):
    import z3
    from hexvc.objects import instantiate
    from hexvc.state import ListP, ObjP
    from hexvc.timevals import DateTimeV
    from hexvc.values import SFloat, SNum
    src = ex.ctx.source
    mcls = src.module("hexital.core.candle_manager").classes["CandleManager"]
    ccls = src.module("hexital.core.candle").classes["Candle"]
    src.resolve_class_bases(mcls)
    src.resolve_class_bases(ccls)

    def mk(tag, s):
        vals_ = {f: SFloat(z3.Real(f"{tag}_{f}")) for f in ("open", "high", "low", "close")}
        vals_["volume"] = SNum(z3.Real(f"{tag}_volume"), z3.BoolVal(False))
        vals_["timestamp"] = DateTimeV(z3.Int(f"{tag}_ts"))
        return list(instantiate(ex, ccls, [], vals_, s, None))[0]

    st, old = mk("old", st)
    st, new = mk("new", st)
    st.assume(z3.Int("old_ts") <= z3.Int("new_ts"))  # non-decreasing stream, equal timestamps included
    lst = st.alloc(ListP([old]))
    m = st.alloc(ObjP(mcls, {"candles": lst, "timeframe": None, "timeframe_fill": False, "candles_lifespan": None, "candlestick_type": None}))
    yield st, [m, new], {}, {"self": m, "candles": new, "old": old, "new": new}


HEX_TASKS[CM + "append#to-a-non-empty-list"] = dict(
    qualname=CM + "append", builder=append_nonempty_builder,
    contract=Contract(CM + "append", ensures={
        "appended-as-a-new-last-candle": "LenOf(self.candles) == 2 and self.candles[0] is old and self.candles[1] is new",
    }, result_type="None", props=["C02", "C01", "C19"], use_at_calls=False, pure_args=["candles", "old"]))


# a manager of a derived timeframe keeps its own deep copies: nothing it later merges, converts or writes readings on
# is shared with the caller's candles (which the default manager of the same Hexital holds)
def _noop(ex, st, args, kwargs, node):
    def gen():
        yield st, None
    return gen()


for _form in ("candle", "candles"):
    HEX_TASKS[CM + "append#derived-" + _form] = dict(
        qualname=CM + "append", builder=append_builder(_form, "T5"), natives={CM + "_tasks": _noop},
        contract=Contract(CM + "append", ensures=dict(APPEND.ensures, **{
            "own-deep-copy": "self.candles[0] is not c0 and self.candles[0].indicators is not c0.indicators"
                             " and self.candles[0].sub_indicators is not c0.sub_indicators and self.candles[0].clean_values is not c0.clean_values"}),
            result_type="None", props=["C19", "C08", "C13"], use_at_calls=False, pure_args=["candles"]))


# ---- task order on every append: collapse -> convert -> trim (C11, C15, C01)
def tasks_builder(ex, st):
    from hexvc.state import ListP, ObjP
    src = ex.ctx.source
    mcls = src.module("hexital.core.candle_manager").classes["CandleManager"]
    src.resolve_class_bases(mcls)
    m = st.alloc(ObjP(mcls, {"candles": st.alloc(ListP([])), "timeframe": "T5", "timeframe_fill": False,
                             "candles_lifespan": None, "candlestick_type": None, "phase": 0}))
    yield st, [m], {}, {"self": m}


def _phase(k, name):
    def nat(ex, st, args, kwargs, node):
        def gen():
            o = st.heap[args[0].oid]
            import z3
            ex.ctx.oblige(st, "pre@call", f"{name}:runs-as-step-{k + 1}-of-collapse-convert-trim", z3.BoolVal(o.fields.get("phase") == k), node)
            o.fields["phase"] = k + 1
            yield st, None
        return gen()
    return nat


TASKS_NATIVES = {CM + "collapse_candles": _phase(0, "collapse_candles"), CM + "convert_candles": _phase(1, "convert_candles"),
                 CM + "trim_candles": _phase(2, "trim_candles")}
HEX_TASKS[CM + "_tasks"] = dict(builder=tasks_builder, natives=TASKS_NATIVES, contract=Contract(
    CM + "_tasks", ensures={"all-three-steps-ran": "self.phase == 3"}, result_type="None", props=["C11", "C15", "C01", "C03"], use_at_calls=False))


# ---- C08: a member with its own timeframe gets a manager with the Hexital's effective configuration
def validate_builder(ex, st):
    import z3
    from hexvc.objects import instantiate
    from hexvc.state import DictP, ListP, ObjP
    from hexvc.timevals import TimeDeltaV
    from hexvc.values import SBool, SInt
    src = ex.ctx.source
    hcls = src.module("hexital.core.hexital").classes["Hexital"]
    mcls = src.module("hexital.core.candle_manager").classes["CandleManager"]
    icls = src.module("hexital.indicators.ema").classes["EMA"]
    for c in (hcls, mcls, icls):
        src.resolve_class_bases(c)
    fill = SBool(z3.Bool("hex_fill"))
    life = TimeDeltaV(z3.Int("hex_life"))
    m0 = st.alloc(ObjP(mcls, {"candles": st.alloc(ListP([])), "timeframe": None, "timeframe_fill": fill, "candles_lifespan": life, "candlestick_type": None}))
    h = st.alloc(ObjP(hcls, {"name": "hex", "timeframe": None, "timeframe_fill": fill, "candles_lifespan": life, "candlestick_type": None,
                             "_candles": st.alloc(DictP({"default": m0})), "_indicators": st.alloc(DictP({}))}))
    outs = list(instantiate(ex, icls, [], {"timeframe": "T5", "period": SInt(z3.Int("period")), "timeframe_fill": SBool(z3.Bool("member_fill"))}, st, None))
    st1, ind = outs[0]
    plain = list(instantiate(ex, icls, [], {"period": SInt(z3.Int("period2")), "fullname_override": "plain"}, st1, None))
    st2, ind2 = plain[0]
    lst = st2.alloc(ListP([ind, ind2]))
    yield st2, [h, lst], {}, {"self": h, "indicators": lst, "ind": ind, "ind2": ind2, "hex_fill": fill, "hex_life": life, "m0": m0}


VALIDATE = Contract(
    H + "_validate_indicators",
    ensures={
        "member-timeframe-gets-its-own-manager": "self._candles['T5'].timeframe == 'T5' and ind._candles is self._candles['T5']",
        "that-manager-has-the-hexital-configuration": "self._candles['T5'].timeframe_fill == hex_fill and self._candles['T5'].candles_lifespan == hex_life"
                                                      " and self._candles['T5'].candlestick_type is None",
        "member-adopts-the-manager-configuration": "ind.timeframe_fill == hex_fill and ind.candles_lifespan == hex_life",
        "member-without-timeframe-shares-the-default-manager": "ind2._candles is m0",
    },
    result_type="None", props=["C08"], use_at_calls=False)
HEX_TASKS[H + "_validate_indicators"] = dict(builder=validate_builder, contract=VALIDATE)


def validate_existing_builder(ex, st):
    """a Hexital that already runs a T5 manager (with a member attached): two further T5 members must join it"""
    import z3
    from hexvc.objects import instantiate
    from hexvc.state import DictP, ListP, ObjP
    from hexvc.values import SInt
    src = ex.ctx.source
    hcls = src.module("hexital.core.hexital").classes["Hexital"]
    mcls = src.module("hexital.core.candle_manager").classes["CandleManager"]
    icls = src.module("hexital.indicators.ema").classes["EMA"]
    for c in (hcls, mcls, icls):
        src.resolve_class_bases(c)
    mk = lambda tf: st.alloc(ObjP(mcls, {"candles": st.alloc(ListP([])), "timeframe": tf, "timeframe_fill": False, "candles_lifespan": None, "candlestick_type": None}))
    m0, m1 = mk(None), mk("T5")
    h = st.alloc(ObjP(hcls, {"name": "hex", "timeframe": None, "timeframe_fill": False, "candles_lifespan": None, "candlestick_type": None,
                             "_candles": st.alloc(DictP({"default": m0, "T5": m1})), "_indicators": st.alloc(DictP({}))}))
    from hexvc.timevals import TimeDeltaV
    from hexvc.values import SBool
    # the members ask for a configuration of their own (lifespan, fill): inside a Hexital they adopt the manager's, never the reverse
    st1, ind = list(instantiate(ex, icls, [], {"timeframe": "T5", "period": SInt(z3.Int("period")), "candles_lifespan": TimeDeltaV(z3.Int("member_life")),
                                               "timeframe_fill": SBool(z3.Bool("member_fill"))}, st, None))[0]
    st2, ind2 = list(instantiate(ex, icls, [], {"timeframe": "T5", "period": SInt(z3.Int("period2")), "fullname_override": "second"}, st1, None))[0]
    lst = st2.alloc(ListP([ind, ind2]))
    yield st2, [h, lst], {}, {"self": h, "indicators": lst, "ind": ind, "ind2": ind2, "m0": m0, "m1": m1}


HEX_TASKS[H + "_validate_indicators#existing-timeframe"] = dict(
    qualname=H + "_validate_indicators", builder=validate_existing_builder,
    contract=Contract(H + "_validate_indicators", ensures={
        "registered-manager-is-kept": "self._candles['T5'] is m1 and self._candles['default'] is m0",
        "new-members-join-the-registered-manager": "ind._candles is m1 and ind2._candles is m1",
        "members-adopt-the-managers-configuration-never-the-reverse": "m1.candles_lifespan is None and m1.timeframe_fill == False and m1.timeframe == 'T5'"
                                                                      " and m0.candles_lifespan is None and ind.candles_lifespan is None and ind.timeframe_fill == False",
    }, result_type="None", props=["C08", "C13"], use_at_calls=False))


# ---- C08 / C19: Hexital.append hands the caller's candles to every manager (derived timeframes first: the default
# manager may convert the objects in place), then calculates every indicator once all managers are fed
_FAN = {}


def fanout_builder(ex, st):
    from hexvc.state import DictP, ListP, ObjP
    src = ex.ctx.source
    hcls = src.module("hexital.core.hexital").classes["Hexital"]
    mcls = src.module("hexital.core.candle_manager").classes["CandleManager"]
    icls = src.module("hexital.indicators.ema").classes["EMA"]
    for c in (hcls, mcls, icls):
        src.resolve_class_bases(c)
    mk = lambda tf: st.alloc(ObjP(mcls, {"candles": st.alloc(ListP([])), "timeframe": tf, "fed": 0, "fed_before": -1, "arg": None}))
    m0, m1, m2 = mk(None), mk("T5"), mk("H1")
    ind = st.alloc(ObjP(icls, {"_name": "EMA_3", "calc_saw": -1}))
    ind2 = st.alloc(ObjP(icls, {"_name": "EMA_3_T5", "calc_saw": -1}))
    # dict order as built by the constructor: default first
    h = st.alloc(ObjP(hcls, {"name": "hex", "_candles": st.alloc(DictP({"default": m0, "T5": m1, "H1": m2})),
                             "_indicators": st.alloc(DictP({"EMA_3": ind, "EMA_3_T5": ind2}))}))
    _FAN["managers"] = (m0.oid, m1.oid, m2.oid)
    arg = st.alloc(ListP([]))
    yield st, [h, arg], {}, {"self": h, "candles": arg, "m0": m0, "m1": m1, "m2": m2, "ind": ind, "ind2": ind2}


def _fan_append(ex, st, args, kwargs, node):
    def gen():
        o = st.heap[args[0].oid]
        fed = sum(1 for oid in _FAN["managers"] if st.heap[oid].fields["fed"])
        o.fields["fed"] = o.fields["fed"] + 1
        o.fields["fed_before"] = fed
        o.fields["arg"] = args[1] if len(args) > 1 else kwargs.get("candles")
        yield st, None
    return gen()


def _fan_calc(ex, st, args, kwargs, node):
    def gen():
        o = st.heap[args[0].oid]
        o.fields["calc_saw"] = sum(st.heap[oid].fields["fed"] for oid in _FAN["managers"])
        yield st, None
    return gen()


HEX_TASKS[H + "append"] = dict(builder=fanout_builder, natives={CM + "append": _fan_append, "hexital.core.indicator.Indicator.calculate": _fan_calc},
                               contract=Contract(
    H + "append",
    ensures={
        "every-manager-fed-exactly-once": "m0.fed == 1 and m1.fed == 1 and m2.fed == 1",
        "with-the-callers-candles": "m0.arg is candles and m1.arg is candles and m2.arg is candles",
        "default-manager-last": "m0.fed_before == 2",
        "indicators-calculated-after-all-managers-are-fed": "ind.calc_saw == 3 and ind2.calc_saw == 3",
    },
    result_type="None", props=["C08", "C19", "C01"], use_at_calls=False))
