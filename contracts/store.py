"""Layer 1: the candle store (hexital/core/candle_manager.py) on the heap model - C03, C12, C15, C11, C02."""
from hexvc.contracts import Contract
from hexvc.loops import LoopSpec

CM = "hexital.core.candle_manager.CandleManager."
LABEL = lambda t: f"({t} if ({t}) % tf == 0 else ({t}) - ({t}) % tf + tf)"
LAST = "LId(candles_, LLen(candles_) - 1)"
TS = lambda i: f"F(cs, 'ts', {i})"
TS0 = lambda i: f"F0(cs, 'ts', {i})"


def manager_store_builder(fill, tf_value=None):
    def build(ex, st):
        import z3
        from hexvc.state import ObjP, QAssume
        from hexvc.store import CandleStoreP, HListP
        from hexvc.values import Atom, SInt, Tmpl
        src = ex.ctx.source
        mcls = src.module("hexital.core.candle_manager").classes["CandleManager"]
        src.resolve_class_bases(mcls)
        cs = CandleStoreP("cs")
        csr = st.alloc(cs)
        n = z3.Int("n")
        lst = HListP("I", csr, lo=z3.IntVal(0), hi=n)
        lr = st.alloc(lst)
        tf = z3.Int("tf") if tf_value is None else z3.IntVal(tf_value)
        st.assume(z3.And(n >= 0, tf > 0, cs.next_id >= n))
        arr, ts = lst.arr, cs.arr["ts"]
        # w.l.o.g. the ids of the input candles are their positions (distinct objects at distinct positions, A3)
        st.qassumes.append(QAssume(lambda p: z3.Implies(z3.And(p >= 0, p < n), arr[p] == p), "ids-are-positions"))
        # stream precondition of C03: timestamps (whole seconds, all present) are non-decreasing
        st.qassumes.append(QAssume(lambda p: z3.Implies(z3.And(p >= 0, p + 1 < n), ts[p] <= ts[p + 1]), "timestamps-non-decreasing"))
        # candles that were converted earlier (Heikin-Ashi) are buckets of an earlier pass: their saved raw
        # timestamp is their label
        clean, c_ts = cs.arr["clean"], cs.arr["c_ts"]
        vol, c_vol = cs.arr["volume"], cs.arr["c_volume"]
        st.qassumes.append(QAssume(lambda p: z3.Implies(z3.And(p >= 0, p < n, clean[p]), z3.And(c_ts[p] == ts[p], ts[p] % tf == 0, c_vol[p] == vol[p])), "converted-candles-are-labelled-buckets"))
        m = st.alloc(ObjP(mcls, {"candles": lr, "timeframe": Tmpl(("S", Atom("int:tf", "int", tf))), "timeframe_fill": fill,
                                 "candles_lifespan": None, "candlestick_type": None}))
        env = {"self": m, "cs": csr, "n": SInt(n), "tf": SInt(tf)}
        ex.ctx.ghost_env = {"cs": csr, "n": SInt(n), "tf": SInt(tf)}
        yield st, [m], {}, env
    return build


COLLAPSE_INV = {
    "converted-candles-are-labelled-buckets": "forall(0, n, lambda p: implies(F(cs, 'clean', p), F(cs, 'c_ts', p) == F(cs, 'ts', p) and F(cs, 'ts', p) % tf == 0 and F(cs, 'c_volume', p) == F(cs, 'volume', p)))",
    "unconsumed-volumes-untouched": "forall(LLo(self.candles), n, lambda p: F(cs, 'volume', p) == F0(cs, 'volume', p))",
    "volume-conserved": "Sigma(0, LLen(candles_), lambda q: F(cs, 'volume', LId(candles_, q))) == Sigma(0, LLo(self.candles), lambda p: F0(cs, 'volume', p))",
    "source-is-the-unconsumed-suffix": "LHi(self.candles) == n and 1 <= LLo(self.candles) and LLo(self.candles) <= n"
                                       " and forall(0, n, lambda p: LRaw(self.candles, p) == p)",
    "unconsumed-inputs-untouched": f"forall(LLo(self.candles), n, lambda p: {TS('p')} == {TS0('p')})",
    "buckets-non-empty": "LLen(candles_) >= 1 and LLo(candles_) == 0",
    "buckets-are-consumed-inputs": "forall(0, LLen(candles_), lambda q: 0 <= LId(candles_, q) and LId(candles_, q) < LLo(self.candles))",
    "closed-buckets-are-other-objects-than-the-open-one": "forall(0, LLen(candles_) - 1, lambda q: LId(candles_, q) < LId(candles_, LLen(candles_) - 1))",
    "labels-are-multiples-of-the-timeframe": f"forall(0, LLen(candles_), lambda q: {TS('LId(candles_, q)')} % tf == 0)",
    "labels-strictly-increasing": f"forall(0, LLen(candles_) - 1, lambda q: {TS('LId(candles_, q)')} < {TS('LId(candles_, q + 1)')})",
    "window": f"Sec(start_time) % tf == 0 and Sec(end_time) == Sec(start_time) + tf"
              f" and ({TS(LAST)} == Sec(end_time) or {TS(LAST)} == Sec(start_time))",
    "last-bucket-is-the-bucket-of-the-last-consumed-candle": f"{TS(LAST)} == {LABEL(TS0('LLo(self.candles) - 1'))}",
}
COLLAPSE = Contract(
    CM + "collapse_candles",
    ensures={
        "labels-are-multiples-of-the-timeframe": f"implies(n >= 1, forall(0, LLen(self.candles), lambda q: {TS('LId(self.candles, q)')} % tf == 0))",
        "timestamps-strictly-increasing": f"implies(n >= 1, forall(0, LLen(self.candles) - 1, lambda q: {TS('LId(self.candles, q)')} < {TS('LId(self.candles, q + 1)')}))",
        "non-empty-result": "implies(n >= 1, LLen(self.candles) >= 1)",
        "total-volume-conserved": "implies(n >= 1, Sigma(0, LLen(self.candles), lambda q: F(cs, 'volume', LId(self.candles, q))) == Sigma(0, n, lambda p: F0(cs, 'volume', p)))",
    },
    result_type="None", props=["C03", "C02"], use_at_calls=False)
COLLAPSE.ground_rounds = 3
# proved per instance of the timeframe length (t % tf with a symbolic tf is nonlinear integer arithmetic that the
# solvers do not finish inside the budget): seconds, minutes, hours, days
HEX_TASKS = {}
for _tf in (1, 300, 3600, 86400):
    HEX_TASKS[CM + f"collapse_candles#tf={_tf}s"] = dict(qualname=CM + "collapse_candles", builder=manager_store_builder(False, _tf), contract=COLLAPSE)
LOOPS = {
    (CM + "collapse_candles", 0): LoopSpec(
        invariant=COLLAPSE_INV,
        types={"candles_": "hlist", "candle": "hcandle", "prev_candle": "hcandle", "start_time": "datetime", "end_time": "datetime", "next_candle": "datetime"},
        modifies_heap=["self.candles", "cs"],
        write_frame=("cs", ["candle", "prev_candle"]),
    ),
}
