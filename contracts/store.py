"""Layer 1: the candle store (hexital/core/candle_manager.py) on the heap model - C03, C12, C15, C11, C02."""
from hexvc.contracts import Contract
from hexvc.loops import LoopSpec

CM = "hexital.core.candle_manager.CandleManager."
LABEL = lambda t: f"({t} if ({t}) % tf == 0 else ({t}) - ({t}) % tf + tf)"
LAST = "LId(candles_, LLen(candles_) - 1)"
TS = lambda i: f"F(cs, 'ts', {i})"
TS0 = lambda i: f"F0(cs, 'ts', {i})"


def manager_store_builder(fill, tf_value=None):
    def build(ex, st):
        import z3
        from hexvc.state import ObjP, QAssume
        from hexvc.store import CandleStoreP, HListP
        from hexvc.values import Atom, SInt, Tmpl
        src = ex.ctx.source
        mcls = src.module("hexital.core.candle_manager").classes["CandleManager"]
        src.resolve_class_bases(mcls)
        cs = CandleStoreP("cs")
        csr = st.alloc(cs)
        n = z3.Int("n")
        lst = HListP("I", csr, lo=z3.IntVal(0), hi=n)
        lr = st.alloc(lst)
        tf = z3.Int("tf") if tf_value is None else z3.IntVal(tf_value)
        st.assume(z3.And(n >= 0, tf > 0, cs.next_id >= n))
        arr, ts = lst.arr, cs.arr["ts"]
        # w.l.o.g. the ids of the input candles are their positions (distinct objects at distinct positions, A3)
        st.qassumes.append(QAssume(lambda p: z3.Implies(z3.And(p >= 0, p < n), arr[p] == p), "ids-are-positions"))
        # stream precondition of C03: timestamps (whole seconds, all present) are non-decreasing
        st.qassumes.append(QAssume(lambda p: z3.Implies(z3.And(p >= 0, p + 1 < n), ts[p] <= ts[p + 1]), "timestamps-non-decreasing"))
        # candles that were converted earlier (Heikin-Ashi) are buckets of an earlier pass: their saved raw
        # timestamp is their label
        clean, c_ts = cs.arr["clean"], cs.arr["c_ts"]
        vol, c_vol = cs.arr["volume"], cs.arr["c_volume"]
        st.qassumes.append(QAssume(lambda p: z3.Implies(z3.And(p >= 0, p < n, clean[p]), z3.And(c_ts[p] == ts[p], ts[p] % tf == 0, c_vol[p] == vol[p])), "converted-candles-are-labelled-buckets"))
        m = st.alloc(ObjP(mcls, {"candles": lr, "timeframe": Tmpl(("S", Atom("int:tf", "int", tf))), "timeframe_fill": fill,
                                 "candles_lifespan": None, "candlestick_type": None}))
        env = {"self": m, "cs": csr, "n": SInt(n), "tf": SInt(tf)}
        ex.ctx.ghost_env = {"cs": csr, "n": SInt(n), "tf": SInt(tf)}
        yield st, [m], {}, env
    return build


COLLAPSE_INV = {
    "converted-candles-are-labelled-buckets": "forall(0, n, lambda p: implies(F(cs, 'clean', p), F(cs, 'c_ts', p) == F(cs, 'ts', p) and F(cs, 'ts', p) % tf == 0 and F(cs, 'c_volume', p) == F(cs, 'volume', p)))",
    "unconsumed-volumes-untouched": "forall(LLo(self.candles), n, lambda p: F(cs, 'volume', p) == F0(cs, 'volume', p))",
    "volume-conserved": "Sigma(0, LLen(candles_), lambda q: F(cs, 'volume', LId(candles_, q))) == Sigma(0, LLo(self.candles), lambda p: F0(cs, 'volume', p))",
    "source-is-the-unconsumed-suffix": "LHi(self.candles) == n and 1 <= LLo(self.candles) and LLo(self.candles) <= n"
                                       " and forall(0, n, lambda p: LRaw(self.candles, p) == p)",
    "unconsumed-inputs-untouched": f"forall(LLo(self.candles), n, lambda p: {TS('p')} == {TS0('p')})",
    "buckets-non-empty": "LLen(candles_) >= 1 and LLo(candles_) == 0",
    "buckets-are-consumed-inputs": "forall(0, LLen(candles_), lambda q: 0 <= LId(candles_, q) and LId(candles_, q) < LLo(self.candles))",
    "closed-buckets-are-other-objects-than-the-open-one": "forall(0, LLen(candles_) - 1, lambda q: LId(candles_, q) < LId(candles_, LLen(candles_) - 1))",
    "labels-are-multiples-of-the-timeframe": f"forall(0, LLen(candles_), lambda q: {TS('LId(candles_, q)')} % tf == 0)",
    "labels-strictly-increasing": f"forall(0, LLen(candles_) - 1, lambda q: {TS('LId(candles_, q)')} < {TS('LId(candles_, q + 1)')})",
    "window": f"Sec(start_time) % tf == 0 and Sec(end_time) == Sec(start_time) + tf"
              f" and ({TS(LAST)} == Sec(end_time) or {TS(LAST)} == Sec(start_time))",
    "last-bucket-is-the-bucket-of-the-last-consumed-candle": f"{TS(LAST)} == {LABEL(TS0('LLo(self.candles) - 1'))}",
}
COLLAPSE = Contract(
    CM + "collapse_candles",
    ensures={
        "labels-are-multiples-of-the-timeframe": f"implies(n >= 1, forall(0, LLen(self.candles), lambda q: {TS('LId(self.candles, q)')} % tf == 0))",
        "timestamps-strictly-increasing": f"implies(n >= 1, forall(0, LLen(self.candles) - 1, lambda q: {TS('LId(self.candles, q)')} < {TS('LId(self.candles, q + 1)')}))",
        "non-empty-result": "implies(n >= 1, LLen(self.candles) >= 1)",
        "total-volume-conserved": "implies(n >= 1, Sigma(0, LLen(self.candles), lambda q: F(cs, 'volume', LId(self.candles, q))) == Sigma(0, n, lambda p: F0(cs, 'volume', p)))",
    },
    result_type="None", props=["C03", "C02"], use_at_calls=False)
COLLAPSE.ground_rounds = 3
# proved per instance of the timeframe length (t % tf with a symbolic tf is nonlinear integer arithmetic that the
# solvers do not finish inside the budget): seconds, minutes, hours, days
import os as _os

HEX_TASKS = {}
_TFS = (1, 300, 3600, 86400)
if _os.environ.get("HEXVC_TIER") == "thorough":
    _TFS = (1, 5, 60, 300, 900, 2700, 3600, 14400, 86400, 604800)  # every TimeFrame length class plus odd ones
for _tf in _TFS:
    HEX_TASKS[CM + f"collapse_candles#tf={_tf}s"] = dict(qualname=CM + "collapse_candles", builder=manager_store_builder(False, _tf), contract=COLLAPSE)
# wiring of gap filling (C12): with timeframe_fill the bucket list goes through fill_missing_candles exactly once, and what
# fill returns is what the manager keeps (fill itself is proved separately against FILL)
def _fill_stub(ex, st, args, kwargs, node):
    def gen():
        o = st.heap[args[0].oid]
        o.fields["fill_calls"] = o.fields.get("fill_calls", 0) + 1
        o.fields["fill_arg"] = args[1]
        yield st, args[1]
    return gen()


def _fill_wiring_builder(tf_value):
    inner = manager_store_builder(True, tf_value)

    def build(ex, st):
        for st1, args, kwargs, env in inner(ex, st):
            st1.heap[args[0].oid].fields["fill_calls"] = 0
            yield st1, args, kwargs, env
    return build


HEX_TASKS[CM + "collapse_candles#fill-wiring"] = dict(
    qualname=CM + "collapse_candles", builder=_fill_wiring_builder(300), natives={CM + "fill_missing_candles": _fill_stub},
    contract=Contract(CM + "collapse_candles", ensures=dict(COLLAPSE.ensures, **{
        "buckets-pass-through-fill-exactly-once": "implies(n >= 1, self.fill_calls == 1)"}),
        result_type="None", props=["C12"], use_at_calls=False))
HEX_TASKS[CM + "collapse_candles#fill-wiring"]["contract"].ground_rounds = 3
LOOPS = {
    (CM + "collapse_candles", 0): LoopSpec(
        invariant=COLLAPSE_INV,
        decreases="LLen(self.candles)",  # every iteration pops one raw candle
        types={"candles_": "hlist", "candle": "hcandle", "prev_candle": "hcandle", "start_time": "datetime", "end_time": "datetime", "next_candle": "datetime"},
        modifies_heap=["self.candles", "cs"],
        write_frame=("cs", ["candle", "prev_candle"]),
    ),
}


def trim_builder(ex, st):
    import z3
    from hexvc.state import ObjP, QAssume
    from hexvc.store import CandleStoreP, HListP
    from hexvc.timevals import TimeDeltaV
    from hexvc.values import SInt
    src = ex.ctx.source
    mcls = src.module("hexital.core.candle_manager").classes["CandleManager"]
    src.resolve_class_bases(mcls)
    cs = CandleStoreP("cs")
    csr = st.alloc(cs)
    n, life = z3.Int("n"), z3.Int("life")
    lst = HListP("I", csr, lo=z3.IntVal(0), hi=n)
    lr = st.alloc(lst)
    st.assume(z3.And(n >= 0, life >= 0))
    arr, ts = lst.arr, cs.arr["ts"]
    st.qassumes.append(QAssume(lambda p: z3.Implies(z3.And(p >= 0, p < n), arr[p] == p), "ids-are-positions"))
    from hexvc.state import QAssume2
    st.qassumes.append(QAssume2(lambda p, q: z3.Implies(z3.And(p >= 0, p <= q, q < n), ts[p] <= ts[q]), "timestamps-non-decreasing"))
    m = st.alloc(ObjP(mcls, {"candles": lr, "timeframe": None, "timeframe_fill": False, "candles_lifespan": TimeDeltaV(life), "candlestick_type": None}))
    ex.ctx.ghost_env = {"cs": csr, "n": SInt(n), "life": SInt(life)}
    yield st, [m], {}, {"self": m, "cs": csr, "n": SInt(n), "life": SInt(life)}


NEWEST = "F(cs, 'ts', n - 1)"
TRIM = Contract(
    CM + "trim_candles",
    ensures={
        "a-suffix-of-the-list-remains": "LHi(self.candles) == n and 0 <= LLo(self.candles) and LLo(self.candles) <= n and forall(0, n, lambda p: LRaw(self.candles, p) == p)",
        "dropped-candles-are-older-than-the-lifespan": f"forall(0, LLo(self.candles), lambda p: {TS('p')} < {NEWEST} - life)",
        "retained-candles-are-inside-the-lifespan": f"forall(LLo(self.candles), n, lambda p: {TS('p')} >= {NEWEST} - life)",
        "newest-candle-retained": "implies(n >= 1, LLo(self.candles) <= n - 1)",
    },
    result_type="None", props=["C15"], use_at_calls=False)
HEX_TASKS[CM + "trim_candles"] = dict(builder=trim_builder, contract=TRIM)
LOOPS[(CM + "trim_candles", 0)] = LoopSpec(
    invariant={
        "a-suffix-remains": "LHi(self.candles) == n and 0 <= LLo(self.candles) and LLo(self.candles) <= n - 1 and forall(0, n, lambda p: LRaw(self.candles, p) == p)",
        "dropped-are-too-old": f"forall(0, LLo(self.candles), lambda p: {TS('p')} < {NEWEST} - life)",
        "latest-is-the-newest-timestamp": f"Sec(latest) == {NEWEST}",
    },
    modifies_heap=["self.candles"],
    decreases="LLen(self.candles)",  # every iteration pops the oldest candle
)


def new_heap_candle(ex, cls, args, kwargs, st, node):
    """Candle(open=..., high=..., low=..., close=..., volume=..., timestamp=...) on the heap model: a fresh id
    (not among the existing candles), empty readings, no clean values, no tag"""
    import z3
    from hexvc.store import HCandle
    from hexvc.values import to_real_term, to_int_term
    csr = ex.ctx.ghost_env.get("cs") if getattr(ex.ctx, "ghost_env", None) else None
    if csr is None:
        return None
    cs = st.heap[csr.oid]
    i = cs.alloc(st)
    c = HCandle(csr, i)
    names = ["open", "high", "low", "close", "volume", "timestamp"]
    vals_ = dict(zip(names, args))
    vals_.update(kwargs)
    for f in ("open", "high", "low", "close", "volume"):
        cs.arr[f] = z3.Store(cs.arr[f], i, to_real_term(vals_[f]))
    cs.arr["ts"] = z3.Store(cs.arr["ts"], i, to_int_term(vals_["timestamp"].sec))
    cs.arr["clean"] = z3.Store(cs.arr["clean"], i, z3.BoolVal(False))
    cs.arr["rd"] = z3.Store(cs.arr["rd"], i, z3.IntVal(0))
    cs.arr["tag"] = z3.Store(cs.arr["tag"], i, z3.IntVal(0))

    def gen():
        yield st, c
    return gen()


STORE_NATIVES = {"new:Candle": new_heap_candle}


def fill_builder(tf_value):
    def build(ex, st):
        import z3
        from hexvc.state import ObjP, QAssume
        from hexvc.store import CandleStoreP, HListP
        from hexvc.timevals import TimeDeltaV
        from hexvc.values import SInt
        src = ex.ctx.source
        mcls = src.module("hexital.core.candle_manager").classes["CandleManager"]
        src.resolve_class_bases(mcls)
        cs = CandleStoreP("cs")
        csr = st.alloc(cs)
        n = z3.Int("n")
        tf = z3.IntVal(tf_value)
        lst = HListP("B", csr, lo=z3.IntVal(0), hi=n)
        lr = st.alloc(lst)
        next0 = cs.next_id
        st.assume(z3.And(n >= 0, next0 >= n))
        arr, ts = lst.arr, cs.arr["ts"]
        st.qassumes.append(QAssume(lambda p: z3.Implies(z3.And(p >= 0, p < n), arr[p] == p), "ids-are-positions"))
        # the input of fill is the output of collapse: labels on bucket ends, strictly increasing
        st.qassumes.append(QAssume(lambda p: z3.Implies(z3.And(p >= 0, p < n), ts[p] % tf == 0), "labels-are-bucket-ends"))
        st.qassumes.append(QAssume(lambda p: z3.Implies(z3.And(p >= 0, p + 1 < n), ts[p] < ts[p + 1]), "labels-strictly-increasing"))
        # lemma: adjacent-strict order implies order w.r.t. the last label.  Discharged here by induction on the distance
        # d = n - 1 - p as two `lemma` obligations (base d == 0, step d -> d + 1 with the induction hypothesis instantiated at
        # p + 1); only the induction principle over the naturals itself is taken from outside.
        lp, ld = z3.Int("lemma.p"), z3.Int("lemma.d")
        sb = st.fork()
        sb.assume(z3.And(lp >= 0, lp < n, lp + 0 == n - 1))
        ex.ctx.oblige(sb, "lemma", "labels-bounded-by-the-last:induction-base(d=0)", ts[lp] <= ts[n - 1], None)
        ss_ = st.fork()
        ss_.assume(z3.And(ld >= 0, lp >= 0, lp < n, lp + (ld + 1) == n - 1))
        ss_.qassumes.append(QAssume(lambda q: z3.Implies(z3.And(q >= 0, q < n, q + ld == n - 1), ts[q] <= ts[n - 1]), "induction-hypothesis(d)"))
        ss_.inst_terms.extend([("term", lp), ("term", lp + 1)])
        ex.ctx.oblige(ss_, "lemma", "labels-bounded-by-the-last:induction-step(d+1)", ts[lp] <= ts[n - 1], None)
        st.qassumes.append(QAssume(lambda p: z3.Implies(z3.And(p >= 0, p < n), ts[p] <= ts[n - 1]), "labels-bounded-by-the-last (lemma, proved by induction above)"))
        m = st.alloc(ObjP(mcls, {"candles": st.alloc(HListP("unused", csr, lo=z3.IntVal(0), hi=z3.IntVal(0))), "timeframe": None,
                                 "timeframe_fill": True, "candles_lifespan": None, "candlestick_type": None}))
        g = {"cs": csr, "n": SInt(n), "tf": SInt(tf), "next0": SInt(next0)}
        ex.ctx.ghost_env = dict(g)
        yield st, [m, lr, TimeDeltaV(tf)], {}, dict(g, self=m, candles=lr)
    return build


ID = lambda q: f"LId(candles, {q})"
# the close a gap is filled from: the RAW close of the previous candle (a converted candle keeps it in clean_values)
RAWCLOSE = lambda i: f"(F(cs, 'c_close', {i}) if F(cs, 'clean', {i}) else F(cs, 'close', {i}))"
FILL_INV = {
    "allocator": "NextId(cs) >= next0 and forall(0, LLen(candles), lambda q: " + ID("q") + " < NextId(cs))",
    "index-inside": "1 <= index and index < LLen(candles) and LLo(candles) == 0",
    "prefix-is-contiguous": f"forall(0, index - 1, lambda q: {TS(ID('q + 1'))} == {TS(ID('q'))} + tf)",
    "labels-are-bucket-ends": f"forall(0, LLen(candles), lambda q: {TS(ID('q'))} % tf == 0)",
    "labels-strictly-increasing": f"forall(0, LLen(candles) - 1, lambda q: {TS(ID('q'))} < {TS(ID('q + 1'))})",
    "labels-bounded-by-the-last-bucket": f"forall(0, LLen(candles), lambda q: {TS(ID('q'))} <= F(cs, 'ts', n - 1))",
    "real-buckets-untouched": "forall(0, n, lambda p: F(cs, 'ts', p) == F0(cs, 'ts', p) and F(cs, 'close', p) == F0(cs, 'close', p)"
                              " and F(cs, 'open', p) == F0(cs, 'open', p) and F(cs, 'high', p) == F0(cs, 'high', p) and F(cs, 'low', p) == F0(cs, 'low', p)"
                              " and F(cs, 'volume', p) == F0(cs, 'volume', p) and F(cs, 'rd', p) == F0(cs, 'rd', p))",
    # one clause per field: small queries decide (and refute) quickly
    **{f"inserted-candles-are-flat:{f}": ("forall(1, LLen(candles), lambda q: implies(" + ID("q") + " >= next0,"
                                         " F(cs, '" + f + "', " + ID("q") + ") == " + RAWCLOSE(ID("q - 1")) + "))") for f in ("open", "high", "low", "close")},
    "inserted-candles-are-empty": ("forall(1, LLen(candles), lambda q: implies(" + ID("q") + " >= next0,"
                                   " F(cs, 'volume', " + ID("q") + ") == 0 and F(cs, 'rd', " + ID("q") + ") == 0))"),
    "first-and-last-are-the-input-ends": "LId(candles, 0) == 0 and LId(candles, LLen(candles) - 1) == n - 1",
    "elements-are-inputs-or-inserted": "forall(0, LLen(candles), lambda q: (0 <= " + ID("q") + " and " + ID("q") + " < n) or " + ID("q") + " >= next0)",
}
FILL = Contract(
    CM + "fill_missing_candles",
    ensures={
        "contiguous": f"implies(n >= 2, forall(0, LLen(result) - 1, lambda q: F(cs, 'ts', LId(result, q + 1)) == F(cs, 'ts', LId(result, q)) + tf))",
        "real-buckets-untouched": "forall(0, n, lambda p: F(cs, 'ts', p) == F0(cs, 'ts', p) and F(cs, 'close', p) == F0(cs, 'close', p)"
                                  " and F(cs, 'volume', p) == F0(cs, 'volume', p) and F(cs, 'rd', p) == F0(cs, 'rd', p))",
        "inserted-candles-are-flat-with-zero-volume": (
            "implies(n >= 2, forall(1, LLen(result), lambda q: implies(LId(result, q) >= next0,"
            " F(cs, 'open', LId(result, q)) == " + RAWCLOSE("LId(result, q - 1)") + " and F(cs, 'high', LId(result, q)) == " + RAWCLOSE("LId(result, q - 1)") +
            " and F(cs, 'low', LId(result, q)) == " + RAWCLOSE("LId(result, q - 1)") + " and F(cs, 'close', LId(result, q)) == " + RAWCLOSE("LId(result, q - 1)") +
            ""
            " and F(cs, 'volume', LId(result, q)) == 0)))"),
        "ends-kept": "implies(n >= 2, LId(result, 0) == 0 and LId(result, LLen(result) - 1) == n - 1)",
    },
    result_type="None", props=["C12"], use_at_calls=False)
FILL.ground_rounds = 3
FILL.max_terms = 160
for _tf in ((1, 300, 86400) if _os.environ.get("HEXVC_TIER") != "thorough" else (1, 5, 60, 300, 900, 3600, 14400, 86400, 604800)):
    HEX_TASKS[CM + f"fill_missing_candles#tf={_tf}s"] = dict(qualname=CM + "fill_missing_candles", builder=fill_builder(_tf), contract=FILL, natives=STORE_NATIVES)
LOOPS[(CM + "fill_missing_candles", 0)] = LoopSpec(
    invariant=FILL_INV,
    # termination of `while True`: the label of candles[index - 1] moves one timeframe closer to the last bucket every iteration
    decreases=f"F(cs, 'ts', n - 1) - {TS(ID('index - 1'))}",
    types={"index": "int", "prev_candle": "hcandle", "fill_candle": "hcandle", "candles": "hlist"},
    modifies_heap=["cs"],
    write_frame=("cs", []),
)

CT = "hexital.core.candlestick_type.CandlestickType."
HA = "1 + 0"  # placeholder, replaced below


def ha_builder(ex, st):
    import z3
    from hexvc.state import ObjP, QAssume
    from hexvc.store import CandleStoreP, HListP, tag_code
    from hexvc.values import SInt
    src = ex.ctx.source
    hcls = src.module("hexital.candlesticks.heikinashi").classes["HeikinAshi"]
    src.resolve_class_bases(hcls)
    cs = CandleStoreP("cs")
    csr = st.alloc(cs)
    n, c = z3.Int("n"), z3.Int("c")
    lst = HListP("L", csr, lo=z3.IntVal(0), hi=n)
    lr = st.alloc(lst)
    st.assume(z3.And(n >= 0, c >= 0, c <= n))
    arr, tag = lst.arr, cs.arr["tag"]
    code = tag_code("Heikin-Ashi")
    st.qassumes.append(QAssume(lambda p: z3.Implies(z3.And(p >= 0, p < n), arr[p] == p), "ids-are-positions"))
    # representation invariant of the store: the converted candles are a prefix (conversion runs after every
    # collapse; merging un-converts only the last bucket)
    st.qassumes.append(QAssume(lambda p: z3.Implies(z3.And(p >= 0, p < n), tag[p] == z3.If(p < c, code, 0)), "converted-candles-are-a-prefix"))
    h = st.alloc(ObjP(hcls, {}))
    g = {"cs": csr, "n": SInt(n), "c": SInt(c), "HA": SInt(code)}
    ex.ctx.ghost_env = dict(g)
    yield st, [h, lr], {}, dict(g, self=h, candles=lr)


FIND_CONV = Contract(CT + "_find_conv_index", returns="c", props=["C11"], use_at_calls=False, pure=True)
LOOPS[(CT + "_find_conv_index", 0)] = LoopSpec(invariant={"no-converted-candle-above": "forall(0, it, lambda t: F(cs, 'tag', LId(candles, LLen(candles) - 1 - t)) != HA)"})
HEX_TASKS[CT + "_find_conv_index"] = dict(builder=ha_builder, contract=FIND_CONV)

RAW = lambda f, p: f"F0(cs, '{f}', {p})"
NOW = lambda f, p: f"F(cs, '{f}', {p})"
HA_CLOSE = lambda p: f"({RAW('open', p)} + {RAW('high', p)} + {RAW('low', p)} + {RAW('close', p)}) / 4"
HA_OPEN = lambda p: f"(({RAW('open', p)} + {RAW('close', p)}) / 2 if {p} == 0 else ({NOW('open', f'{p} - 1')} + {NOW('close', f'{p} - 1')}) / 2)"
CONV_PARTS = {
    "tagged-saved-reset": lambda p: f"{NOW('tag', p)} == HA and {NOW('clean', p)} and {NOW('rd', p)} == 0",
    "raw-values-recoverable": lambda p: (f"{NOW('c_open', p)} == {RAW('open', p)} and {NOW('c_high', p)} == {RAW('high', p)} and {NOW('c_low', p)} == {RAW('low', p)}"
                                         f" and {NOW('c_close', p)} == {RAW('close', p)} and {NOW('c_volume', p)} == {RAW('volume', p)} and {NOW('c_ts', p)} == {RAW('ts', p)}"),
    "ha-close": lambda p: f"{NOW('close', p)} == {HA_CLOSE(p)}",
    "ha-open": lambda p: f"{NOW('open', p)} == {HA_OPEN(p)}",
    "ha-high-low": lambda p: (f"{NOW('high', p)} == Max({NOW('open', p)}, {RAW('high', p)}, {NOW('close', p)})"
                              f" and {NOW('low', p)} == Min({NOW('open', p)}, {RAW('low', p)}, {NOW('close', p)})"),
    "volume-and-timestamp-kept": lambda p: f"{NOW('volume', p)} == {RAW('volume', p)} and {NOW('ts', p)} == {RAW('ts', p)}",
}
UNTOUCHED = lambda p: " and ".join(f"{NOW(f, p)} == {RAW(f, p)}" for f in ("open", "high", "low", "close", "volume", "ts", "tag", "rd", "clean"))
CONVERSION = Contract(
    CT + "conversion",
    ensures={
        "already-converted-candles-untouched": f"forall(0, c, lambda p: {UNTOUCHED('p')})",
        **{"converted:" + k: f"forall(c, n, lambda p: {fn('p')})" for k, fn in CONV_PARTS.items()},
    },
    # the converter object itself is stateless: a conversion depends on the candles only, whatever was converted before (other
    # managers of a Hexital share the instance; a re-opened bucket is converted again)
    result_type="None", props=["C11"], use_at_calls=False, pure_args=["self"])
LOOPS[(CT + "conversion", 0)] = LoopSpec(
    invariant={
        "already-converted-candles-untouched": f"forall(0, c, lambda p: {UNTOUCHED('p')})",
        **{"converted-so-far:" + k: f"forall(c, c + it, lambda p: {fn('p')})" for k, fn in CONV_PARTS.items()},
        "not-yet-converted-untouched": f"forall(c + it, n, lambda p: {UNTOUCHED('p')})",
        "list-unchanged": "LLo(candles) == 0 and LHi(candles) == n and forall(0, n, lambda p: LRaw(candles, p) == p)",
    },
    types={"candle": "hcandle"},
    modifies_heap=["cs"],
    write_frame=("cs", ["candle"]),
)
HEX_TASKS[CT + "conversion"] = dict(builder=ha_builder, contract=CONVERSION)

K = "hexital.core.candle.Candle."


def candle_obj_builder(converted):
    """two real Candle objects built by the real constructor; `self` optionally in the state conversion leaves
    it in (clean_values = what save_clean_values stored, OHLC overwritten, tag set, some readings present)"""
    def build(ex, st):
        import z3
        from hexvc.exec import ClassVal
        from hexvc.objects import instantiate
        from hexvc.state import DictP
        from hexvc.timevals import DateTimeV
        from hexvc.values import SFloat, SNum, SV, V
        src = ex.ctx.source
        ccls = src.module("hexital.core.candle").classes["Candle"]
        src.resolve_class_bases(ccls)
        env = {}

        def mk(prefix, st0):
            vals_ = {f: SFloat(z3.Real(f"{prefix}{f}")) for f in ("open", "high", "low", "close")}
            vals_["volume"] = SNum(z3.Real(f"{prefix}volume"), z3.BoolVal(False))
            vals_["timestamp"] = DateTimeV(z3.Int(f"{prefix}ts"))
            outs = list(instantiate(ex, ccls, [], dict(vals_), st0, None))
            s1, ref = outs[0]
            for f, v in vals_.items():
                env[prefix + f] = v
            return s1, ref

        st, a = mk("a_", st)
        st, b = mk("b_", st)
        pa = st.heap[a.oid]
        pa.fields["indicators"] = st.alloc(DictP({"EMA_3": SV(z3.Const("old_reading", V))}))
        if converted:
            raw = {f: env["a_" + f] for f in ("open", "high", "low", "close", "volume", "timestamp")}
            raw["clean_values"] = st.alloc(DictP({}))
            raw["indicators"] = st.alloc(DictP({}))
            raw["sub_indicators"] = st.alloc(DictP({}))
            pa.fields["clean_values"] = st.alloc(DictP(raw))
            for f in ("open", "high", "low", "close"):
                pa.fields[f] = SFloat(z3.Real(f"conv_{f}"))
            pa.fields["_tag"] = "Heikin-Ashi"
        env.update({"self": a, "candle": b})
        yield st, [a, b], {}, env
    return build


MERGE = Contract(
    K + "merge",
    ensures={
        "open-kept-raw": "self.open == a_open",
        "high-is-max": "self.high == Max(a_high, b_high)",
        "low-is-min": "self.low == Min(a_low, b_low)",
        "volume-summed": "self.volume == a_volume + b_volume",
        "close-taken": "self.close == b_close",
        "timestamp-kept-raw": "self.timestamp == a_timestamp",
        "clean-values-dropped": "LenOf(self.clean_values) == 0",
        "readings-wiped": "LenOf(self.indicators) == 0 and LenOf(self.sub_indicators) == 0",
        "tag-cleared": "self._tag is None",
        "other-candle-untouched": "candle.open == b_open and candle.high == b_high and candle.low == b_low and candle.close == b_close and candle.volume == b_volume",
    },
    result_type="None", props=["C03", "C11", "C01", "C02"], use_at_calls=False)
HEX_TASKS[K + "merge#raw"] = dict(qualname=K + "merge", builder=candle_obj_builder(False), contract=MERGE)
HEX_TASKS[K + "merge#converted"] = dict(qualname=K + "merge", builder=candle_obj_builder(True), contract=MERGE)


def candle_single_builder(ex, st):
    for st1, args, kw, env in candle_obj_builder(False)(ex, st):
        yield st1, [args[0]], {}, env


SAVE = Contract(
    K + "save_clean_values",
    ensures={"raw-values-saved": "self.clean_values['open'] == a_open and self.clean_values['high'] == a_high and self.clean_values['low'] == a_low"
                                 " and self.clean_values['close'] == a_close and self.clean_values['volume'] == a_volume and self.clean_values['timestamp'] == a_timestamp",
             "fields-unchanged": "self.open == a_open and self.high == a_high and self.low == a_low and self.close == a_close and self.volume == a_volume"},
    result_type="None", props=["C11"], use_at_calls=False)
HEX_TASKS[K + "save_clean_values"] = dict(builder=candle_single_builder, contract=SAVE)
RESET = Contract(K + "reset_candle", ensures={"readings-wiped-and-tag-cleared": "LenOf(self.indicators) == 0 and LenOf(self.sub_indicators) == 0 and self._tag is None",
                                              "values-unchanged": "self.open == a_open and self.close == a_close and self.high == a_high and self.low == a_low and self.volume == a_volume"},
                 result_type="None", props=["C11", "C03"], use_at_calls=False)
HEX_TASKS[K + "reset_candle"] = dict(builder=candle_single_builder, contract=RESET)
