"""Layer 0: index helpers (hexital/utils/indexing.py)."""
from hexvc.contracts import Contract

CONTRACTS = [
    Contract(
        "hexital.utils.indexing.valid_index",
        types={"index": "int|None", "length": "int"},
        returns="index is not None and -length <= index < length",
        props=["C16", "C20", "C14"],
    ),
    Contract(
        "hexital.utils.indexing.absindex",
        types={"index": "int|None", "length": "int"},
        requires={"length-nonneg": "length >= 0"},
        ensures={
            "none-default": "implies(index is None, result == length - 1)",
            "in-range": "implies(index is not None and -length <= index < length,"
                        " result == (index if index >= 0 else length + index))",
            "out-of-range": "implies(index is not None and not (-length <= index < length), result is None)",
        },
        result_type="int|None",
        props=["C16", "C20", "C14"],
    ),
    Contract(
        "hexital.utils.indexing.validate_index",
        types={"index": "int|None", "length": "int", "default": "int"},
        requires={"length-nonneg": "length >= 0"},
        ensures={
            "valid": "implies(-length <= (default if index is None else index) < length,"
                     " result == (default if index is None else index))",
            "invalid": "implies(not (-length <= (default if index is None else index) < length), result is None)",
        },
        result_type="int|None",
        props=["C16"],
    ),
]
