"""Layer 0: index helpers (hexital/utils/indexing.py)."""
from hexvc.contracts import Contract

CONTRACTS = [
    Contract(
        "hexital.utils.indexing.valid_index",
        types={"index": "int|None", "length": "int"},
        returns="index is not None and -length <= index < length",
        props=["C16", "C20", "C14"],
    ),
    Contract(
        "hexital.utils.indexing.absindex",
        types={"index": "int|None", "length": "int"},
        requires={"length-nonneg": "length >= 0"},
        # note absindex(None, 0) == -1: callers must not pass an empty list with index None
        returns="length - 1 if index is None else"
                " ((index if index >= 0 else length + index) if -length <= index < length else None)",
        props=["C16", "C20", "C14"],
    ),
    Contract(
        "hexital.utils.indexing.validate_index",
        types={"index": "int|None", "length": "int", "default": "int"},
        requires={"length-nonneg": "length >= 0"},
        # un-normalised: a valid negative index is returned as it is
        lets={"ix": "default if index is None else index"},
        returns="ix if -length <= ix < length else None",
        props=["C16"],
    ),
]


def _own_read_candle(ex, st, env, node):
    from hexvc.series import CandleAt
    c = env["candle"]
    if isinstance(c, CandleAt):
        ex.note_series_read(st, st.heap[c.series.oid], c.j, env["name"], node)


def _own_read_index(namevar):
    def eff(ex, st, env, node):
        from hexvc.series import SeriesP
        from hexvc.values import Ref
        ser = env["candles"]
        idx = env.get("idx", env.get("index"))
        if isinstance(ser, Ref) and isinstance(st.heap[ser.oid], SeriesP) and idx is not None:
            p = st.heap[ser.oid]
            ex.note_series_read(st, p, p.norm(idx), env[namevar], node)
    return eff


CONTRACTS += [
    Contract(
        "hexital.utils.candles.reading_by_candle",
        types={"candle": "candle", "name": "name"},
        returns="RdC(candle, name)",
        native_effect=_own_read_candle,
        props=["C20", "C13"],
        assumed=True,  # proved separately on the faithful model of a candle with symbolic dict keys
        # (task reading_by_candle#faithful); the series-level Rd encodes the same lookup order (trusted link E5)
    ),
    Contract(
        "hexital.utils.candles.reading_by_index",
        types={"candles": "series", "name": "name", "index": "int"},
        returns="RdI(candles, index, name)",
        reads=[("candles", "norm(index, Len(candles))", "norm(index, Len(candles))", "valid(index, Len(candles))")],
        native_effect=_own_read_index("name"),
        props=["C20", "C16"],
    ),
    Contract(
        "hexital.utils.candles.reading_period",
        types={"candles": "series", "period": "int", "name": "name", "index": "int|None"},
        lets={"p1": "period - 1", "idx": "Len(candles) - 1 if index is None else index"},
        requires={"period-positive": "period >= 1"},
        returns="(index is None or valid(index, Len(candles))) and idx - p1 >= 0"
                " and RdI(candles, idx - p1, name) is not None"
                " and RdI(candles, idx - Int(p1 / 2), name) is not None"
                " and RdI(candles, idx, name) is not None",
        reads=[("candles", "idx - p1", "idx", "(index is None or valid(index, Len(candles))) and idx - p1 >= 0 and idx >= 0")],
        native_effect=_own_read_index("name"),
        props=["C04", "C20"],
    ),
    Contract(
        "hexital.utils.candles.candles_sum",
        types={"candles": "series", "indicator": "name", "length": "int", "index": "int"},
        requires={
            "index-in-range": "0 <= index < Len(candles)",
            "window-inside": "1 <= length <= index + 1",
            "numeric-or-missing": "forall(index + 1 - length, index + 1, lambda j:"
                                  " isnone(Rd(candles, j, indicator)) or isnum(Rd(candles, j, indicator)))",
        },
        returns="None if index == 0 else Sigma(index + 1 - length, index + 1, lambda j: num0(Rd(candles, j, indicator)))",
        reads=[("candles", "index + 1 - length", "index", "index > 0")],
        props=["C04", "C05"],
    ),
]
