"""Per-property metadata for evidence files."""
PROPERTY_META = {}
