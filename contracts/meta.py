"""Per-property metadata: what the deductive cone proves, what stays with the bounded stand-in."""

COMMON_ASSUME = [
    "A1 floats as mathematical reals; round() axiomatised",
    "E3 the induction over append / operation histories is the standard representation-invariant argument (DESIGN.md section 6), stated, not mechanised",
    "names of distinct templates denote distinct keys; user supplied input names are not Candle attribute names and not in the indicator's own namespace (premise of C13)",
]

PROPERTY_META = {
    "C01": {"claimed": True, "explanation": "per shipped indicator class: the REAL loop body of Indicator.calculate is executed symbolically for an arbitrary index i on a candle list of unbounded length; obligations: every candle access lies in [max(0,i-W), i] (no wrap-around, no look-ahead), every write goes to the class's own namespace at index i, own keys are not read at i before being written, nothing raises, and the class invariant Inv(i) is re-established from Inv(j<i); batch == incremental then follows by induction over the append schedule (E3). Candle-store obligations (append/collapse/merge) are decided by the bounded stand-in in this round.",
            "technique": "contract-based deductive verification: VCs generated from the repository AST (hexvc), discharged by z3/cvc5; bounded schedule-vs-batch stand-in for the candle store"},
    "C02": {"claimed": True, "explanation": "same cone as C01 seen as finality: read frame [max(0,i-W), i] for every indicator step and for the movement helpers they call; write frame = own namespace at i only. Collapse 'frozen prefix' is decided by the bounded stand-in in this round.",
            "technique": "contract-based deductive verification (frame obligations on the real indicator bodies) + bounded snapshot-prefix stand-in"},
    "C04": {"claimed": True, "explanation": "SMA, EMA, RMA, WMA, VWMA, HMA: presence exactly from the first full window (symbolic late start s of the input), window / recurrence formulas within the rounding slack, decay-weighted RMA seed, for symbolic period, smoothing, round_value; inputs plain or dotted names. HMA for period >= 4 (periods 2,3 bounded only).",
            "technique": "contract-based deductive verification: class invariants as postconditions of the real driver loop body, Sigma summarisation, z3"},
    "C05": {"claimed": True, "explanation": "TR, ATR, STDEV (running mean/variance identities deferred to the stand-in), BBANDS, KC, HLA, Supertrend (flip and ratchet rules), STDEVTHRES, Counter proved against the statement's definitions; Donchian / HighestLowest are decided by the bounded stand-in in this round.",
            "technique": "contract-based deductive verification + bounded reference-implementation stand-in"},
    "C06": {"claimed": True, "explanation": "RSI (Wilder seeds and recurrences, 100 without losses), MACD (through the modular EMA signal-line contract), ROC, STOCH, TSI, ADX (through three RMA helper contracts), OBV, VWAP proved; AROON and the STOCH %stoch formula / ranges are decided by the bounded stand-in in this round.",
            "technique": "contract-based deductive verification with modular helper contracts + bounded reference-implementation stand-in"},
    "C09": {"claimed": True, "explanation": "every noraise:* obligation (ZeroDivisionError, TypeError, IndexError, KeyError, ValueError) of every indicator step, plus the presence clauses 'reading is not None iff j >= warm-up' (no gaps) and result-sort clauses; float-only failures (zero-margin obligations such as sqrt of a running variance) are covered by the bounded adversarial float stand-in.",
            "technique": "contract-based deductive verification (no-raise and presence obligations) + bounded adversarial float stand-in"},
    "C10": {"claimed": True, "explanation": "the bound / relation clauses of the class invariants (RSI in [0,100], TR >= high-low >= 0, ATR >= 0, STDEV >= 0, ordered bands, MACD histogram, Supertrend direction / long / short, OBV steps, Counter, every reading rounded); ranges of STOCH/AROON/ADX/TSI and 'averages within the range of their inputs' are decided by the bounded stand-in.",
            "technique": "contract-based deductive verification (invariant clauses) + bounded stand-in"},
    "C14": {"claimed": True, "explanation": "recompute-step tasks: the REAL loop body of Indicator.calculate_index re-establishes Inv(i) from Inv(j<=i) for every class without reading its own old entry at i (frame-read-own); purge depth, negative indices and operation sequences are decided by the bounded stand-in in this round.",
            "technique": "contract-based deductive verification (recompute-step obligations) + bounded operation-sequence stand-in"},
    "C16": {"claimed": True, "explanation": "index normalisation helpers (valid_index, absindex, validate_index) and reading_by_index / reading_period / candles_sum proved functionally; movement and pattern functions are decided by the bounded stand-in in this round.",
            "technique": "contract-based deductive verification of the index helpers + bounded truncation/negative-index stand-in"},
}
