"""Layer 2: the indicator driver (hexital/core/indicator.py) - C01, C02, C07, C14.
Verified on an EMA instance: the driver code is class independent; the per-class behaviour of one
step is what the calculate-step / recompute-step tasks prove."""
from hexvc.contracts import Contract
from hexvc.loops import LoopSpec

I = "hexital.core.indicator.Indicator."
PC = ("0 <= k and k <= Len(self.candles) and forall(0, Len(self.candles), lambda j: iff(Has(self.candles, j, self.name), j < k))")
CONTRACTS = [
    Contract(
        I + "_find_calc_index",
        types={"self": "indicator"},
        ghost={"k": "int"},
        requires={"prefix-complete": PC},
        # resumes exactly at the first candle without the reading (C15: after a trim that leaves one calculated candle in
        # front of the new ones, that candle - and the helper series on it - must not be recomputed from less history)
        returns="k",
        props=["C01", "C07", "C14"],
        use_at_calls=False, pure=True,
    ),
]
LOOPS = {
    (I + "_find_calc_index", 0): LoopSpec(invariant={
        "nothing-found-above": "forall(0, it, lambda t: not Has(self.candles, Len(self.candles) - 1 - t, self.name))",
        # C07: the scan only visits candles that lack the reading (plus one)
        "scan-bounded-by-missing-candles": "it <= Len(self.candles) - k",
    }),
}

R = "k"


def _abstract_step(ex, st, args, kwargs, node):
    """the step function is abstract here (any float or None): what one step computes is the subject of the
    per-class calculate-step tasks"""
    import z3
    from hexvc.state import fresh_name
    from hexvc.values import SFloat, SOpt

    def gen():
        n = fresh_name("reading")
        yield st, SOpt(z3.Bool(n + ".none"), SFloat(z3.Real(n)))
    return gen()


DRIVER_NATIVES = {"hexital.indicators.ema.EMA._calculate_reading": _abstract_step}
# a reading that already holds a value is never recomputed (C15: after trimming, the history it was computed from may be gone;
# _find_calc_index resumes at candle 0 when only candle 0 carries the reading)
KEPT = ("forall(0, Len(self.candles), lambda j: implies(old(Rd(self.candles, j, self.name)) is not None,"
        " same(Rd(self.candles, j, self.name), old(Rd(self.candles, j, self.name)))))")
FROZEN = "forall(0, " + R + ", lambda j: same(Rd(self.candles, j, self.name), old(Rd(self.candles, j, self.name))) and Has(self.candles, j, self.name))"
CONTRACTS += [
    Contract(
        I + "calculate",
        types={"self": "indicator"},
        ghost={"k": "int"},
        requires={"prefix-complete": PC,
                  # a top-level indicator's own key lives in candle.indicators only (namespace premise of C13)
                  "own-key-in-indicators-only": "forall(0, Len(self.candles), lambda j: not HasIn(self.candles, j, self.name, 'S'))"},
        ensures={
            "every-candle-has-the-reading": "forall(0, Len(self.candles), lambda j: Has(self.candles, j, self.name))",
            "readings-below-the-resume-point-untouched": FROZEN,
            "existing-readings-are-never-recomputed": KEPT,
        },
        result_type="None",
        props=["C01", "C02", "C07", "C14", "C15"],
        use_at_calls=False,
    ),
]
LOOPS[(I + "calculate", 0)] = LoopSpec(
    invariant={
        "written-up-to-here": "forall(0, " + R + " + it, lambda j: Has(self.candles, j, self.name))",
        "frozen-below-resume-point": FROZEN,
        "existing-readings-kept": KEPT,
        "own-key-stays-out-of-sub-indicators": "forall(0, Len(self.candles), lambda j: not HasIn(self.candles, j, self.name, 'S'))",
    },
    types={"reading": "float|None"},
    modifies_series=[("self.candles", "self.name")],
    modifies_fields=[("self", "_active_index", "int")],
)
TASK_NATIVES = {I + "calculate": DRIVER_NATIVES}

NS = "norm(start_index, Len(self.candles))"
CONTRACTS += [
    Contract(
        I + "calculate_index",
        types={"self": "indicator", "start_index": "int", "end_index": "None"},
        requires={"index-in-range": "valid(start_index, Len(self.candles))"},
        ensures={
            "reading-written-at-the-addressed-candle": f"Has(self.candles, {NS}, self.name)",
            "every-other-candle-untouched": f"forall(0, Len(self.candles), lambda j: implies(j != {NS},"
                                           " same(Rd(self.candles, j, self.name), old(Rd(self.candles, j, self.name)))"
                                           " and iff(Has(self.candles, j, self.name), old(Has(self.candles, j, self.name)))))",
            "works-on-the-normalised-index": f"self._active_index == {NS}",
        },
        result_type="None",
        props=["C14"],
        use_at_calls=False,
    ),
]
TASK_NATIVES[I + "calculate_index"] = DRIVER_NATIVES

CM = "hexital.core.candle_manager.CandleManager."


def manager_builder(ex, st):
    import z3
    from hexvc.state import ObjP, SetP
    from hexvc.tasks import new_series
    from hexvc.values import Tmpl, Atom
    src = ex.ctx.source
    mcls = src.module("hexital.core.candle_manager").classes["CandleManager"]
    src.resolve_class_bases(mcls)
    a = new_series(st, "candles")
    m = st.alloc(ObjP(mcls, {"candles": a, "timeframe": None, "timeframe_fill": False, "candles_lifespan": None, "candlestick_type": None}))
    names = st.alloc(SetP([Tmpl((Atom("n1", "str"),)), Tmpl((Atom("n2", "str"),))]))
    env = {"self": m, "indicator": names, "other": Tmpl((Atom("other", "str"),))}
    yield st, [m, names], {}, env


PURGE = Contract(
    CM + "purge",
    ensures={
        "named-keys-gone-from-every-candle": "forall(0, Len(self.candles), lambda j: not HasAny(self.candles, j, indicator))",
        "every-other-key-untouched": "forall(0, Len(self.candles), lambda j: same(Rd(self.candles, j, other), old(Rd(self.candles, j, other)))"
                                     " and iff(Has(self.candles, j, other), old(Has(self.candles, j, other))))",
    },
    result_type="None", props=["C14", "C13"], use_at_calls=False)
LOOPS[(CM + "purge", 1)] = LoopSpec(
    invariant={"purged-so-far": "forall(0, it, lambda j: not HasAny(self.candles, j, indicator))"},
    modifies_series=[("self.candles", "indicator")],
)
HEX_TASKS = {CM + "purge": dict(builder=manager_builder, contract=PURGE)}


# ... and on two CONCRETE candles whose dicts hold entries with similar names: only the exactly named keys go (a purge that
# enumerates a candle's keys - by prefix, substring, pattern - cannot be expressed in the series model above, which has one
# array per key; here the dicts are concrete and the enumeration is executed)
def manager_concrete_builder(ex, st):
    from hexvc.state import DictP, ListP, ObjP, SetP
    src = ex.ctx.source
    mcls = src.module("hexital.core.candle_manager").classes["CandleManager"]
    ccls = src.module("hexital.core.candle").classes["Candle"]
    for c in (mcls, ccls):
        src.resolve_class_bases(c)
    mkc = lambda: st.alloc(ObjP(ccls, {"indicators": st.alloc(DictP({"SMA_2": 1.0, "SMA_20": 2.0, "EMA_5": 3.0, "xSMA_2": 4.0})),
                                       "sub_indicators": st.alloc(DictP({"SMA_2_data": 5.0, "SMA_20_data": 6.0, "SMA_2x": 7.0})),
                                       "_tag": None, "clean_values": st.alloc(DictP({}))}))
    c1, c2 = mkc(), mkc()
    m = st.alloc(ObjP(mcls, {"candles": st.alloc(ListP([c1, c2])), "timeframe": None, "timeframe_fill": False, "candles_lifespan": None, "candlestick_type": None}))
    names = st.alloc(SetP(["SMA_2", "SMA_2_data"]))
    yield st, [m, names], {}, {"self": m, "indicator": names, "c1": c1, "c2": c2}


_KEPT = " and ".join(f"LenOf({c}.indicators) == 3 and LenOf({c}.sub_indicators) == 2 and {c}.indicators['SMA_20'] == 2.0 and {c}.indicators['EMA_5'] == 3.0"
                     f" and {c}.indicators['xSMA_2'] == 4.0 and {c}.sub_indicators['SMA_20_data'] == 6.0 and {c}.sub_indicators['SMA_2x'] == 7.0" for c in ("c1", "c2"))
HEX_TASKS[CM + "purge#concrete-similar-names"] = dict(
    qualname=CM + "purge", builder=manager_concrete_builder,
    contract=Contract(CM + "purge", ensures={"exactly-the-named-keys-go": _KEPT}, result_type="None", props=["C13", "C14"], use_at_calls=False))


def graph_builder(clsq, kwargs):
    """a real composite indicator built by its real constructor and _initialise; `expected` = the names of every
    indicator object reachable through sub_indicators / managed_indicators (each writes under its own name)"""
    def build(ex, st):
        import z3
        from hexvc.exec import FuncVal
        from hexvc.objects import instantiate
        from hexvc.state import DictP, ObjP, SetP
        from hexvc.tasks import new_series
        from hexvc.values import SInt, SFloat, Ref
        src = ex.ctx.source
        mod, cname = clsq.rsplit(".", 1)
        cls = src.module(mod).classes[cname]
        src.resolve_class_bases(cls)
        series = new_series(st, "c")
        kw = {"candles": series}
        for k, ty in kwargs.items():
            kw[k] = SInt(z3.Int(k)) if ty == "int" else SFloat(z3.Real(k))
            st.assume(kw[k].t >= 4)
        outs = [(s1, o) for s1, o in instantiate(ex, cls, [], kw, st, None) if s1.heap[o.oid].fields.get("candles") == series]
        st1, obj = outs[0]
        o = st1.heap[obj.oid]
        c0, init = o.cls.find("methods", "_initialise")
        outs2 = list(ex.call_function(FuncVal(c0.module, init, c0), [obj], {}, st1, None))
        st2 = outs2[0][0]
        names = []

        def walk(ref):
            p = st2.heap[ref.oid]
            names.append(p.fields["_output_name"])
            for fld in ("sub_indicators", "managed_indicators"):
                for v in st2.heap[p.fields[fld].oid].items.values():
                    walk(v)
        walk(obj)
        exp = st2.alloc(SetP(names))
        yield st2, [obj], {}, {"self": obj, "expected": exp}
    return build


HELPER_NAMES = Contract(I + "_helper_names", returns=None, ensures={"every-name-in-the-helper-graph": "SetEq(result, expected)"},
                        result_type="None", props=["C14", "C13"], use_at_calls=False, pure=True)
for _cls, _kw in (("hexital.indicators.adx.ADX", {"period": "int", "period_signal": "int"}),
                  ("hexital.indicators.tsi.TSI", {"period": "int", "smooth_period": "int"}),
                  ("hexital.indicators.stoch.STOCH", {"period": "int"}),
                  ("hexital.indicators.hma.HMA", {"period": "int"}),
                  ("hexital.indicators.kc.KC", {"period": "int"}),
                  ("hexital.indicators.supertrend.Supertrend", {"period": "int"}),
                  ("hexital.indicators.macd.MACD", {}),
                  ("hexital.indicators.bbands.BBANDS", {"period": "int"}),
                  ("hexital.indicators.atr.ATR", {"period": "int"})):
    HEX_TASKS[I + "_helper_names#" + _cls.rsplit(".", 1)[1]] = dict(qualname=I + "_helper_names", builder=graph_builder(_cls, _kw), contract=HELPER_NAMES)
