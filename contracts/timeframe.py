"""hexital/utils/timeframe.py - bucket edges on the naive wall-clock axis (C18, C03)."""
from hexvc.contracts import Contract

T = "hexital.utils.timeframe."


def ts_builder(extra=()):
    def build(ex, st):
        import z3
        from hexvc.timevals import DateTimeV, TimeDeltaV
        ts = DateTimeV(z3.Int("ts"), z3.Int("micro"))
        st.assume(z3.And(z3.Int("micro") >= 0, z3.Int("micro") < 1000000))
        tf = TimeDeltaV(z3.Int("tf"))
        st.assume(z3.Int("tf") > 0)
        env = {"timestamp": ts, "timeframe": tf, "ts": ts.sec, "micro": ts.micro, "tf": tf.sec}
        from hexvc.values import SInt
        env["ts"], env["micro"], env["tf"] = SInt(z3.Int("ts")), SInt(z3.Int("micro")), SInt(z3.Int("tf"))
        args = [ts] + ([tf] if "tf" in extra else [])
        yield st, args, {}, env
    return build


HEX_TASKS = {
    T + "clean_timestamp": dict(builder=ts_builder(), contract=Contract(
        T + "clean_timestamp", ensures={"drops-microseconds": "Sec(result) == ts and Micro(result) == 0"},
        result_type="None", props=["C18", "C03"], use_at_calls=False)),
    # the result must not depend on the zone offset functions of L3 (tzoff / tzoff_back): it is stated on the
    # wall-clock axis only
    T + "round_down_timestamp": dict(builder=ts_builder(("tf",)), contract=Contract(
        T + "round_down_timestamp", ensures={"floor-to-a-multiple-of-the-timeframe-on-the-wall-clock-axis":
                                             "Sec(result) == ts - ts % tf and Micro(result) == 0"},
        result_type="None", props=["C18", "C03"], use_at_calls=False)),
    T + "on_timeframe": dict(builder=ts_builder(("tf",)), contract=Contract(
        T + "on_timeframe", returns="ts % tf == 0 and micro == 0", props=["C18", "C03"], use_at_calls=False)),
}


def tf_string_builder(prefix):
    def build(ex, st):
        import z3
        from hexvc.values import Atom, SInt, Tmpl
        k = z3.Int("k")
        st.assume(k > 0)
        s = Tmpl((prefix, Atom("int:k", "int", k)))
        yield st, [s], {}, {"timeframe": s, "k": SInt(k)}
    return build


for _p, _m in (("S", 1), ("T", 60), ("H", 3600), ("D", 86400)):
    HEX_TASKS[T + f"timeframe_to_timedelta#{_p}"] = dict(
        qualname=T + "timeframe_to_timedelta", builder=tf_string_builder(_p),
        contract=Contract(T + "timeframe_to_timedelta", ensures={"seconds": f"Sec(result) == k * {_m} and Micro(result) == 0"},
                          result_type="None", props=["C03", "C18"], use_at_calls=False))
