"""developer helper: python3-vt dev.py <substring of task key> [--model]"""
import sys, time
sys.path.insert(0, "/verif")
sys.setrecursionlimit(10000)
import registry
from hexvc.source import Source
from hexvc.cli import _run_one
reg = registry.load()
pat = sys.argv[1] if len(sys.argv) > 1 else ""
show_model = "--model" in sys.argv
keys = [("ind", k) for k in reg.ind_tasks if pat in k] + [("func", k) for k in reg.func_tasks if pat in k]
for kind, k in keys:
    d = _run_one((kind, k, 10000))
    bad = [o for o in d["obligations"] if o["status"] != "unsat"]
    print(f"{k}: paths={d['paths']} obl={len(d['obligations'])} bad={len(bad)} gen={d['gen_s']} solve={d['solve_s']}")
    if d.get("out_of_reach"):
        print("   OOR:", str(d["out_of_reach"])[:400])
    seen = set()
    for o in bad:
        key = (o["kind"], o["label"])
        if key in seen: continue
        seen.add(key)
        print("    ", o["status"], o["kind"], "|", o["label"], "| L%s" % o["lineno"], o.get("reason", ""))
        if show_model and "model" in o:
            print("        ", {k: v for k, v in o["model"].items() if len(v) < 60})
