import sys, json
sys.path.insert(0, "/verif")
from hexvc.source import Source
from hexvc.tasks import run_task
from contracts import layer0
src = Source()
cs = {c.qualname: c for c in layer0.CONTRACTS}
for q in cs:
    r = run_task(src, cs, {}, q)
    print(q, "paths", r.paths, "variants", r.variants, "oor", r.out_of_reach)
    for o in r.obligations:
        print("   ", o["status"], o["kind"], o["label"], o.get("model", ""))
