"""Registry of contracts, loop specs, verification tasks and per-property metadata."""
from __future__ import annotations

import importlib
import json
import os

ROOT = os.path.dirname(os.path.abspath(__file__))

TRUSTED_BASE = [
    "hexvc engine: symbolic semantics of the supported Python subset (E1), validated against CPython by the bounded stand-ins and the mutation self-test, not proved",
    "hexvc engine: summarisation of comprehensions/reducers (Sigma, Min/Max, any/all) and the loop rule (E2)",
    "A1: Python floats are treated as mathematical reals; round() is axiomatised (|rnd(x,k)-x| <= hulp(k), monotone, idempotent)",
    "E4: the dataclass-generated __init__ is modelled (fields from keyword arguments or defaults, then the real __post_init__)",
    "z3 5.1 (python API); cvc5 1.0.3 for obligations z3 leaves unknown",
    "distinct positions of a candle list hold distinct Candle objects (A3)",
    "arithmetic lemmas used as hypotheses, each discharged as `lemma` obligations of the task that uses it: (fill loop) strictly increasing bucket labels are "
    "bounded by the last label - induction on the distance, base and step obligations (only the induction principle over the naturals is external); "
    "(STDEV) the running-variance update - a `lemma` obligation on the abstraction of the clause",
    "run-time contract check / counter-model replay (bounded, never counted as proved) execute the repository code under the tooling interpreter "
    "CPython 3.11 (hexital is pure python; the test-suite interpreter is 3.12) and judge float noise as uncertain",
]

_CACHE = None


class Registry:
    pass


def load():
    global _CACHE
    if _CACHE is not None:
        return _CACHE
    reg = Registry()
    reg.contracts = {}
    reg.loops = {}
    reg.natives = {}
    reg.func_tasks = {}
    reg.ind_tasks = {}
    reg.assumed_contracts = set()
    reg.trusted_base = TRUSTED_BASE
    reg.properties = {}
    for line in open(os.path.join(ROOT, "properties.jsonl")):
        p = json.loads(line)
        reg.properties[p["id"]] = {"title": p["title"]}
    for modname in ("layer0", "ind_ma", "ind_simple", "ind_managed", "ind_chain", "movement", "geometry", "faithful", "accessors", "driver", "timeframe", "store", "ind_amorph"):
        m = importlib.import_module("contracts." + modname)
        for c in getattr(m, "CONTRACTS", []):
            reg.contracts[c.qualname] = c
            if c.assumed:
                reg.assumed_contracts.add(c.qualname)
            else:
                reg.func_tasks[c.qualname] = {"props": list(c.props)}
        for key, (qn, c) in getattr(m, "FAITHFUL", {}).items():
            reg.func_tasks[key] = {"props": list(c.props), "qualname": qn, "contract": c}
        for key, d in getattr(m, "HEX_TASKS", {}).items():
            reg.func_tasks[key] = {"props": list(d["contract"].props), "qualname": d.get("qualname", key), "contract": d["contract"], "builder": d["builder"],
                                   "natives": d.get("natives", {})}
        for q, nat in getattr(m, "TASK_NATIVES", {}).items():
            reg.func_tasks.setdefault(q, {"props": []})["natives"] = nat
        for k, v in getattr(m, "LOOPS", {}).items():
            reg.loops[k] = v
        for k, v in getattr(m, "NATIVES", {}).items():
            reg.natives[k] = v
        for spec in getattr(m, "SPECS", []):
            from hexvc.indicators import SPEC_REGISTRY
            SPEC_REGISTRY[spec.cls] = spec
            if spec.window is not None and "C07" not in spec.props:
                spec.props.append("C07")  # the step task carries the work-bound (cost) obligations
            if "C13" not in spec.props:
                spec.props.append("C13")  # ... and the namespace (own-prefix) and write-frame obligations
            for var in list(spec.variants) + [dict(spec.variants[0], mode="index")]:
                vname = ",".join(f"{k}={v}" for k, v in var.items())
                reg.ind_tasks[spec.cls + (f"[{vname}]" if vname else "")] = (spec, var)
    meta = importlib.import_module("contracts.meta")
    for pid, d in meta.PROPERTY_META.items():
        reg.properties[pid].update(d)
    _CACHE = reg
    return reg
