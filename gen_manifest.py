"""writes MANIFEST.json from the registry (kept in sync with what is actually claimed)"""
import json, sys
sys.path.insert(0, "/verif")
import registry
reg = registry.load()
checks = []
na = []
for pid in sorted(reg.properties):
    meta = reg.properties[pid]
    if meta.get("claimed"):
        checks.append({
            "property_id": pid,
            "quick_cmd": f"./check {pid} --tier quick",
            "thorough_cmd": f"./check {pid} --tier thorough",
            "evidence_file": f"evidence/{pid}.json",
            "replay_cmd_template": f"./check {pid} --replay {{path}}",
            "engine": "hexvc",
            "level_claimed": {"category": "proof" if meta.get("level", "proof") == "proof" else "other",
                              "text": meta["explanation"], "design_ref": "DESIGN.md section 6 and 'Changes since round 0'"},
            "level_note": "trusted: the hexvc encoding of the Python subset (validated by mutation self-tests and the bounded stand-ins, not proved), floats as reals (A1), modelled dataclass __init__ (E4), z3/cvc5; the induction over histories is on paper (E3). Clauses named as 'bounded stand-in' are run-time contract checks on the real code over enumerated scopes and are never counted as proved.",
            "technique": meta.get("technique", "contract-based deductive verification"),
        })
    else:
        na.append({"property_id": pid, "reason": meta.get("na_reason", "deductive cone not built yet in this round; a bounded stand-in exists under oracles/ but is not claimed as this technique")})
m = {"version": 1,
     "setup_cmd": "true",
     "hooks": {"guard": "HEXITAL_VERIF", "enable": "no source hooks: contracts are sidecar files under /verif/contracts and the repository AST is re-read on every run", "baseline_off_cmd": "cd /repo && /venv/bin/python -m pytest -q -p no:cacheprovider", "source_commits": [], "add_only": True},
     "engines": [{"name": "hexvc", "path": "hexvc/", "serves_properties": [c["property_id"] for c in checks], "kind_free_text": "verification-condition generator for a Python subset reading the repository AST; ground obligations discharged by z3 5.1 (API), z3 4.8.12 and cvc5 1.0.3 (CLI) as portfolio"}],
     "checks": checks,
     "notes": "See DESIGN.md. known_findings.jsonl lists fixed and known defects.",
     "not_applicable": na}
json.dump(m, open("/verif/MANIFEST.json", "w"), indent=1)
import jsonschema
jsonschema.validate(m, json.load(open("/root/.vp/MANIFEST.schema.json")))
print("manifest ok:", len(checks), "checks,", len(na), "not applicable")
