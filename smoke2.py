import sys, json, time
sys.path.insert(0, "/verif")
from hexvc.source import Source
from hexvc.indicators import run_indicator_task
from contracts import layer0, ind_ma
src = Source()
cs = {c.qualname: c for c in layer0.CONTRACTS}
for spec in ind_ma.SPECS:
    for var in spec.variants:
        t=time.time()
        r = run_indicator_task(src, cs, {}, spec, var)
        print(r.qualname, "paths", r.paths, "variants", r.variants, "gen %.2f solve %.2f"%(r.gen_s, r.solve_s))
        if r.out_of_reach: print("   OOR", r.out_of_reach)
        bad=[o for o in r.obligations if o["status"]!="unsat"]
        print("   obligations", len(r.obligations), "bad", len(bad))
        for o in bad[:12]:
            print("    ", o["status"], o["kind"], o["label"], "L%s"%o["lineno"], o.get("reason",""))
